#!/bin/sh
# tools/run_all.sh [quick|thorough] [ids...] — run every claimed check once on /repo's working tree, one line per check
TIER=${1:-quick}; shift
cd "$(dirname "$0")/.."
IDS=${*:-$(python3 -c "import json;print(' '.join(c['property_id'] for c in json.load(open('MANIFEST.json'))['checks']))")}
for P in $IDS; do
  S=$(date +%s)
  ./check $P --tier $TIER > runall-$TIER-$P.log 2>&1; RC=$?
  echo "$P exit=$RC $(( $(date +%s) - S ))s $(grep -cE '^VIOLATION' runall-$TIER-$P.log) violations $(grep -cE '^KNOWN-FINDING' runall-$TIER-$P.log) known | $(tail -1 runall-$TIER-$P.log | cut -c1-150)"
done
