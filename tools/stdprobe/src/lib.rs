#![allow(unused, clippy::all)]
pub fn opt_map_or(o: Option<i64>, p: Option<i64>) -> i64 { o.map_or(0, |x| x + 1) }
pub fn opt_map_or_else(o: Option<i64>, p: Option<i64>) -> i64 { o.map_or_else(|| 1, |x| x * 2) }
pub fn opt_and_then(o: Option<i64>, p: Option<i64>) -> i64 { o.and_then(|x| p.map(|y| x + y)).unwrap_or(-7) }
pub fn opt_ok_or(o: Option<i64>, p: Option<i64>) -> i64 { o.ok_or("e").unwrap_or(-1) }
pub fn opt_ok_or_else(o: Option<i64>, p: Option<i64>) -> i64 { o.ok_or_else(|| "e").unwrap_or_default() }
pub fn opt_unwrap_or_default(o: Option<i64>, p: Option<i64>) -> i64 { o.unwrap_or_default() }
pub fn opt_filter(o: Option<i64>, p: Option<i64>) -> i64 { o.filter(|x| *x > 0).unwrap_or(-2) }
pub fn opt_zip(o: Option<i64>, p: Option<i64>) -> i64 { o.zip(p).map(|(x, y)| x * 10 + y).unwrap_or(-3) }
pub fn opt_xor(o: Option<i64>, p: Option<i64>) -> i64 { o.xor(p).unwrap_or(-4) }
pub fn opt_or(o: Option<i64>, p: Option<i64>) -> i64 { o.or(p).unwrap_or(-5) }
pub fn opt_or_else(o: Option<i64>, p: Option<i64>) -> i64 { o.or_else(|| Some(9)).unwrap_or(-6) }
pub fn opt_is_some_and(o: Option<i64>, p: Option<i64>) -> i64 { o.is_some_and(|x| x > 1) as i64 }
pub fn opt_flatten(o: Option<i64>, p: Option<i64>) -> i64 { Some(o).flatten().unwrap_or(-8) }
pub fn opt_iter_count(o: Option<i64>, p: Option<i64>) -> i64 { o.iter().count() as i64 }
pub fn opt_take(o: Option<i64>, p: Option<i64>) -> i64 { { let mut m = o; let a = m.take().unwrap_or(-1); a * 10 + m.is_none() as i64 } }
pub fn opt_replace(o: Option<i64>, p: Option<i64>) -> i64 { { let mut m = o; let a = m.replace(3).unwrap_or(-1); a * 10 + m.unwrap_or(0) } }
pub fn opt_get_or_insert_with(o: Option<i64>, p: Option<i64>) -> i64 { { let mut m = o; *m.get_or_insert_with(|| 5) += 1; m.unwrap_or(0) } }
pub fn opt_insert(o: Option<i64>, p: Option<i64>) -> i64 { { let mut m = o; *m.insert(4) += 1; m.unwrap_or(0) } }
pub fn opt_as_mut(o: Option<i64>, p: Option<i64>) -> i64 { { let mut m = o; if let Some(x) = m.as_mut() { *x += 1; } m.unwrap_or(-1) } }
pub fn opt_copied(o: Option<i64>, p: Option<i64>) -> i64 { o.as_ref().copied().unwrap_or(-1) + p.as_ref().cloned().unwrap_or(-2) }
pub fn opt_inspect(o: Option<i64>, p: Option<i64>) -> i64 { { let mut n = 0; let r = o.inspect(|x| n += *x).unwrap_or(0); r + n } }
pub fn opt_expect_or(o: Option<i64>, p: Option<i64>) -> i64 { o.or(Some(1)).expect("x") }
pub fn opt_unwrap_or_else(o: Option<i64>, p: Option<i64>) -> i64 { o.unwrap_or_else(|| 2) }
pub fn opt_eq(o: Option<i64>, p: Option<i64>) -> i64 { (o == p) as i64 + (o < p) as i64 * 2 + (o.max(p) == o) as i64 * 4 }
pub fn opt_map_unwrap(o: Option<i64>, p: Option<i64>) -> i64 { o.map(|x| x - 1).unwrap_or(100) }
pub fn res_map_or(r: Result<i64, String>, q: Result<i64, String>) -> i64 { r.clone().map_or(-1, |x| x + 1) }
pub fn res_map_or_else(r: Result<i64, String>, q: Result<i64, String>) -> i64 { r.clone().map_or_else(|e| e.len() as i64, |x| x * 2) }
pub fn res_and_then(r: Result<i64, String>, q: Result<i64, String>) -> i64 { r.clone().and_then(|x| q.clone().map(|y| x + y)).unwrap_or(-7) }
pub fn res_or_else(r: Result<i64, String>, q: Result<i64, String>) -> i64 { r.clone().or_else(|_| q.clone()).unwrap_or_default() }
pub fn res_unwrap_or_else(r: Result<i64, String>, q: Result<i64, String>) -> i64 { r.clone().unwrap_or_else(|e| e.len() as i64) }
pub fn res_ok(r: Result<i64, String>, q: Result<i64, String>) -> i64 { r.clone().ok().unwrap_or(-1) }
pub fn res_err(r: Result<i64, String>, q: Result<i64, String>) -> i64 { r.clone().err().map(|e| e.len() as i64).unwrap_or(-1) }
pub fn res_is_ok_and(r: Result<i64, String>, q: Result<i64, String>) -> i64 { r.clone().is_ok_and(|x| x > 0) as i64 }
pub fn res_is_err_and(r: Result<i64, String>, q: Result<i64, String>) -> i64 { r.clone().is_err_and(|e| e.is_empty()) as i64 }
pub fn res_iter(r: Result<i64, String>, q: Result<i64, String>) -> i64 { r.iter().count() as i64 }
pub fn res_as_ref(r: Result<i64, String>, q: Result<i64, String>) -> i64 { r.as_ref().map(|x| *x).unwrap_or(-1) }
pub fn res_map_err(r: Result<i64, String>, q: Result<i64, String>) -> i64 { r.clone().map_err(|e| e.len()).unwrap_or(-1) }
pub fn res_inspect_err(r: Result<i64, String>, q: Result<i64, String>) -> i64 { { let mut n = 0; let v = r.clone().inspect_err(|e| n += e.len() as i64).unwrap_or(0); v + n } }
pub fn res_unwrap_or(r: Result<i64, String>, q: Result<i64, String>) -> i64 { r.clone().unwrap_or(-9) }
pub fn res_is_ok(r: Result<i64, String>, q: Result<i64, String>) -> i64 { r.is_ok() as i64 + r.is_err() as i64 * 2 }
pub fn res_eq(r: Result<i64, String>, q: Result<i64, String>) -> i64 { (r == q) as i64 }
pub fn res_question(r: Result<i64, String>, q: Result<i64, String>) -> i64 { (|| -> Result<i64, String> { let a = r.clone()?; let b = q.clone()?; Ok(a + b) })().unwrap_or(-1) }
pub fn it_fold(v: &[i64], w: &[i64]) -> i64 { v.iter().fold(0, |acc, x| acc * 3 + x) }
pub fn it_any(v: &[i64], w: &[i64]) -> i64 { v.iter().any(|x| *x > 1) as i64 }
pub fn it_all(v: &[i64], w: &[i64]) -> i64 { v.iter().all(|x| *x > 1) as i64 }
pub fn it_rev_zip_sum(v: &[i64], w: &[i64]) -> i64 { v.iter().rev().zip(w.iter()).map(|(x, y)| x * y).sum::<i64>() }
pub fn it_skip_while(v: &[i64], w: &[i64]) -> i64 { v.iter().skip_while(|x| **x < 2).count() as i64 }
pub fn it_take_while(v: &[i64], w: &[i64]) -> i64 { v.iter().take_while(|x| **x < 5).count() as i64 }
pub fn it_step_by(v: &[i64], w: &[i64]) -> i64 { v.iter().step_by(2).sum::<i64>() }
pub fn it_last(v: &[i64], w: &[i64]) -> i64 { *v.iter().last().unwrap_or(&-1) }
pub fn it_min(v: &[i64], w: &[i64]) -> i64 { *v.iter().min().unwrap_or(&-1) }
pub fn it_max(v: &[i64], w: &[i64]) -> i64 { *v.iter().max().unwrap_or(&-1) }
pub fn it_min_by_key(v: &[i64], w: &[i64]) -> i64 { *v.iter().min_by_key(|x| (**x - 2).abs()).unwrap_or(&-1) }
pub fn it_max_by_key(v: &[i64], w: &[i64]) -> i64 { *v.iter().max_by_key(|x| (**x - 2).abs()).unwrap_or(&-1) }
pub fn it_min_by(v: &[i64], w: &[i64]) -> i64 { *v.iter().min_by(|a, b| b.cmp(a)).unwrap_or(&-1) }
pub fn it_max_by(v: &[i64], w: &[i64]) -> i64 { *v.iter().max_by(|a, b| b.cmp(a)).unwrap_or(&-1) }
pub fn it_product(v: &[i64], w: &[i64]) -> i64 { v.iter().take(4).product::<i64>() }
pub fn it_flat_map(v: &[i64], w: &[i64]) -> i64 { v.iter().flat_map(|x| vec![*x, *x + 1]).sum::<i64>() }
pub fn it_filter_map(v: &[i64], w: &[i64]) -> i64 { v.iter().filter_map(|x| if *x > 0 { Some(*x * 2) } else { None }).sum::<i64>() }
pub fn it_chain(v: &[i64], w: &[i64]) -> i64 { v.iter().chain(w.iter()).cloned().collect::<Vec<i64>>().len() as i64 }
pub fn it_reduce(v: &[i64], w: &[i64]) -> i64 { v.iter().copied().reduce(|a, b| a * 2 + b).unwrap_or(-1) }
pub fn it_for_each(v: &[i64], w: &[i64]) -> i64 { { let mut n = 0; v.iter().for_each(|x| n += x); n } }
pub fn it_try_fold(v: &[i64], w: &[i64]) -> i64 { v.iter().try_fold(0i64, |acc, x| if *x == 9 { None } else { acc.checked_add(*x) }).unwrap_or(-1) }
pub fn it_partition(v: &[i64], w: &[i64]) -> i64 { { let (a, b): (Vec<i64>, Vec<i64>) = v.iter().partition(|x| **x > 0); (a.len() * 10 + b.len()) as i64 } }
pub fn it_unzip(v: &[i64], w: &[i64]) -> i64 { { let (a, b): (Vec<i64>, Vec<i64>) = v.iter().map(|x| (*x, -*x)).unzip(); a.iter().sum::<i64>() * 100 + b.len() as i64 } }
pub fn it_scan(v: &[i64], w: &[i64]) -> i64 { v.iter().scan(0, |s, x| { *s += x; Some(*s) }).sum::<i64>() }
pub fn it_map_while(v: &[i64], w: &[i64]) -> i64 { v.iter().map_while(|x| if *x < 5 { Some(*x) } else { None }).count() as i64 }
pub fn it_nth(v: &[i64], w: &[i64]) -> i64 { *v.iter().nth(1).unwrap_or(&-1) }
pub fn it_skip_take(v: &[i64], w: &[i64]) -> i64 { v.iter().skip(1).take(2).sum::<i64>() }
pub fn it_enumerate(v: &[i64], w: &[i64]) -> i64 { v.iter().enumerate().map(|(i, x)| i as i64 * x).sum::<i64>() }
pub fn it_eq(v: &[i64], w: &[i64]) -> i64 { v.iter().eq(w.iter()) as i64 }
pub fn it_cmp(v: &[i64], w: &[i64]) -> i64 { v.iter().cmp(w.iter()) as i64 }
pub fn it_find_map(v: &[i64], w: &[i64]) -> i64 { v.iter().find_map(|x| if *x > 2 { Some(*x * 7) } else { None }).unwrap_or(-1) }
pub fn it_position(v: &[i64], w: &[i64]) -> i64 { v.iter().position(|x| *x == 1).map(|i| i as i64).unwrap_or(-1) }
pub fn it_rposition(v: &[i64], w: &[i64]) -> i64 { v.iter().rposition(|x| *x == 1).map(|i| i as i64).unwrap_or(-1) }
pub fn it_rfold(v: &[i64], w: &[i64]) -> i64 { v.iter().rfold(0, |a, x| a * 3 - x) }
pub fn it_find(v: &[i64], w: &[i64]) -> i64 { *v.iter().find(|x| **x > 1).unwrap_or(&-1) }
pub fn it_rfind(v: &[i64], w: &[i64]) -> i64 { *v.iter().rfind(|x| **x > 1).unwrap_or(&-1) }
pub fn it_count_filter(v: &[i64], w: &[i64]) -> i64 { v.iter().filter(|x| **x % 2 == 1).count() as i64 }
pub fn it_peekable(v: &[i64], w: &[i64]) -> i64 { { let mut pk = v.iter().peekable(); let a = pk.peek().map(|x| **x).unwrap_or(-1); let b = pk.next_if(|x| **x > 0).copied().unwrap_or(-2); let c = pk.next().copied().unwrap_or(-3); a * 100 + b * 10 + c } }
pub fn it_repeat_once(v: &[i64], w: &[i64]) -> i64 { std::iter::repeat(2).take(3).sum::<i64>() + std::iter::once(5).chain(std::iter::empty()).sum::<i64>() }
pub fn it_successors(v: &[i64], w: &[i64]) -> i64 { std::iter::successors(Some(1i64), |x| if *x < 20 { Some(x * 3) } else { None }).sum::<i64>() }
pub fn it_sum_range(v: &[i64], w: &[i64]) -> i64 { (0..v.len() as i64).rev().map(|i| i * 2).sum::<i64>() + (1..=3).product::<i64>() }
pub fn it_zip_unequal(v: &[i64], w: &[i64]) -> i64 { v.iter().zip(w.iter().skip(1)).count() as i64 }
pub fn it_last_of_map(v: &[i64], w: &[i64]) -> i64 { v.iter().map(|x| x * 2).last().unwrap_or(-1) }
pub fn it_collect_string(v: &[i64], w: &[i64]) -> i64 { v.iter().map(|x| x.to_string()).collect::<Vec<String>>().join(",").len() as i64 }
pub fn it_max_float_cmp(v: &[i64], w: &[i64]) -> i64 { v.iter().map(|x| *x as f64).fold(f64::MIN, f64::max) as i64 }
pub fn it_windows(v: &[i64], w: &[i64]) -> i64 { v.windows(2).map(|p| p[0] - p[1]).sum::<i64>() }
pub fn it_chunks(v: &[i64], w: &[i64]) -> i64 { v.chunks(2).map(|c| c.len() as i64 * c[0]).sum::<i64>() }
pub fn sl_first_last(v: &[i64], w: &[i64]) -> i64 { *v.first().unwrap_or(&-1) * 10 + *v.last().unwrap_or(&-2) }
pub fn sl_split_first(v: &[i64], w: &[i64]) -> i64 { v.split_first().map(|(h, t)| *h * 10 + t.len() as i64).unwrap_or(-1) }
pub fn sl_split_last(v: &[i64], w: &[i64]) -> i64 { v.split_last().map(|(h, t)| *h * 10 + t.len() as i64).unwrap_or(-1) }
pub fn sl_contains(v: &[i64], w: &[i64]) -> i64 { v.contains(&1) as i64 }
pub fn sl_get(v: &[i64], w: &[i64]) -> i64 { *v.get(1).unwrap_or(&-1) + *v.get(99).unwrap_or(&-2) }
pub fn sl_concat(v: &[i64], w: &[i64]) -> i64 { [v, w].concat().iter().sum::<i64>() }
pub fn sl_starts_ends(v: &[i64], w: &[i64]) -> i64 { v.starts_with(w) as i64 * 2 + v.ends_with(w) as i64 }
pub fn sl_binary_search(v: &[i64], w: &[i64]) -> i64 { { let mut s = v.to_vec(); s.sort(); match s.binary_search(&3) { Ok(i) => i as i64, Err(i) => -(i as i64) - 1 } } }
pub fn sl_split_at(v: &[i64], w: &[i64]) -> i64 { { let (l, r) = v.split_at(v.len() / 2); l.len() as i64 * 10 + r.len() as i64 } }
pub fn sl_split_pred(v: &[i64], w: &[i64]) -> i64 { v.split(|x| *x == 1).map(|p| p.len() as i64 + 1).product::<i64>() }
pub fn sl_repeat(v: &[i64], w: &[i64]) -> i64 { v.repeat(2).len() as i64 }
pub fn sl_iter_rev_nth(v: &[i64], w: &[i64]) -> i64 { *v.iter().rev().nth(1).unwrap_or(&-1) }
pub fn sl_to_vec_eq(v: &[i64], w: &[i64]) -> i64 { (v.to_vec() == w.to_vec()) as i64 + (v < w) as i64 * 2 }
pub fn sl_sort_dedup(v: &[i64], w: &[i64]) -> i64 { { let mut s = v.to_vec(); s.sort(); s.dedup(); s.iter().fold(0, |a, x| a * 7 + x) } }
pub fn sl_sort_by_key(v: &[i64], w: &[i64]) -> i64 { { let mut s = v.to_vec(); s.sort_by_key(|x| -*x); s.iter().fold(0, |a, x| a * 7 + x) } }
pub fn sl_sort_by(v: &[i64], w: &[i64]) -> i64 { { let mut s = v.to_vec(); s.sort_by(|a, b| (a % 3).cmp(&(b % 3))); s.iter().fold(0, |a, x| a * 7 + x) } }
pub fn sl_reverse_swap(v: &[i64], w: &[i64]) -> i64 { { let mut s = v.to_vec(); s.reverse(); if s.len() > 1 { s.swap(0, 1); } s.iter().fold(0, |a, x| a * 7 + x) } }
pub fn sl_iter_mut(v: &[i64], w: &[i64]) -> i64 { { let mut s = v.to_vec(); for x in s.iter_mut() { *x += 1; } s.iter().sum::<i64>() } }
pub fn sl_index_slice(v: &[i64], w: &[i64]) -> i64 { if v.len() >= 2 { v[1..].iter().sum::<i64>() + v[..1][0] } else { -1 } }
pub fn sl_join_strs(v: &[i64], w: &[i64]) -> i64 { v.iter().map(|x| x.to_string()).collect::<Vec<_>>().concat().len() as i64 }
pub fn sl_is_sorted_manual(v: &[i64], w: &[i64]) -> i64 { v.windows(2).all(|p| p[0] <= p[1]) as i64 }
pub fn sl_max_index(v: &[i64], w: &[i64]) -> i64 { v.iter().enumerate().max_by_key(|(_, x)| **x).map(|(i, _)| i as i64).unwrap_or(-1) }
pub fn vec_retain(v: &mut Vec<i64>, w: &[i64]) -> i64 { { v.retain(|x| *x != 1); v.len() as i64 } }
pub fn vec_extend(v: &mut Vec<i64>, w: &[i64]) -> i64 { { v.extend(w.iter().cloned()); v.extend_from_slice(w); v.len() as i64 } }
pub fn vec_insert_remove(v: &mut Vec<i64>, w: &[i64]) -> i64 { { v.insert(0, 7); let d = v.remove(0); d + v.len() as i64 } }
pub fn vec_truncate(v: &mut Vec<i64>, w: &[i64]) -> i64 { { v.truncate(2); v.len() as i64 } }
pub fn vec_push_pop(v: &mut Vec<i64>, w: &[i64]) -> i64 { { v.push(4); v.pop().unwrap_or(-1) + v.pop().unwrap_or(-1) } }
pub fn vec_drain(v: &mut Vec<i64>, w: &[i64]) -> i64 { { if v.is_empty() { -1 } else { v.drain(..1).sum::<i64>() } } }
pub fn vec_drain_range(v: &mut Vec<i64>, w: &[i64]) -> i64 { { if v.len() < 3 { -1 } else { v.drain(1..3).sum::<i64>() } } }
pub fn vec_split_off(v: &mut Vec<i64>, w: &[i64]) -> i64 { { let t = v.split_off(v.len() / 2); t.iter().sum::<i64>() } }
pub fn vec_append(v: &mut Vec<i64>, w: &[i64]) -> i64 { { let mut t = w.to_vec(); v.append(&mut t); t.len() as i64 + v.len() as i64 } }
pub fn vec_resize(v: &mut Vec<i64>, w: &[i64]) -> i64 { { v.resize(3, 9); v.iter().sum::<i64>() } }
pub fn vec_clear(v: &mut Vec<i64>, w: &[i64]) -> i64 { { v.clear(); v.is_empty() as i64 } }
pub fn vec_swap_remove(v: &mut Vec<i64>, w: &[i64]) -> i64 { { if v.is_empty() { -1 } else { v.swap_remove(0) } } }
pub fn vec_dedup_by_key(v: &mut Vec<i64>, w: &[i64]) -> i64 { { v.dedup_by_key(|x| *x / 2); v.len() as i64 } }
pub fn vec_first_mut(v: &mut Vec<i64>, w: &[i64]) -> i64 { { if let Some(x) = v.first_mut() { *x += 10; } if let Some(x) = v.last_mut() { *x += 100; } if let Some(x) = v.get_mut(1) { *x += 1000; } 0 } }
pub fn vec_index_assign(v: &mut Vec<i64>, w: &[i64]) -> i64 { { if !v.is_empty() { v[0] = 42; let n = v.len(); v[n - 1] += 1; } 0 } }
pub fn vec_sort_unstable(v: &mut Vec<i64>, w: &[i64]) -> i64 { { v.sort_unstable(); v.dedup(); 0 } }
pub fn vec_rotate(v: &mut Vec<i64>, w: &[i64]) -> i64 { { if !v.is_empty() { v.rotate_left(1); } 0 } }
pub fn vec_fill(v: &mut Vec<i64>, w: &[i64]) -> i64 { { v.fill(3); v.len() as i64 } }
pub fn vec_iter_rev_collect(v: &mut Vec<i64>, w: &[i64]) -> i64 { { let t: Vec<i64> = v.iter().rev().cloned().collect(); *v = t; 0 } }
pub fn vec_mem_take(v: &mut Vec<i64>, w: &[i64]) -> i64 { { let t = std::mem::take(v); t.len() as i64 } }
pub fn vec_mem_replace(v: &mut Vec<i64>, w: &[i64]) -> i64 { { let t = std::mem::replace(v, w.to_vec()); t.len() as i64 } }
pub fn vec_contains_iter(v: &mut Vec<i64>, w: &[i64]) -> i64 { { v.contains(&3) as i64 + v.iter().any(|x| w.contains(x)) as i64 * 2 } }
pub fn str_trim(s: &str, t: &str) -> i64 { s.trim().len() as i64 * 10000 + s.trim_start().len() as i64 * 100 + s.trim_end().len() as i64 }
pub fn str_trim_matches(s: &str, t: &str) -> i64 { s.trim_matches('x').len() as i64 * 100 + s.trim_start_matches("ab").len() as i64 }
pub fn str_trim_end_matches_fn(s: &str, t: &str) -> i64 { s.trim_end_matches(char::is_whitespace).len() as i64 }
pub fn str_starts_ends(s: &str, t: &str) -> i64 { s.starts_with(t) as i64 * 2 + s.ends_with('x') as i64 }
pub fn str_strip(s: &str, t: &str) -> i64 { s.strip_prefix(t).map(|x| x.len() as i64).unwrap_or(-1) * 100 + s.strip_suffix("x").map(|x| x.len() as i64).unwrap_or(-1) }
pub fn str_char_indices(s: &str, t: &str) -> i64 { s.char_indices().map(|(i, c)| i as i64 * (c as i64 % 7)).sum::<i64>() }
pub fn str_split(s: &str, t: &str) -> i64 { s.split(',').map(|p| p.len() as i64 + 1).product::<i64>() }
pub fn str_rsplit(s: &str, t: &str) -> i64 { s.rsplit(',').next().map(|p| p.len() as i64).unwrap_or(-1) }
pub fn str_splitn(s: &str, t: &str) -> i64 { s.splitn(2, ',').map(|p| p.len() as i64 + 1).product::<i64>() }
pub fn str_rsplitn(s: &str, t: &str) -> i64 { s.rsplitn(2, '=').map(|p| p.len() as i64 + 1).fold(0, |a, x| a * 50 + x) }
pub fn str_split_once(s: &str, t: &str) -> i64 { s.split_once('=').map(|(k, v)| k.len() as i64 * 100 + v.len() as i64).unwrap_or(-1) }
pub fn str_rsplit_once(s: &str, t: &str) -> i64 { s.rsplit_once("=").map(|(k, v)| k.len() as i64 * 100 + v.len() as i64).unwrap_or(-1) }
pub fn str_split_whitespace(s: &str, t: &str) -> i64 { s.split_whitespace().count() as i64 }
pub fn str_split_terminator(s: &str, t: &str) -> i64 { s.split_terminator('\n').count() as i64 }
pub fn str_lines(s: &str, t: &str) -> i64 { s.lines().count() as i64 }
pub fn str_case(s: &str, t: &str) -> i64 { (s.to_uppercase() == s) as i64 + (s.to_lowercase() == s) as i64 * 2 + (s.to_ascii_uppercase() == s.to_uppercase()) as i64 * 4 + s.to_ascii_lowercase().len() as i64 * 8 }
pub fn str_repeat(s: &str, t: &str) -> i64 { s.repeat(2).len() as i64 }
pub fn str_contains(s: &str, t: &str) -> i64 { s.contains(t) as i64 + s.contains('c') as i64 * 2 + s.contains(char::is_whitespace) as i64 * 4 }
pub fn str_find(s: &str, t: &str) -> i64 { s.find(t).map(|i| i as i64).unwrap_or(-1) * 100 + s.rfind('c').map(|i| i as i64).unwrap_or(-1) }
pub fn str_replace(s: &str, t: &str) -> i64 { s.replace("a", "bb").len() as i64 * 100 + s.replacen('a', "b", 1).len() as i64 }
pub fn str_chars_bytes(s: &str, t: &str) -> i64 { s.chars().count() as i64 * 100 + s.bytes().count() as i64 }
pub fn str_get(s: &str, t: &str) -> i64 { s.get(0..1).map(|x| x.len() as i64).unwrap_or(-1) + s.is_char_boundary(1) as i64 * 10 }
pub fn str_parse(s: &str, t: &str) -> i64 { s.parse::<i64>().unwrap_or(-1) + s.trim().parse::<f64>().map(|f| f as i64).unwrap_or(-2) }
pub fn str_eq_ignore(s: &str, t: &str) -> i64 { s.eq_ignore_ascii_case(t) as i64 }
pub fn str_matches(s: &str, t: &str) -> i64 { s.matches('a').count() as i64 * 10 + s.match_indices("a").map(|(i, _)| i as i64).sum::<i64>() }
pub fn str_escape(s: &str, t: &str) -> i64 { s.escape_debug().count() as i64 * 100 + s.escape_default().to_string().len() as i64 }
pub fn str_is_ascii(s: &str, t: &str) -> i64 { s.is_ascii() as i64 }
pub fn str_rev(s: &str, t: &str) -> i64 { s.chars().rev().collect::<String>().len() as i64 + s.chars().next_back().map(|c| c.len_utf8() as i64).unwrap_or(0) * 100 }
pub fn str_cmp(s: &str, t: &str) -> i64 { (s < t) as i64 + (s == t) as i64 * 2 + s.cmp(t) as i64 * 4 }
pub fn str_concat_format(s: &str, t: &str) -> i64 { format!("{}-{}", s, t).len() as i64 + [s, t].concat().len() as i64 * 100 + [s, t].join("/").len() as i64 * 10000 }
pub fn str_first_char(s: &str, t: &str) -> i64 { s.chars().next().map(|c| c as i64).unwrap_or(-1) + s.chars().nth(2).map(|c| c as i64).unwrap_or(-1) * 1000 }
pub fn str_split_str(s: &str, t: &str) -> i64 { s.split("ab").count() as i64 + s.split(|c: char| c == ',' || c == ':').count() as i64 * 10 }
pub fn str_char_filter(s: &str, t: &str) -> i64 { s.chars().filter(|c| c.is_alphabetic()).count() as i64 + s.chars().filter(|c| c.is_ascii_digit()).count() as i64 * 100 }
pub fn str_bytes_idx(s: &str, t: &str) -> i64 { if s.len() > 1 { s.as_bytes()[1] as i64 + s.bytes().last().unwrap() as i64 * 1000 } else { -1 } }
pub fn str_slice(s: &str, t: &str) -> i64 { if s.is_ascii() && s.len() >= 3 { s[1..3].len() as i64 + s[..2].starts_with(&t[..1]) as i64 * 10 } else { -1 } }
pub fn str_to_string_eq(s: &str, t: &str) -> i64 { (s.to_string() == t.to_owned()) as i64 + (String::from(s) + t).len() as i64 * 10 }
pub fn str_format_spec(s: &str, t: &str) -> i64 { format!("{:>5}|{:<4}|{:^6}|{:03}|{:+}|{:x}|{:#x}|{:b}|{:.2}|{:?}|{:?}", s, t, s, 7, 5, 255, 255, 5, 1.23456f64, s, Some(1)).len() as i64 }
pub fn str_format_width_arg(s: &str, t: &str) -> i64 { format!("{:>w$}|{:.p$}", s, 1.5f64, w = 7, p = 3).len() as i64 }
pub fn string_push(o: &mut String, s: &str) -> i64 { { o.push('c'); o.push_str(s); o.len() as i64 } }
pub fn string_pop(o: &mut String, s: &str) -> i64 { { o.pop().map(|c| c as i64).unwrap_or(-1) } }
pub fn string_insert(o: &mut String, s: &str) -> i64 { { o.insert(0, 'a'); o.insert_str(1, s); o.len() as i64 } }
pub fn string_remove(o: &mut String, s: &str) -> i64 { { if o.is_empty() { -1 } else { o.remove(0) as i64 } } }
pub fn string_truncate(o: &mut String, s: &str) -> i64 { { o.truncate(2); o.len() as i64 } }
pub fn string_retain(o: &mut String, s: &str) -> i64 { { o.retain(|c| c != 'e'); o.len() as i64 } }
pub fn string_drain(o: &mut String, s: &str) -> i64 { { if o.len() < 2 { -1 } else { o.drain(..2).count() as i64 } } }
pub fn string_extend(o: &mut String, s: &str) -> i64 { { o.extend(s.chars().rev()); o.len() as i64 } }
pub fn string_replace_range(o: &mut String, s: &str) -> i64 { { if o.is_empty() { -1 } else { o.replace_range(0..1, "zz"); o.len() as i64 } } }
pub fn string_split_off(o: &mut String, s: &str) -> i64 { { let n = o.len() / 2; if o.is_char_boundary(n) { o.split_off(n).len() as i64 } else { -1 } } }
pub fn string_clear(o: &mut String, s: &str) -> i64 { { o.clear(); o.is_empty() as i64 } }
pub fn string_from_utf8(o: &mut String, s: &str) -> i64 { { *o = String::from_utf8(s.as_bytes().to_vec()).unwrap_or_default(); String::from_utf8_lossy(s.as_bytes()).len() as i64 } }
pub fn string_add_assign(o: &mut String, s: &str) -> i64 { { *o += s; *o += "!"; o.len() as i64 } }
pub fn string_write_fmt(o: &mut String, s: &str) -> i64 { { use std::fmt::Write; let _ = write!(o, "{}:{}", s, 3); let _ = writeln!(o, "x"); o.len() as i64 } }
pub fn string_mem_take(o: &mut String, s: &str) -> i64 { { let t = std::mem::take(o); t.len() as i64 } }
pub fn string_into_bytes(o: &mut String, s: &str) -> i64 { { let b = o.clone().into_bytes(); b.len() as i64 + o.as_str().len() as i64 } }
pub fn string_chars_rev_assign(o: &mut String, s: &str) -> i64 { { *o = o.chars().rev().collect(); 0 } }
pub fn string_to_upper_assign(o: &mut String, s: &str) -> i64 { { *o = o.to_uppercase(); o.make_ascii_lowercase(); 0 } }
pub fn int_pow(x: i64, y: i64) -> i64 { x.checked_pow(2).unwrap_or(-1) + if x.abs() < 100 { x.pow(3) } else { 0 } }
pub fn int_abs_signum(x: i64, y: i64) -> i64 { x.abs() * 10 + x.signum() }
pub fn int_euclid(x: i64, y: i64) -> i64 { if y != 0 { x.rem_euclid(y) * 100 + x.div_euclid(y) } else { -1 } }
pub fn int_checked(x: i64, y: i64) -> i64 { x.checked_add(y).unwrap_or(-1) + x.checked_sub(y).unwrap_or(-2) + x.checked_mul(y).unwrap_or(-3) + x.checked_div(y).unwrap_or(-4) + x.checked_rem(y).unwrap_or(-5) }
pub fn int_checked_neg_abs(x: i64, y: i64) -> i64 { x.checked_neg().unwrap_or(-1) + x.checked_abs().unwrap_or(-2) }
pub fn int_wrapping(x: i64, y: i64) -> i64 { x.wrapping_add(y) ^ x.wrapping_sub(y) ^ x.wrapping_mul(y) ^ x.wrapping_neg() ^ x.wrapping_abs() }
pub fn int_saturating(x: i64, y: i64) -> i64 { x.saturating_add(y) / 3 + x.saturating_sub(y) / 5 + x.saturating_mul(y) / 7 }
pub fn int_overflowing(x: i64, y: i64) -> i64 { { let (a, b) = x.overflowing_add(y); let (c, d) = x.overflowing_mul(y); let (e, f) = x.overflowing_sub(y); (a ^ c ^ e) + b as i64 + d as i64 * 2 + f as i64 * 4 } }
pub fn int_bits(x: i64, y: i64) -> i64 { x.leading_zeros() as i64 * 10000 + x.trailing_zeros() as i64 * 100 + x.count_ones() as i64 }
pub fn int_abs_diff(x: i64, y: i64) -> i64 { x.abs_diff(y) as i64 % 1000003 + x.unsigned_abs() as i64 % 1000 }
pub fn int_min_max_clamp(x: i64, y: i64) -> i64 { x.min(y) + x.max(y) * 3 + x.clamp(-5, 9) * 7 + std::cmp::min(x, y) + std::cmp::max(x, y) }
pub fn int_sign_tests(x: i64, y: i64) -> i64 { x.is_positive() as i64 + x.is_negative() as i64 * 2 }
pub fn int_to_string(x: i64, y: i64) -> i64 { x.to_string().len() as i64 + format!("{:05}", x).len() as i64 * 100 }
pub fn int_casts(x: i64, y: i64) -> i64 { (x as u8) as i64 + (x as i32) as i64 + (x as u64 >> 60) as i64 + (x as f64) as i64 % 1000 + (y as i8) as i64 }
pub fn int_try_from(x: i64, y: i64) -> i64 { u8::try_from(x).map(|v| v as i64).unwrap_or(-1) + usize::try_from(x).map(|v| v as i64 % 1000).unwrap_or(-2) + i32::try_from(y).map(|v| v as i64).unwrap_or(-3) }
pub fn int_from_str_radix(x: i64, y: i64) -> i64 { i64::from_str_radix(&format!("{:x}", x.unsigned_abs() % 4096), 16).unwrap_or(-1) }
pub fn int_float_ops(x: i64, y: i64) -> i64 { (x as f64).abs().sqrt().floor() as i64 + ((x as f64) / 2.0).ceil() as i64 + ((x as f64) / 3.0).round() as i64 + ((y as f64) / 7.0).trunc() as i64 }
pub fn int_float_minmax(x: i64, y: i64) -> i64 { (x as f64).max(y as f64) as i64 + (x as f64).min(1.5) as i64 * 3 + (x as f64).powi(2) as i64 % 1000 }
pub fn int_float_cmp(x: i64, y: i64) -> i64 { ((x as f64) < (y as f64)) as i64 + (x as f64).partial_cmp(&(y as f64)).map(|o| o as i64).unwrap_or(9) * 2 + ((x as f64) / 0.0).is_infinite() as i64 * 8 }
pub fn int_shift_mask(x: i64, y: i64) -> i64 { ((x as u64) >> 3) as i64 ^ ((x as u64) << 2) as i64 ^ (x & 0xff) ^ (x | 1) ^ (!x & 7) }
pub fn int_div_rem(x: i64, y: i64) -> i64 { if y != 0 && !(x == i64::MIN && y == -1) { x / y * 10 + x % y } else { -1 } }
pub fn int_ordering(x: i64, y: i64) -> i64 { x.cmp(&y) as i64 + x.partial_cmp(&y).map(|o| o as i64).unwrap_or(7) * 3 + (x.cmp(&y).reverse() as i64) * 9 + x.cmp(&y).then(y.cmp(&x)) as i64 * 27 }
pub fn int_range_contains(x: i64, y: i64) -> i64 { (0..10).contains(&x) as i64 + (-3..=3).contains(&y) as i64 * 2 }
pub fn int_usize_sub(x: i64, y: i64) -> i64 { { let z = (x.unsigned_abs() % 10) as usize; z.saturating_sub(3) as i64 + z.checked_sub(3).map(|v| v as i64).unwrap_or(-1) * 10 + z.wrapping_sub(11) as i64 % 1000 * 100 } }
pub fn int_power_of_two(x: i64, y: i64) -> i64 { { let z = (x.unsigned_abs() % 70) as usize; z.is_power_of_two() as i64 + z.next_power_of_two() as i64 * 2 } }
pub fn int_sum_range(x: i64, y: i64) -> i64 { (x.min(50).max(0)..(x.min(50).max(0) + 4)).map(|i| i * i).sum::<i64>() }
pub fn char_classes(c: char) -> i64 { c.is_alphabetic() as i64 + c.is_alphanumeric() as i64 * 2 + c.is_numeric() as i64 * 4 + c.is_whitespace() as i64 * 8 + c.is_ascii() as i64 * 16 + c.is_ascii_punctuation() as i64 * 32 + c.is_ascii_uppercase() as i64 * 64 + c.is_ascii_lowercase() as i64 * 128 }
pub fn char_classes2(c: char) -> i64 { c.is_ascii_hexdigit() as i64 + c.is_ascii_whitespace() as i64 * 2 + c.is_ascii_control() as i64 * 4 + c.is_ascii_graphic() as i64 * 8 + c.is_control() as i64 * 16 + c.is_uppercase() as i64 * 32 + c.is_lowercase() as i64 * 64 + c.is_ascii_digit() as i64 * 128 + c.is_ascii_alphabetic() as i64 * 256 + c.is_ascii_alphanumeric() as i64 * 512 }
pub fn char_case(c: char) -> i64 { c.to_ascii_uppercase() as i64 + c.to_ascii_lowercase() as i64 * 1000 + c.to_uppercase().count() as i64 * 1000000 + c.to_lowercase().next().map(|x| x as i64).unwrap_or(0) % 7 }
pub fn char_digit(c: char) -> i64 { c.to_digit(10).map(|d| d as i64).unwrap_or(-1) + c.to_digit(16).map(|d| d as i64).unwrap_or(-1) * 100 }
pub fn char_len(c: char) -> i64 { c.len_utf8() as i64 + c.len_utf16() as i64 * 10 + c.encode_utf8(&mut [0; 4]).len() as i64 * 100 + c.to_string().len() as i64 * 1000 }
pub fn char_from(c: char) -> i64 { char::from_digit((c as u32) % 12, 10).map(|x| x as i64).unwrap_or(-1) + char::from_u32(c as u32 + 1).map(|x| x as i64).unwrap_or(-1) * 1000 + char::from(c as u8) as i64 }
pub fn char_eq_ignore(c: char) -> i64 { c.eq_ignore_ascii_case(&'a') as i64 + (c as u8).is_ascii_digit() as i64 * 2 + (c == 'Z') as i64 * 4 + (c < 'a') as i64 * 8 }
pub fn char_u8_methods(c: char) -> i64 { (c as u8).is_ascii_alphabetic() as i64 + (c as u8).is_ascii_whitespace() as i64 * 2 + (c as u8).to_ascii_uppercase() as i64 * 4 }
