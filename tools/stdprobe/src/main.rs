use stdprobe::*;
use std::panic::{catch_unwind, AssertUnwindSafe};
fn show(r: std::thread::Result<i64>) -> String { match r { Ok(v) => v.to_string(), Err(_) => "PANIC".to_string() } }
fn main() {
    std::panic::set_hook(Box::new(|_| {}));
    let opts = [None, Some(0), Some(1), Some(5), Some(-3)];
    let ress: [Result<i64, String>; 4] = [Ok(0), Ok(3), Err("".to_string()), Err("bad".to_string())];
    let vs: [&[i64]; 6] = [&[], &[1], &[1, 2, 3], &[-2, 0, 5, 1, 1], &[3, 3, 9, 10, -1, 4], &[2, 1]];
    let ss = ["", "a", "a=b,c", "  x y \n z  ", "ab,ab:cd=ef=gh", "Hello, World", "xa,b\tcx", "12", "héllo wörld=é", "-7", " 3.5 "];
    let ts = ["a", "ab", "x", ""];
    let ints = [0i64, 1, -1, 7, -8, 100, i64::MAX, i64::MIN, 255, -129, 1 << 40];
    let chars = ['a', 'Z', '5', ' ', '\n', 'f', '~', 'é', '\u{7f}', '_', 'G', '\t', '日'];
    for o in opts { for p in opts { println!("opt_map_or|{:?}|{:?} -> {}", o, p, show(catch_unwind(|| opt_map_or(o, p)))); } }
    for o in opts { for p in opts { println!("opt_map_or_else|{:?}|{:?} -> {}", o, p, show(catch_unwind(|| opt_map_or_else(o, p)))); } }
    for o in opts { for p in opts { println!("opt_and_then|{:?}|{:?} -> {}", o, p, show(catch_unwind(|| opt_and_then(o, p)))); } }
    for o in opts { for p in opts { println!("opt_ok_or|{:?}|{:?} -> {}", o, p, show(catch_unwind(|| opt_ok_or(o, p)))); } }
    for o in opts { for p in opts { println!("opt_ok_or_else|{:?}|{:?} -> {}", o, p, show(catch_unwind(|| opt_ok_or_else(o, p)))); } }
    for o in opts { for p in opts { println!("opt_unwrap_or_default|{:?}|{:?} -> {}", o, p, show(catch_unwind(|| opt_unwrap_or_default(o, p)))); } }
    for o in opts { for p in opts { println!("opt_filter|{:?}|{:?} -> {}", o, p, show(catch_unwind(|| opt_filter(o, p)))); } }
    for o in opts { for p in opts { println!("opt_zip|{:?}|{:?} -> {}", o, p, show(catch_unwind(|| opt_zip(o, p)))); } }
    for o in opts { for p in opts { println!("opt_xor|{:?}|{:?} -> {}", o, p, show(catch_unwind(|| opt_xor(o, p)))); } }
    for o in opts { for p in opts { println!("opt_or|{:?}|{:?} -> {}", o, p, show(catch_unwind(|| opt_or(o, p)))); } }
    for o in opts { for p in opts { println!("opt_or_else|{:?}|{:?} -> {}", o, p, show(catch_unwind(|| opt_or_else(o, p)))); } }
    for o in opts { for p in opts { println!("opt_is_some_and|{:?}|{:?} -> {}", o, p, show(catch_unwind(|| opt_is_some_and(o, p)))); } }
    for o in opts { for p in opts { println!("opt_flatten|{:?}|{:?} -> {}", o, p, show(catch_unwind(|| opt_flatten(o, p)))); } }
    for o in opts { for p in opts { println!("opt_iter_count|{:?}|{:?} -> {}", o, p, show(catch_unwind(|| opt_iter_count(o, p)))); } }
    for o in opts { for p in opts { println!("opt_take|{:?}|{:?} -> {}", o, p, show(catch_unwind(|| opt_take(o, p)))); } }
    for o in opts { for p in opts { println!("opt_replace|{:?}|{:?} -> {}", o, p, show(catch_unwind(|| opt_replace(o, p)))); } }
    for o in opts { for p in opts { println!("opt_get_or_insert_with|{:?}|{:?} -> {}", o, p, show(catch_unwind(|| opt_get_or_insert_with(o, p)))); } }
    for o in opts { for p in opts { println!("opt_insert|{:?}|{:?} -> {}", o, p, show(catch_unwind(|| opt_insert(o, p)))); } }
    for o in opts { for p in opts { println!("opt_as_mut|{:?}|{:?} -> {}", o, p, show(catch_unwind(|| opt_as_mut(o, p)))); } }
    for o in opts { for p in opts { println!("opt_copied|{:?}|{:?} -> {}", o, p, show(catch_unwind(|| opt_copied(o, p)))); } }
    for o in opts { for p in opts { println!("opt_inspect|{:?}|{:?} -> {}", o, p, show(catch_unwind(|| opt_inspect(o, p)))); } }
    for o in opts { for p in opts { println!("opt_expect_or|{:?}|{:?} -> {}", o, p, show(catch_unwind(|| opt_expect_or(o, p)))); } }
    for o in opts { for p in opts { println!("opt_unwrap_or_else|{:?}|{:?} -> {}", o, p, show(catch_unwind(|| opt_unwrap_or_else(o, p)))); } }
    for o in opts { for p in opts { println!("opt_eq|{:?}|{:?} -> {}", o, p, show(catch_unwind(|| opt_eq(o, p)))); } }
    for o in opts { for p in opts { println!("opt_map_unwrap|{:?}|{:?} -> {}", o, p, show(catch_unwind(|| opt_map_unwrap(o, p)))); } }
    for r in ress.iter() { for q in ress.iter() { println!("res_map_or|{:?}|{:?} -> {}", r, q, show(catch_unwind(|| res_map_or(r.clone(), q.clone())))); } }
    for r in ress.iter() { for q in ress.iter() { println!("res_map_or_else|{:?}|{:?} -> {}", r, q, show(catch_unwind(|| res_map_or_else(r.clone(), q.clone())))); } }
    for r in ress.iter() { for q in ress.iter() { println!("res_and_then|{:?}|{:?} -> {}", r, q, show(catch_unwind(|| res_and_then(r.clone(), q.clone())))); } }
    for r in ress.iter() { for q in ress.iter() { println!("res_or_else|{:?}|{:?} -> {}", r, q, show(catch_unwind(|| res_or_else(r.clone(), q.clone())))); } }
    for r in ress.iter() { for q in ress.iter() { println!("res_unwrap_or_else|{:?}|{:?} -> {}", r, q, show(catch_unwind(|| res_unwrap_or_else(r.clone(), q.clone())))); } }
    for r in ress.iter() { for q in ress.iter() { println!("res_ok|{:?}|{:?} -> {}", r, q, show(catch_unwind(|| res_ok(r.clone(), q.clone())))); } }
    for r in ress.iter() { for q in ress.iter() { println!("res_err|{:?}|{:?} -> {}", r, q, show(catch_unwind(|| res_err(r.clone(), q.clone())))); } }
    for r in ress.iter() { for q in ress.iter() { println!("res_is_ok_and|{:?}|{:?} -> {}", r, q, show(catch_unwind(|| res_is_ok_and(r.clone(), q.clone())))); } }
    for r in ress.iter() { for q in ress.iter() { println!("res_is_err_and|{:?}|{:?} -> {}", r, q, show(catch_unwind(|| res_is_err_and(r.clone(), q.clone())))); } }
    for r in ress.iter() { for q in ress.iter() { println!("res_iter|{:?}|{:?} -> {}", r, q, show(catch_unwind(|| res_iter(r.clone(), q.clone())))); } }
    for r in ress.iter() { for q in ress.iter() { println!("res_as_ref|{:?}|{:?} -> {}", r, q, show(catch_unwind(|| res_as_ref(r.clone(), q.clone())))); } }
    for r in ress.iter() { for q in ress.iter() { println!("res_map_err|{:?}|{:?} -> {}", r, q, show(catch_unwind(|| res_map_err(r.clone(), q.clone())))); } }
    for r in ress.iter() { for q in ress.iter() { println!("res_inspect_err|{:?}|{:?} -> {}", r, q, show(catch_unwind(|| res_inspect_err(r.clone(), q.clone())))); } }
    for r in ress.iter() { for q in ress.iter() { println!("res_unwrap_or|{:?}|{:?} -> {}", r, q, show(catch_unwind(|| res_unwrap_or(r.clone(), q.clone())))); } }
    for r in ress.iter() { for q in ress.iter() { println!("res_is_ok|{:?}|{:?} -> {}", r, q, show(catch_unwind(|| res_is_ok(r.clone(), q.clone())))); } }
    for r in ress.iter() { for q in ress.iter() { println!("res_eq|{:?}|{:?} -> {}", r, q, show(catch_unwind(|| res_eq(r.clone(), q.clone())))); } }
    for r in ress.iter() { for q in ress.iter() { println!("res_question|{:?}|{:?} -> {}", r, q, show(catch_unwind(|| res_question(r.clone(), q.clone())))); } }
    for v in vs.iter() { for w in vs.iter() { println!("it_fold|{:?}|{:?} -> {}", v, w, show(catch_unwind(|| it_fold(v, w)))); } }
    for v in vs.iter() { for w in vs.iter() { println!("it_any|{:?}|{:?} -> {}", v, w, show(catch_unwind(|| it_any(v, w)))); } }
    for v in vs.iter() { for w in vs.iter() { println!("it_all|{:?}|{:?} -> {}", v, w, show(catch_unwind(|| it_all(v, w)))); } }
    for v in vs.iter() { for w in vs.iter() { println!("it_rev_zip_sum|{:?}|{:?} -> {}", v, w, show(catch_unwind(|| it_rev_zip_sum(v, w)))); } }
    for v in vs.iter() { for w in vs.iter() { println!("it_skip_while|{:?}|{:?} -> {}", v, w, show(catch_unwind(|| it_skip_while(v, w)))); } }
    for v in vs.iter() { for w in vs.iter() { println!("it_take_while|{:?}|{:?} -> {}", v, w, show(catch_unwind(|| it_take_while(v, w)))); } }
    for v in vs.iter() { for w in vs.iter() { println!("it_step_by|{:?}|{:?} -> {}", v, w, show(catch_unwind(|| it_step_by(v, w)))); } }
    for v in vs.iter() { for w in vs.iter() { println!("it_last|{:?}|{:?} -> {}", v, w, show(catch_unwind(|| it_last(v, w)))); } }
    for v in vs.iter() { for w in vs.iter() { println!("it_min|{:?}|{:?} -> {}", v, w, show(catch_unwind(|| it_min(v, w)))); } }
    for v in vs.iter() { for w in vs.iter() { println!("it_max|{:?}|{:?} -> {}", v, w, show(catch_unwind(|| it_max(v, w)))); } }
    for v in vs.iter() { for w in vs.iter() { println!("it_min_by_key|{:?}|{:?} -> {}", v, w, show(catch_unwind(|| it_min_by_key(v, w)))); } }
    for v in vs.iter() { for w in vs.iter() { println!("it_max_by_key|{:?}|{:?} -> {}", v, w, show(catch_unwind(|| it_max_by_key(v, w)))); } }
    for v in vs.iter() { for w in vs.iter() { println!("it_min_by|{:?}|{:?} -> {}", v, w, show(catch_unwind(|| it_min_by(v, w)))); } }
    for v in vs.iter() { for w in vs.iter() { println!("it_max_by|{:?}|{:?} -> {}", v, w, show(catch_unwind(|| it_max_by(v, w)))); } }
    for v in vs.iter() { for w in vs.iter() { println!("it_product|{:?}|{:?} -> {}", v, w, show(catch_unwind(|| it_product(v, w)))); } }
    for v in vs.iter() { for w in vs.iter() { println!("it_flat_map|{:?}|{:?} -> {}", v, w, show(catch_unwind(|| it_flat_map(v, w)))); } }
    for v in vs.iter() { for w in vs.iter() { println!("it_filter_map|{:?}|{:?} -> {}", v, w, show(catch_unwind(|| it_filter_map(v, w)))); } }
    for v in vs.iter() { for w in vs.iter() { println!("it_chain|{:?}|{:?} -> {}", v, w, show(catch_unwind(|| it_chain(v, w)))); } }
    for v in vs.iter() { for w in vs.iter() { println!("it_reduce|{:?}|{:?} -> {}", v, w, show(catch_unwind(|| it_reduce(v, w)))); } }
    for v in vs.iter() { for w in vs.iter() { println!("it_for_each|{:?}|{:?} -> {}", v, w, show(catch_unwind(|| it_for_each(v, w)))); } }
    for v in vs.iter() { for w in vs.iter() { println!("it_try_fold|{:?}|{:?} -> {}", v, w, show(catch_unwind(|| it_try_fold(v, w)))); } }
    for v in vs.iter() { for w in vs.iter() { println!("it_partition|{:?}|{:?} -> {}", v, w, show(catch_unwind(|| it_partition(v, w)))); } }
    for v in vs.iter() { for w in vs.iter() { println!("it_unzip|{:?}|{:?} -> {}", v, w, show(catch_unwind(|| it_unzip(v, w)))); } }
    for v in vs.iter() { for w in vs.iter() { println!("it_scan|{:?}|{:?} -> {}", v, w, show(catch_unwind(|| it_scan(v, w)))); } }
    for v in vs.iter() { for w in vs.iter() { println!("it_map_while|{:?}|{:?} -> {}", v, w, show(catch_unwind(|| it_map_while(v, w)))); } }
    for v in vs.iter() { for w in vs.iter() { println!("it_nth|{:?}|{:?} -> {}", v, w, show(catch_unwind(|| it_nth(v, w)))); } }
    for v in vs.iter() { for w in vs.iter() { println!("it_skip_take|{:?}|{:?} -> {}", v, w, show(catch_unwind(|| it_skip_take(v, w)))); } }
    for v in vs.iter() { for w in vs.iter() { println!("it_enumerate|{:?}|{:?} -> {}", v, w, show(catch_unwind(|| it_enumerate(v, w)))); } }
    for v in vs.iter() { for w in vs.iter() { println!("it_eq|{:?}|{:?} -> {}", v, w, show(catch_unwind(|| it_eq(v, w)))); } }
    for v in vs.iter() { for w in vs.iter() { println!("it_cmp|{:?}|{:?} -> {}", v, w, show(catch_unwind(|| it_cmp(v, w)))); } }
    for v in vs.iter() { for w in vs.iter() { println!("it_find_map|{:?}|{:?} -> {}", v, w, show(catch_unwind(|| it_find_map(v, w)))); } }
    for v in vs.iter() { for w in vs.iter() { println!("it_position|{:?}|{:?} -> {}", v, w, show(catch_unwind(|| it_position(v, w)))); } }
    for v in vs.iter() { for w in vs.iter() { println!("it_rposition|{:?}|{:?} -> {}", v, w, show(catch_unwind(|| it_rposition(v, w)))); } }
    for v in vs.iter() { for w in vs.iter() { println!("it_rfold|{:?}|{:?} -> {}", v, w, show(catch_unwind(|| it_rfold(v, w)))); } }
    for v in vs.iter() { for w in vs.iter() { println!("it_find|{:?}|{:?} -> {}", v, w, show(catch_unwind(|| it_find(v, w)))); } }
    for v in vs.iter() { for w in vs.iter() { println!("it_rfind|{:?}|{:?} -> {}", v, w, show(catch_unwind(|| it_rfind(v, w)))); } }
    for v in vs.iter() { for w in vs.iter() { println!("it_count_filter|{:?}|{:?} -> {}", v, w, show(catch_unwind(|| it_count_filter(v, w)))); } }
    for v in vs.iter() { for w in vs.iter() { println!("it_peekable|{:?}|{:?} -> {}", v, w, show(catch_unwind(|| it_peekable(v, w)))); } }
    for v in vs.iter() { for w in vs.iter() { println!("it_repeat_once|{:?}|{:?} -> {}", v, w, show(catch_unwind(|| it_repeat_once(v, w)))); } }
    for v in vs.iter() { for w in vs.iter() { println!("it_successors|{:?}|{:?} -> {}", v, w, show(catch_unwind(|| it_successors(v, w)))); } }
    for v in vs.iter() { for w in vs.iter() { println!("it_sum_range|{:?}|{:?} -> {}", v, w, show(catch_unwind(|| it_sum_range(v, w)))); } }
    for v in vs.iter() { for w in vs.iter() { println!("it_zip_unequal|{:?}|{:?} -> {}", v, w, show(catch_unwind(|| it_zip_unequal(v, w)))); } }
    for v in vs.iter() { for w in vs.iter() { println!("it_last_of_map|{:?}|{:?} -> {}", v, w, show(catch_unwind(|| it_last_of_map(v, w)))); } }
    for v in vs.iter() { for w in vs.iter() { println!("it_collect_string|{:?}|{:?} -> {}", v, w, show(catch_unwind(|| it_collect_string(v, w)))); } }
    for v in vs.iter() { for w in vs.iter() { println!("it_max_float_cmp|{:?}|{:?} -> {}", v, w, show(catch_unwind(|| it_max_float_cmp(v, w)))); } }
    for v in vs.iter() { for w in vs.iter() { println!("it_windows|{:?}|{:?} -> {}", v, w, show(catch_unwind(|| it_windows(v, w)))); } }
    for v in vs.iter() { for w in vs.iter() { println!("it_chunks|{:?}|{:?} -> {}", v, w, show(catch_unwind(|| it_chunks(v, w)))); } }
    for v in vs.iter() { for w in vs.iter() { println!("sl_first_last|{:?}|{:?} -> {}", v, w, show(catch_unwind(|| sl_first_last(v, w)))); } }
    for v in vs.iter() { for w in vs.iter() { println!("sl_split_first|{:?}|{:?} -> {}", v, w, show(catch_unwind(|| sl_split_first(v, w)))); } }
    for v in vs.iter() { for w in vs.iter() { println!("sl_split_last|{:?}|{:?} -> {}", v, w, show(catch_unwind(|| sl_split_last(v, w)))); } }
    for v in vs.iter() { for w in vs.iter() { println!("sl_contains|{:?}|{:?} -> {}", v, w, show(catch_unwind(|| sl_contains(v, w)))); } }
    for v in vs.iter() { for w in vs.iter() { println!("sl_get|{:?}|{:?} -> {}", v, w, show(catch_unwind(|| sl_get(v, w)))); } }
    for v in vs.iter() { for w in vs.iter() { println!("sl_concat|{:?}|{:?} -> {}", v, w, show(catch_unwind(|| sl_concat(v, w)))); } }
    for v in vs.iter() { for w in vs.iter() { println!("sl_starts_ends|{:?}|{:?} -> {}", v, w, show(catch_unwind(|| sl_starts_ends(v, w)))); } }
    for v in vs.iter() { for w in vs.iter() { println!("sl_binary_search|{:?}|{:?} -> {}", v, w, show(catch_unwind(|| sl_binary_search(v, w)))); } }
    for v in vs.iter() { for w in vs.iter() { println!("sl_split_at|{:?}|{:?} -> {}", v, w, show(catch_unwind(|| sl_split_at(v, w)))); } }
    for v in vs.iter() { for w in vs.iter() { println!("sl_split_pred|{:?}|{:?} -> {}", v, w, show(catch_unwind(|| sl_split_pred(v, w)))); } }
    for v in vs.iter() { for w in vs.iter() { println!("sl_repeat|{:?}|{:?} -> {}", v, w, show(catch_unwind(|| sl_repeat(v, w)))); } }
    for v in vs.iter() { for w in vs.iter() { println!("sl_iter_rev_nth|{:?}|{:?} -> {}", v, w, show(catch_unwind(|| sl_iter_rev_nth(v, w)))); } }
    for v in vs.iter() { for w in vs.iter() { println!("sl_to_vec_eq|{:?}|{:?} -> {}", v, w, show(catch_unwind(|| sl_to_vec_eq(v, w)))); } }
    for v in vs.iter() { for w in vs.iter() { println!("sl_sort_dedup|{:?}|{:?} -> {}", v, w, show(catch_unwind(|| sl_sort_dedup(v, w)))); } }
    for v in vs.iter() { for w in vs.iter() { println!("sl_sort_by_key|{:?}|{:?} -> {}", v, w, show(catch_unwind(|| sl_sort_by_key(v, w)))); } }
    for v in vs.iter() { for w in vs.iter() { println!("sl_sort_by|{:?}|{:?} -> {}", v, w, show(catch_unwind(|| sl_sort_by(v, w)))); } }
    for v in vs.iter() { for w in vs.iter() { println!("sl_reverse_swap|{:?}|{:?} -> {}", v, w, show(catch_unwind(|| sl_reverse_swap(v, w)))); } }
    for v in vs.iter() { for w in vs.iter() { println!("sl_iter_mut|{:?}|{:?} -> {}", v, w, show(catch_unwind(|| sl_iter_mut(v, w)))); } }
    for v in vs.iter() { for w in vs.iter() { println!("sl_index_slice|{:?}|{:?} -> {}", v, w, show(catch_unwind(|| sl_index_slice(v, w)))); } }
    for v in vs.iter() { for w in vs.iter() { println!("sl_join_strs|{:?}|{:?} -> {}", v, w, show(catch_unwind(|| sl_join_strs(v, w)))); } }
    for v in vs.iter() { for w in vs.iter() { println!("sl_is_sorted_manual|{:?}|{:?} -> {}", v, w, show(catch_unwind(|| sl_is_sorted_manual(v, w)))); } }
    for v in vs.iter() { for w in vs.iter() { println!("sl_max_index|{:?}|{:?} -> {}", v, w, show(catch_unwind(|| sl_max_index(v, w)))); } }
    for v in vs.iter() { for w in vs.iter() { let mut vv = v.to_vec(); let r = show(catch_unwind(AssertUnwindSafe(|| vec_retain(&mut vv, w)))); println!("vec_retain|{:?}|{:?} -> {} {:?}", v, w, r, vv); } }
    for v in vs.iter() { for w in vs.iter() { let mut vv = v.to_vec(); let r = show(catch_unwind(AssertUnwindSafe(|| vec_extend(&mut vv, w)))); println!("vec_extend|{:?}|{:?} -> {} {:?}", v, w, r, vv); } }
    for v in vs.iter() { for w in vs.iter() { let mut vv = v.to_vec(); let r = show(catch_unwind(AssertUnwindSafe(|| vec_insert_remove(&mut vv, w)))); println!("vec_insert_remove|{:?}|{:?} -> {} {:?}", v, w, r, vv); } }
    for v in vs.iter() { for w in vs.iter() { let mut vv = v.to_vec(); let r = show(catch_unwind(AssertUnwindSafe(|| vec_truncate(&mut vv, w)))); println!("vec_truncate|{:?}|{:?} -> {} {:?}", v, w, r, vv); } }
    for v in vs.iter() { for w in vs.iter() { let mut vv = v.to_vec(); let r = show(catch_unwind(AssertUnwindSafe(|| vec_push_pop(&mut vv, w)))); println!("vec_push_pop|{:?}|{:?} -> {} {:?}", v, w, r, vv); } }
    for v in vs.iter() { for w in vs.iter() { let mut vv = v.to_vec(); let r = show(catch_unwind(AssertUnwindSafe(|| vec_drain(&mut vv, w)))); println!("vec_drain|{:?}|{:?} -> {} {:?}", v, w, r, vv); } }
    for v in vs.iter() { for w in vs.iter() { let mut vv = v.to_vec(); let r = show(catch_unwind(AssertUnwindSafe(|| vec_drain_range(&mut vv, w)))); println!("vec_drain_range|{:?}|{:?} -> {} {:?}", v, w, r, vv); } }
    for v in vs.iter() { for w in vs.iter() { let mut vv = v.to_vec(); let r = show(catch_unwind(AssertUnwindSafe(|| vec_split_off(&mut vv, w)))); println!("vec_split_off|{:?}|{:?} -> {} {:?}", v, w, r, vv); } }
    for v in vs.iter() { for w in vs.iter() { let mut vv = v.to_vec(); let r = show(catch_unwind(AssertUnwindSafe(|| vec_append(&mut vv, w)))); println!("vec_append|{:?}|{:?} -> {} {:?}", v, w, r, vv); } }
    for v in vs.iter() { for w in vs.iter() { let mut vv = v.to_vec(); let r = show(catch_unwind(AssertUnwindSafe(|| vec_resize(&mut vv, w)))); println!("vec_resize|{:?}|{:?} -> {} {:?}", v, w, r, vv); } }
    for v in vs.iter() { for w in vs.iter() { let mut vv = v.to_vec(); let r = show(catch_unwind(AssertUnwindSafe(|| vec_clear(&mut vv, w)))); println!("vec_clear|{:?}|{:?} -> {} {:?}", v, w, r, vv); } }
    for v in vs.iter() { for w in vs.iter() { let mut vv = v.to_vec(); let r = show(catch_unwind(AssertUnwindSafe(|| vec_swap_remove(&mut vv, w)))); println!("vec_swap_remove|{:?}|{:?} -> {} {:?}", v, w, r, vv); } }
    for v in vs.iter() { for w in vs.iter() { let mut vv = v.to_vec(); let r = show(catch_unwind(AssertUnwindSafe(|| vec_dedup_by_key(&mut vv, w)))); println!("vec_dedup_by_key|{:?}|{:?} -> {} {:?}", v, w, r, vv); } }
    for v in vs.iter() { for w in vs.iter() { let mut vv = v.to_vec(); let r = show(catch_unwind(AssertUnwindSafe(|| vec_first_mut(&mut vv, w)))); println!("vec_first_mut|{:?}|{:?} -> {} {:?}", v, w, r, vv); } }
    for v in vs.iter() { for w in vs.iter() { let mut vv = v.to_vec(); let r = show(catch_unwind(AssertUnwindSafe(|| vec_index_assign(&mut vv, w)))); println!("vec_index_assign|{:?}|{:?} -> {} {:?}", v, w, r, vv); } }
    for v in vs.iter() { for w in vs.iter() { let mut vv = v.to_vec(); let r = show(catch_unwind(AssertUnwindSafe(|| vec_sort_unstable(&mut vv, w)))); println!("vec_sort_unstable|{:?}|{:?} -> {} {:?}", v, w, r, vv); } }
    for v in vs.iter() { for w in vs.iter() { let mut vv = v.to_vec(); let r = show(catch_unwind(AssertUnwindSafe(|| vec_rotate(&mut vv, w)))); println!("vec_rotate|{:?}|{:?} -> {} {:?}", v, w, r, vv); } }
    for v in vs.iter() { for w in vs.iter() { let mut vv = v.to_vec(); let r = show(catch_unwind(AssertUnwindSafe(|| vec_fill(&mut vv, w)))); println!("vec_fill|{:?}|{:?} -> {} {:?}", v, w, r, vv); } }
    for v in vs.iter() { for w in vs.iter() { let mut vv = v.to_vec(); let r = show(catch_unwind(AssertUnwindSafe(|| vec_iter_rev_collect(&mut vv, w)))); println!("vec_iter_rev_collect|{:?}|{:?} -> {} {:?}", v, w, r, vv); } }
    for v in vs.iter() { for w in vs.iter() { let mut vv = v.to_vec(); let r = show(catch_unwind(AssertUnwindSafe(|| vec_mem_take(&mut vv, w)))); println!("vec_mem_take|{:?}|{:?} -> {} {:?}", v, w, r, vv); } }
    for v in vs.iter() { for w in vs.iter() { let mut vv = v.to_vec(); let r = show(catch_unwind(AssertUnwindSafe(|| vec_mem_replace(&mut vv, w)))); println!("vec_mem_replace|{:?}|{:?} -> {} {:?}", v, w, r, vv); } }
    for v in vs.iter() { for w in vs.iter() { let mut vv = v.to_vec(); let r = show(catch_unwind(AssertUnwindSafe(|| vec_contains_iter(&mut vv, w)))); println!("vec_contains_iter|{:?}|{:?} -> {} {:?}", v, w, r, vv); } }
    for s in ss.iter() { for t in ts.iter() { println!("str_trim|{:?}|{:?} -> {}", s, t, show(catch_unwind(|| str_trim(s, t)))); } }
    for s in ss.iter() { for t in ts.iter() { println!("str_trim_matches|{:?}|{:?} -> {}", s, t, show(catch_unwind(|| str_trim_matches(s, t)))); } }
    for s in ss.iter() { for t in ts.iter() { println!("str_trim_end_matches_fn|{:?}|{:?} -> {}", s, t, show(catch_unwind(|| str_trim_end_matches_fn(s, t)))); } }
    for s in ss.iter() { for t in ts.iter() { println!("str_starts_ends|{:?}|{:?} -> {}", s, t, show(catch_unwind(|| str_starts_ends(s, t)))); } }
    for s in ss.iter() { for t in ts.iter() { println!("str_strip|{:?}|{:?} -> {}", s, t, show(catch_unwind(|| str_strip(s, t)))); } }
    for s in ss.iter() { for t in ts.iter() { println!("str_char_indices|{:?}|{:?} -> {}", s, t, show(catch_unwind(|| str_char_indices(s, t)))); } }
    for s in ss.iter() { for t in ts.iter() { println!("str_split|{:?}|{:?} -> {}", s, t, show(catch_unwind(|| str_split(s, t)))); } }
    for s in ss.iter() { for t in ts.iter() { println!("str_rsplit|{:?}|{:?} -> {}", s, t, show(catch_unwind(|| str_rsplit(s, t)))); } }
    for s in ss.iter() { for t in ts.iter() { println!("str_splitn|{:?}|{:?} -> {}", s, t, show(catch_unwind(|| str_splitn(s, t)))); } }
    for s in ss.iter() { for t in ts.iter() { println!("str_rsplitn|{:?}|{:?} -> {}", s, t, show(catch_unwind(|| str_rsplitn(s, t)))); } }
    for s in ss.iter() { for t in ts.iter() { println!("str_split_once|{:?}|{:?} -> {}", s, t, show(catch_unwind(|| str_split_once(s, t)))); } }
    for s in ss.iter() { for t in ts.iter() { println!("str_rsplit_once|{:?}|{:?} -> {}", s, t, show(catch_unwind(|| str_rsplit_once(s, t)))); } }
    for s in ss.iter() { for t in ts.iter() { println!("str_split_whitespace|{:?}|{:?} -> {}", s, t, show(catch_unwind(|| str_split_whitespace(s, t)))); } }
    for s in ss.iter() { for t in ts.iter() { println!("str_split_terminator|{:?}|{:?} -> {}", s, t, show(catch_unwind(|| str_split_terminator(s, t)))); } }
    for s in ss.iter() { for t in ts.iter() { println!("str_lines|{:?}|{:?} -> {}", s, t, show(catch_unwind(|| str_lines(s, t)))); } }
    for s in ss.iter() { for t in ts.iter() { println!("str_case|{:?}|{:?} -> {}", s, t, show(catch_unwind(|| str_case(s, t)))); } }
    for s in ss.iter() { for t in ts.iter() { println!("str_repeat|{:?}|{:?} -> {}", s, t, show(catch_unwind(|| str_repeat(s, t)))); } }
    for s in ss.iter() { for t in ts.iter() { println!("str_contains|{:?}|{:?} -> {}", s, t, show(catch_unwind(|| str_contains(s, t)))); } }
    for s in ss.iter() { for t in ts.iter() { println!("str_find|{:?}|{:?} -> {}", s, t, show(catch_unwind(|| str_find(s, t)))); } }
    for s in ss.iter() { for t in ts.iter() { println!("str_replace|{:?}|{:?} -> {}", s, t, show(catch_unwind(|| str_replace(s, t)))); } }
    for s in ss.iter() { for t in ts.iter() { println!("str_chars_bytes|{:?}|{:?} -> {}", s, t, show(catch_unwind(|| str_chars_bytes(s, t)))); } }
    for s in ss.iter() { for t in ts.iter() { println!("str_get|{:?}|{:?} -> {}", s, t, show(catch_unwind(|| str_get(s, t)))); } }
    for s in ss.iter() { for t in ts.iter() { println!("str_parse|{:?}|{:?} -> {}", s, t, show(catch_unwind(|| str_parse(s, t)))); } }
    for s in ss.iter() { for t in ts.iter() { println!("str_eq_ignore|{:?}|{:?} -> {}", s, t, show(catch_unwind(|| str_eq_ignore(s, t)))); } }
    for s in ss.iter() { for t in ts.iter() { println!("str_matches|{:?}|{:?} -> {}", s, t, show(catch_unwind(|| str_matches(s, t)))); } }
    for s in ss.iter() { for t in ts.iter() { println!("str_escape|{:?}|{:?} -> {}", s, t, show(catch_unwind(|| str_escape(s, t)))); } }
    for s in ss.iter() { for t in ts.iter() { println!("str_is_ascii|{:?}|{:?} -> {}", s, t, show(catch_unwind(|| str_is_ascii(s, t)))); } }
    for s in ss.iter() { for t in ts.iter() { println!("str_rev|{:?}|{:?} -> {}", s, t, show(catch_unwind(|| str_rev(s, t)))); } }
    for s in ss.iter() { for t in ts.iter() { println!("str_cmp|{:?}|{:?} -> {}", s, t, show(catch_unwind(|| str_cmp(s, t)))); } }
    for s in ss.iter() { for t in ts.iter() { println!("str_concat_format|{:?}|{:?} -> {}", s, t, show(catch_unwind(|| str_concat_format(s, t)))); } }
    for s in ss.iter() { for t in ts.iter() { println!("str_first_char|{:?}|{:?} -> {}", s, t, show(catch_unwind(|| str_first_char(s, t)))); } }
    for s in ss.iter() { for t in ts.iter() { println!("str_split_str|{:?}|{:?} -> {}", s, t, show(catch_unwind(|| str_split_str(s, t)))); } }
    for s in ss.iter() { for t in ts.iter() { println!("str_char_filter|{:?}|{:?} -> {}", s, t, show(catch_unwind(|| str_char_filter(s, t)))); } }
    for s in ss.iter() { for t in ts.iter() { println!("str_bytes_idx|{:?}|{:?} -> {}", s, t, show(catch_unwind(|| str_bytes_idx(s, t)))); } }
    for s in ss.iter() { for t in ts.iter() { println!("str_slice|{:?}|{:?} -> {}", s, t, show(catch_unwind(|| str_slice(s, t)))); } }
    for s in ss.iter() { for t in ts.iter() { println!("str_to_string_eq|{:?}|{:?} -> {}", s, t, show(catch_unwind(|| str_to_string_eq(s, t)))); } }
    for s in ss.iter() { for t in ts.iter() { println!("str_format_spec|{:?}|{:?} -> {}", s, t, show(catch_unwind(|| str_format_spec(s, t)))); } }
    for s in ss.iter() { for t in ts.iter() { println!("str_format_width_arg|{:?}|{:?} -> {}", s, t, show(catch_unwind(|| str_format_width_arg(s, t)))); } }
    for s in ss.iter() { for o0 in ["", "seed", "héé"].iter() { let mut o = o0.to_string(); let r = show(catch_unwind(AssertUnwindSafe(|| string_push(&mut o, s)))); println!("string_push|{:?}|{:?} -> {} {:?}", o0, s, r, o); } }
    for s in ss.iter() { for o0 in ["", "seed", "héé"].iter() { let mut o = o0.to_string(); let r = show(catch_unwind(AssertUnwindSafe(|| string_pop(&mut o, s)))); println!("string_pop|{:?}|{:?} -> {} {:?}", o0, s, r, o); } }
    for s in ss.iter() { for o0 in ["", "seed", "héé"].iter() { let mut o = o0.to_string(); let r = show(catch_unwind(AssertUnwindSafe(|| string_insert(&mut o, s)))); println!("string_insert|{:?}|{:?} -> {} {:?}", o0, s, r, o); } }
    for s in ss.iter() { for o0 in ["", "seed", "héé"].iter() { let mut o = o0.to_string(); let r = show(catch_unwind(AssertUnwindSafe(|| string_remove(&mut o, s)))); println!("string_remove|{:?}|{:?} -> {} {:?}", o0, s, r, o); } }
    for s in ss.iter() { for o0 in ["", "seed", "héé"].iter() { let mut o = o0.to_string(); let r = show(catch_unwind(AssertUnwindSafe(|| string_truncate(&mut o, s)))); println!("string_truncate|{:?}|{:?} -> {} {:?}", o0, s, r, o); } }
    for s in ss.iter() { for o0 in ["", "seed", "héé"].iter() { let mut o = o0.to_string(); let r = show(catch_unwind(AssertUnwindSafe(|| string_retain(&mut o, s)))); println!("string_retain|{:?}|{:?} -> {} {:?}", o0, s, r, o); } }
    for s in ss.iter() { for o0 in ["", "seed", "héé"].iter() { let mut o = o0.to_string(); let r = show(catch_unwind(AssertUnwindSafe(|| string_drain(&mut o, s)))); println!("string_drain|{:?}|{:?} -> {} {:?}", o0, s, r, o); } }
    for s in ss.iter() { for o0 in ["", "seed", "héé"].iter() { let mut o = o0.to_string(); let r = show(catch_unwind(AssertUnwindSafe(|| string_extend(&mut o, s)))); println!("string_extend|{:?}|{:?} -> {} {:?}", o0, s, r, o); } }
    for s in ss.iter() { for o0 in ["", "seed", "héé"].iter() { let mut o = o0.to_string(); let r = show(catch_unwind(AssertUnwindSafe(|| string_replace_range(&mut o, s)))); println!("string_replace_range|{:?}|{:?} -> {} {:?}", o0, s, r, o); } }
    for s in ss.iter() { for o0 in ["", "seed", "héé"].iter() { let mut o = o0.to_string(); let r = show(catch_unwind(AssertUnwindSafe(|| string_split_off(&mut o, s)))); println!("string_split_off|{:?}|{:?} -> {} {:?}", o0, s, r, o); } }
    for s in ss.iter() { for o0 in ["", "seed", "héé"].iter() { let mut o = o0.to_string(); let r = show(catch_unwind(AssertUnwindSafe(|| string_clear(&mut o, s)))); println!("string_clear|{:?}|{:?} -> {} {:?}", o0, s, r, o); } }
    for s in ss.iter() { for o0 in ["", "seed", "héé"].iter() { let mut o = o0.to_string(); let r = show(catch_unwind(AssertUnwindSafe(|| string_from_utf8(&mut o, s)))); println!("string_from_utf8|{:?}|{:?} -> {} {:?}", o0, s, r, o); } }
    for s in ss.iter() { for o0 in ["", "seed", "héé"].iter() { let mut o = o0.to_string(); let r = show(catch_unwind(AssertUnwindSafe(|| string_add_assign(&mut o, s)))); println!("string_add_assign|{:?}|{:?} -> {} {:?}", o0, s, r, o); } }
    for s in ss.iter() { for o0 in ["", "seed", "héé"].iter() { let mut o = o0.to_string(); let r = show(catch_unwind(AssertUnwindSafe(|| string_write_fmt(&mut o, s)))); println!("string_write_fmt|{:?}|{:?} -> {} {:?}", o0, s, r, o); } }
    for s in ss.iter() { for o0 in ["", "seed", "héé"].iter() { let mut o = o0.to_string(); let r = show(catch_unwind(AssertUnwindSafe(|| string_mem_take(&mut o, s)))); println!("string_mem_take|{:?}|{:?} -> {} {:?}", o0, s, r, o); } }
    for s in ss.iter() { for o0 in ["", "seed", "héé"].iter() { let mut o = o0.to_string(); let r = show(catch_unwind(AssertUnwindSafe(|| string_into_bytes(&mut o, s)))); println!("string_into_bytes|{:?}|{:?} -> {} {:?}", o0, s, r, o); } }
    for s in ss.iter() { for o0 in ["", "seed", "héé"].iter() { let mut o = o0.to_string(); let r = show(catch_unwind(AssertUnwindSafe(|| string_chars_rev_assign(&mut o, s)))); println!("string_chars_rev_assign|{:?}|{:?} -> {} {:?}", o0, s, r, o); } }
    for s in ss.iter() { for o0 in ["", "seed", "héé"].iter() { let mut o = o0.to_string(); let r = show(catch_unwind(AssertUnwindSafe(|| string_to_upper_assign(&mut o, s)))); println!("string_to_upper_assign|{:?}|{:?} -> {} {:?}", o0, s, r, o); } }
    for x in ints { for y in ints { println!("int_pow|{}|{} -> {}", x, y, show(catch_unwind(|| int_pow(x, y)))); } }
    for x in ints { for y in ints { println!("int_abs_signum|{}|{} -> {}", x, y, show(catch_unwind(|| int_abs_signum(x, y)))); } }
    for x in ints { for y in ints { println!("int_euclid|{}|{} -> {}", x, y, show(catch_unwind(|| int_euclid(x, y)))); } }
    for x in ints { for y in ints { println!("int_checked|{}|{} -> {}", x, y, show(catch_unwind(|| int_checked(x, y)))); } }
    for x in ints { for y in ints { println!("int_checked_neg_abs|{}|{} -> {}", x, y, show(catch_unwind(|| int_checked_neg_abs(x, y)))); } }
    for x in ints { for y in ints { println!("int_wrapping|{}|{} -> {}", x, y, show(catch_unwind(|| int_wrapping(x, y)))); } }
    for x in ints { for y in ints { println!("int_saturating|{}|{} -> {}", x, y, show(catch_unwind(|| int_saturating(x, y)))); } }
    for x in ints { for y in ints { println!("int_overflowing|{}|{} -> {}", x, y, show(catch_unwind(|| int_overflowing(x, y)))); } }
    for x in ints { for y in ints { println!("int_bits|{}|{} -> {}", x, y, show(catch_unwind(|| int_bits(x, y)))); } }
    for x in ints { for y in ints { println!("int_abs_diff|{}|{} -> {}", x, y, show(catch_unwind(|| int_abs_diff(x, y)))); } }
    for x in ints { for y in ints { println!("int_min_max_clamp|{}|{} -> {}", x, y, show(catch_unwind(|| int_min_max_clamp(x, y)))); } }
    for x in ints { for y in ints { println!("int_sign_tests|{}|{} -> {}", x, y, show(catch_unwind(|| int_sign_tests(x, y)))); } }
    for x in ints { for y in ints { println!("int_to_string|{}|{} -> {}", x, y, show(catch_unwind(|| int_to_string(x, y)))); } }
    for x in ints { for y in ints { println!("int_casts|{}|{} -> {}", x, y, show(catch_unwind(|| int_casts(x, y)))); } }
    for x in ints { for y in ints { println!("int_try_from|{}|{} -> {}", x, y, show(catch_unwind(|| int_try_from(x, y)))); } }
    for x in ints { for y in ints { println!("int_from_str_radix|{}|{} -> {}", x, y, show(catch_unwind(|| int_from_str_radix(x, y)))); } }
    for x in ints { for y in ints { println!("int_float_ops|{}|{} -> {}", x, y, show(catch_unwind(|| int_float_ops(x, y)))); } }
    for x in ints { for y in ints { println!("int_float_minmax|{}|{} -> {}", x, y, show(catch_unwind(|| int_float_minmax(x, y)))); } }
    for x in ints { for y in ints { println!("int_float_cmp|{}|{} -> {}", x, y, show(catch_unwind(|| int_float_cmp(x, y)))); } }
    for x in ints { for y in ints { println!("int_shift_mask|{}|{} -> {}", x, y, show(catch_unwind(|| int_shift_mask(x, y)))); } }
    for x in ints { for y in ints { println!("int_div_rem|{}|{} -> {}", x, y, show(catch_unwind(|| int_div_rem(x, y)))); } }
    for x in ints { for y in ints { println!("int_ordering|{}|{} -> {}", x, y, show(catch_unwind(|| int_ordering(x, y)))); } }
    for x in ints { for y in ints { println!("int_range_contains|{}|{} -> {}", x, y, show(catch_unwind(|| int_range_contains(x, y)))); } }
    for x in ints { for y in ints { println!("int_usize_sub|{}|{} -> {}", x, y, show(catch_unwind(|| int_usize_sub(x, y)))); } }
    for x in ints { for y in ints { println!("int_power_of_two|{}|{} -> {}", x, y, show(catch_unwind(|| int_power_of_two(x, y)))); } }
    for x in ints { for y in ints { println!("int_sum_range|{}|{} -> {}", x, y, show(catch_unwind(|| int_sum_range(x, y)))); } }
    for c in chars { println!("char_classes|{} -> {}", c as u32, show(catch_unwind(|| char_classes(c)))); }
    for c in chars { println!("char_classes2|{} -> {}", c as u32, show(catch_unwind(|| char_classes2(c)))); }
    for c in chars { println!("char_case|{} -> {}", c as u32, show(catch_unwind(|| char_case(c)))); }
    for c in chars { println!("char_digit|{} -> {}", c as u32, show(catch_unwind(|| char_digit(c)))); }
    for c in chars { println!("char_len|{} -> {}", c as u32, show(catch_unwind(|| char_len(c)))); }
    for c in chars { println!("char_from|{} -> {}", c as u32, show(catch_unwind(|| char_from(c)))); }
    for c in chars { println!("char_eq_ignore|{} -> {}", c as u32, show(catch_unwind(|| char_eq_ignore(c)))); }
    for c in chars { println!("char_u8_methods|{} -> {}", c as u32, show(catch_unwind(|| char_u8_methods(c)))); }
}
