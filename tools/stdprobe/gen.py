"""generates src/lib.rs, src/main.rs and probes.json: one tiny function per std API (or small group), so that a mismatch between
the engine's builtin and the real std names the API"""
import json, os
HERE = os.path.dirname(os.path.abspath(__file__))
P = []          # (name, kind, rust expression of type i64)


def add(kind, name, expr):
    P.append((name, kind, expr))

# ---- Option<i64> x Option<i64>
for name, e in [
    ('opt_map_or', 'o.map_or(0, |x| x + 1)'), ('opt_map_or_else', 'o.map_or_else(|| 1, |x| x * 2)'), ('opt_and_then', 'o.and_then(|x| p.map(|y| x + y)).unwrap_or(-7)'),
    ('opt_ok_or', 'o.ok_or("e").unwrap_or(-1)'), ('opt_ok_or_else', 'o.ok_or_else(|| "e").unwrap_or_default()'), ('opt_unwrap_or_default', 'o.unwrap_or_default()'),
    ('opt_filter', 'o.filter(|x| *x > 0).unwrap_or(-2)'), ('opt_zip', 'o.zip(p).map(|(x, y)| x * 10 + y).unwrap_or(-3)'), ('opt_xor', 'o.xor(p).unwrap_or(-4)'), ('opt_or', 'o.or(p).unwrap_or(-5)'),
    ('opt_or_else', 'o.or_else(|| Some(9)).unwrap_or(-6)'), ('opt_is_some_and', 'o.is_some_and(|x| x > 1) as i64'), ('opt_flatten', 'Some(o).flatten().unwrap_or(-8)'), ('opt_iter_count', 'o.iter().count() as i64'),
    ('opt_take', '{ let mut m = o; let a = m.take().unwrap_or(-1); a * 10 + m.is_none() as i64 }'), ('opt_replace', '{ let mut m = o; let a = m.replace(3).unwrap_or(-1); a * 10 + m.unwrap_or(0) }'),
    ('opt_get_or_insert_with', '{ let mut m = o; *m.get_or_insert_with(|| 5) += 1; m.unwrap_or(0) }'), ('opt_insert', '{ let mut m = o; *m.insert(4) += 1; m.unwrap_or(0) }'),
    ('opt_as_mut', '{ let mut m = o; if let Some(x) = m.as_mut() { *x += 1; } m.unwrap_or(-1) }'), ('opt_copied', 'o.as_ref().copied().unwrap_or(-1) + p.as_ref().cloned().unwrap_or(-2)'),
    ('opt_inspect', '{ let mut n = 0; let r = o.inspect(|x| n += *x).unwrap_or(0); r + n }'), ('opt_expect_or', 'o.or(Some(1)).expect("x")'), ('opt_unwrap_or_else', 'o.unwrap_or_else(|| 2)'),
    ('opt_eq', '(o == p) as i64 + (o < p) as i64 * 2 + (o.max(p) == o) as i64 * 4'), ('opt_map_unwrap', 'o.map(|x| x - 1).unwrap_or(100)'),
]:
    add('OO', name, e)
# ---- Result<i64, String>
for name, e in [
    ('res_map_or', 'r.clone().map_or(-1, |x| x + 1)'), ('res_map_or_else', 'r.clone().map_or_else(|e| e.len() as i64, |x| x * 2)'), ('res_and_then', 'r.clone().and_then(|x| q.clone().map(|y| x + y)).unwrap_or(-7)'),
    ('res_or_else', 'r.clone().or_else(|_| q.clone()).unwrap_or_default()'), ('res_unwrap_or_else', 'r.clone().unwrap_or_else(|e| e.len() as i64)'), ('res_ok', 'r.clone().ok().unwrap_or(-1)'),
    ('res_err', 'r.clone().err().map(|e| e.len() as i64).unwrap_or(-1)'), ('res_is_ok_and', 'r.clone().is_ok_and(|x| x > 0) as i64'), ('res_is_err_and', 'r.clone().is_err_and(|e| e.is_empty()) as i64'),
    ('res_iter', 'r.iter().count() as i64'), ('res_as_ref', 'r.as_ref().map(|x| *x).unwrap_or(-1)'), ('res_map_err', 'r.clone().map_err(|e| e.len()).unwrap_or(-1)'), ('res_inspect_err', '{ let mut n = 0; let v = r.clone().inspect_err(|e| n += e.len() as i64).unwrap_or(0); v + n }'),
    ('res_unwrap_or', 'r.clone().unwrap_or(-9)'), ('res_is_ok', 'r.is_ok() as i64 + r.is_err() as i64 * 2'), ('res_eq', '(r == q) as i64'), ('res_question', '(|| -> Result<i64, String> { let a = r.clone()?; let b = q.clone()?; Ok(a + b) })().unwrap_or(-1)'),
]:
    add('RR', name, e)
# ---- &[i64] x &[i64]
for name, e in [
    ('it_fold', 'v.iter().fold(0, |acc, x| acc * 3 + x)'), ('it_any', 'v.iter().any(|x| *x > 1) as i64'), ('it_all', 'v.iter().all(|x| *x > 1) as i64'), ('it_rev_zip_sum', 'v.iter().rev().zip(w.iter()).map(|(x, y)| x * y).sum::<i64>()'),
    ('it_skip_while', 'v.iter().skip_while(|x| **x < 2).count() as i64'), ('it_take_while', 'v.iter().take_while(|x| **x < 5).count() as i64'), ('it_step_by', 'v.iter().step_by(2).sum::<i64>()'), ('it_last', '*v.iter().last().unwrap_or(&-1)'),
    ('it_min', '*v.iter().min().unwrap_or(&-1)'), ('it_max', '*v.iter().max().unwrap_or(&-1)'), ('it_min_by_key', '*v.iter().min_by_key(|x| (**x - 2).abs()).unwrap_or(&-1)'), ('it_max_by_key', '*v.iter().max_by_key(|x| (**x - 2).abs()).unwrap_or(&-1)'),
    ('it_min_by', '*v.iter().min_by(|a, b| b.cmp(a)).unwrap_or(&-1)'), ('it_max_by', '*v.iter().max_by(|a, b| b.cmp(a)).unwrap_or(&-1)'), ('it_product', 'v.iter().take(4).product::<i64>()'), ('it_flat_map', 'v.iter().flat_map(|x| vec![*x, *x + 1]).sum::<i64>()'),
    ('it_filter_map', 'v.iter().filter_map(|x| if *x > 0 { Some(*x * 2) } else { None }).sum::<i64>()'), ('it_chain', 'v.iter().chain(w.iter()).cloned().collect::<Vec<i64>>().len() as i64'), ('it_reduce', 'v.iter().copied().reduce(|a, b| a * 2 + b).unwrap_or(-1)'),
    ('it_for_each', '{ let mut n = 0; v.iter().for_each(|x| n += x); n }'), ('it_try_fold', 'v.iter().try_fold(0i64, |acc, x| if *x == 9 { None } else { acc.checked_add(*x) }).unwrap_or(-1)'), ('it_partition', '{ let (a, b): (Vec<i64>, Vec<i64>) = v.iter().partition(|x| **x > 0); (a.len() * 10 + b.len()) as i64 }'),
    ('it_unzip', '{ let (a, b): (Vec<i64>, Vec<i64>) = v.iter().map(|x| (*x, -*x)).unzip(); a.iter().sum::<i64>() * 100 + b.len() as i64 }'), ('it_scan', 'v.iter().scan(0, |s, x| { *s += x; Some(*s) }).sum::<i64>()'), ('it_map_while', 'v.iter().map_while(|x| if *x < 5 { Some(*x) } else { None }).count() as i64'),
    ('it_nth', '*v.iter().nth(1).unwrap_or(&-1)'), ('it_skip_take', 'v.iter().skip(1).take(2).sum::<i64>()'), ('it_enumerate', 'v.iter().enumerate().map(|(i, x)| i as i64 * x).sum::<i64>()'), ('it_eq', 'v.iter().eq(w.iter()) as i64'), ('it_cmp', 'v.iter().cmp(w.iter()) as i64'),
    ('it_find_map', 'v.iter().find_map(|x| if *x > 2 { Some(*x * 7) } else { None }).unwrap_or(-1)'), ('it_position', 'v.iter().position(|x| *x == 1).map(|i| i as i64).unwrap_or(-1)'), ('it_rposition', 'v.iter().rposition(|x| *x == 1).map(|i| i as i64).unwrap_or(-1)'),
    ('it_rfold', 'v.iter().rfold(0, |a, x| a * 3 - x)'), ('it_find', '*v.iter().find(|x| **x > 1).unwrap_or(&-1)'), ('it_rfind', '*v.iter().rfind(|x| **x > 1).unwrap_or(&-1)'), ('it_count_filter', 'v.iter().filter(|x| **x % 2 == 1).count() as i64'),
    ('it_peekable', '{ let mut pk = v.iter().peekable(); let a = pk.peek().map(|x| **x).unwrap_or(-1); let b = pk.next_if(|x| **x > 0).copied().unwrap_or(-2); let c = pk.next().copied().unwrap_or(-3); a * 100 + b * 10 + c }'),
    ('it_repeat_once', 'std::iter::repeat(2).take(3).sum::<i64>() + std::iter::once(5).chain(std::iter::empty()).sum::<i64>()'), ('it_successors', 'std::iter::successors(Some(1i64), |x| if *x < 20 { Some(x * 3) } else { None }).sum::<i64>()'),
    ('it_sum_range', '(0..v.len() as i64).rev().map(|i| i * 2).sum::<i64>() + (1..=3).product::<i64>()'), ('it_zip_unequal', 'v.iter().zip(w.iter().skip(1)).count() as i64'), ('it_last_of_map', 'v.iter().map(|x| x * 2).last().unwrap_or(-1)'),
    ('it_collect_string', 'v.iter().map(|x| x.to_string()).collect::<Vec<String>>().join(",").len() as i64'), ('it_max_float_cmp', 'v.iter().map(|x| *x as f64).fold(f64::MIN, f64::max) as i64'), ('it_windows', 'v.windows(2).map(|p| p[0] - p[1]).sum::<i64>()'),
    ('it_chunks', 'v.chunks(2).map(|c| c.len() as i64 * c[0]).sum::<i64>()'), ('sl_first_last', '*v.first().unwrap_or(&-1) * 10 + *v.last().unwrap_or(&-2)'), ('sl_split_first', 'v.split_first().map(|(h, t)| *h * 10 + t.len() as i64).unwrap_or(-1)'),
    ('sl_split_last', 'v.split_last().map(|(h, t)| *h * 10 + t.len() as i64).unwrap_or(-1)'), ('sl_contains', 'v.contains(&1) as i64'), ('sl_get', '*v.get(1).unwrap_or(&-1) + *v.get(99).unwrap_or(&-2)'), ('sl_concat', '[v, w].concat().iter().sum::<i64>()'),
    ('sl_starts_ends', 'v.starts_with(w) as i64 * 2 + v.ends_with(w) as i64'), ('sl_binary_search', '{ let mut s = v.to_vec(); s.sort(); match s.binary_search(&3) { Ok(i) => i as i64, Err(i) => -(i as i64) - 1 } }'), ('sl_split_at', '{ let (l, r) = v.split_at(v.len() / 2); l.len() as i64 * 10 + r.len() as i64 }'),
    ('sl_split_pred', 'v.split(|x| *x == 1).map(|p| p.len() as i64 + 1).product::<i64>()'), ('sl_repeat', 'v.repeat(2).len() as i64'), ('sl_iter_rev_nth', '*v.iter().rev().nth(1).unwrap_or(&-1)'), ('sl_to_vec_eq', '(v.to_vec() == w.to_vec()) as i64 + (v < w) as i64 * 2'),
    ('sl_sort_dedup', '{ let mut s = v.to_vec(); s.sort(); s.dedup(); s.iter().fold(0, |a, x| a * 7 + x) }'), ('sl_sort_by_key', '{ let mut s = v.to_vec(); s.sort_by_key(|x| -*x); s.iter().fold(0, |a, x| a * 7 + x) }'), ('sl_sort_by', '{ let mut s = v.to_vec(); s.sort_by(|a, b| (a % 3).cmp(&(b % 3))); s.iter().fold(0, |a, x| a * 7 + x) }'),
    ('sl_reverse_swap', '{ let mut s = v.to_vec(); s.reverse(); if s.len() > 1 { s.swap(0, 1); } s.iter().fold(0, |a, x| a * 7 + x) }'), ('sl_iter_mut', '{ let mut s = v.to_vec(); for x in s.iter_mut() { *x += 1; } s.iter().sum::<i64>() }'), ('sl_index_slice', 'if v.len() >= 2 { v[1..].iter().sum::<i64>() + v[..1][0] } else { -1 }'),
    ('sl_join_strs', 'v.iter().map(|x| x.to_string()).collect::<Vec<_>>().concat().len() as i64'), ('sl_is_sorted_manual', 'v.windows(2).all(|p| p[0] <= p[1]) as i64'), ('sl_max_index', 'v.iter().enumerate().max_by_key(|(_, x)| **x).map(|(i, _)| i as i64).unwrap_or(-1)'),
]:
    add('VV', name, e)
# ---- &mut Vec<i64> x &[i64]
for name, e in [
    ('vec_retain', '{ v.retain(|x| *x != 1); v.len() as i64 }'), ('vec_extend', '{ v.extend(w.iter().cloned()); v.extend_from_slice(w); v.len() as i64 }'), ('vec_insert_remove', '{ v.insert(0, 7); let d = v.remove(0); d + v.len() as i64 }'),
    ('vec_truncate', '{ v.truncate(2); v.len() as i64 }'), ('vec_push_pop', '{ v.push(4); v.pop().unwrap_or(-1) + v.pop().unwrap_or(-1) }'), ('vec_drain', '{ if v.is_empty() { -1 } else { v.drain(..1).sum::<i64>() } }'),
    ('vec_drain_range', '{ if v.len() < 3 { -1 } else { v.drain(1..3).sum::<i64>() } }'), ('vec_split_off', '{ let t = v.split_off(v.len() / 2); t.iter().sum::<i64>() }'), ('vec_append', '{ let mut t = w.to_vec(); v.append(&mut t); t.len() as i64 + v.len() as i64 }'),
    ('vec_resize', '{ v.resize(3, 9); v.iter().sum::<i64>() }'), ('vec_clear', '{ v.clear(); v.is_empty() as i64 }'), ('vec_swap_remove', '{ if v.is_empty() { -1 } else { v.swap_remove(0) } }'), ('vec_dedup_by_key', '{ v.dedup_by_key(|x| *x / 2); v.len() as i64 }'),
    ('vec_first_mut', '{ if let Some(x) = v.first_mut() { *x += 10; } if let Some(x) = v.last_mut() { *x += 100; } if let Some(x) = v.get_mut(1) { *x += 1000; } 0 }'), ('vec_index_assign', '{ if !v.is_empty() { v[0] = 42; let n = v.len(); v[n - 1] += 1; } 0 }'),
    ('vec_sort_unstable', '{ v.sort_unstable(); v.dedup(); 0 }'), ('vec_rotate', '{ if !v.is_empty() { v.rotate_left(1); } 0 }'), ('vec_fill', '{ v.fill(3); v.len() as i64 }'), ('vec_iter_rev_collect', '{ let t: Vec<i64> = v.iter().rev().cloned().collect(); *v = t; 0 }'),
    ('vec_mem_take', '{ let t = std::mem::take(v); t.len() as i64 }'), ('vec_mem_replace', '{ let t = std::mem::replace(v, w.to_vec()); t.len() as i64 }'), ('vec_contains_iter', '{ v.contains(&3) as i64 + v.iter().any(|x| w.contains(x)) as i64 * 2 }'),
]:
    add('MV', name, e)
# ---- &str x &str
for name, e in [
    ('str_trim', 's.trim().len() as i64 * 10000 + s.trim_start().len() as i64 * 100 + s.trim_end().len() as i64'), ('str_trim_matches', 's.trim_matches(\'x\').len() as i64 * 100 + s.trim_start_matches("ab").len() as i64'),
    ('str_trim_end_matches_fn', 's.trim_end_matches(char::is_whitespace).len() as i64'), ('str_starts_ends', 's.starts_with(t) as i64 * 2 + s.ends_with(\'x\') as i64'), ('str_strip', 's.strip_prefix(t).map(|x| x.len() as i64).unwrap_or(-1) * 100 + s.strip_suffix("x").map(|x| x.len() as i64).unwrap_or(-1)'),
    ('str_char_indices', 's.char_indices().map(|(i, c)| i as i64 * (c as i64 % 7)).sum::<i64>()'), ('str_split', 's.split(\',\').map(|p| p.len() as i64 + 1).product::<i64>()'), ('str_rsplit', 's.rsplit(\',\').next().map(|p| p.len() as i64).unwrap_or(-1)'),
    ('str_splitn', 's.splitn(2, \',\').map(|p| p.len() as i64 + 1).product::<i64>()'), ('str_rsplitn', 's.rsplitn(2, \'=\').map(|p| p.len() as i64 + 1).fold(0, |a, x| a * 50 + x)'), ('str_split_once', 's.split_once(\'=\').map(|(k, v)| k.len() as i64 * 100 + v.len() as i64).unwrap_or(-1)'),
    ('str_rsplit_once', 's.rsplit_once("=").map(|(k, v)| k.len() as i64 * 100 + v.len() as i64).unwrap_or(-1)'), ('str_split_whitespace', 's.split_whitespace().count() as i64'), ('str_split_terminator', 's.split_terminator(\'\\n\').count() as i64'),
    ('str_lines', 's.lines().count() as i64'), ('str_case', '(s.to_uppercase() == s) as i64 + (s.to_lowercase() == s) as i64 * 2 + (s.to_ascii_uppercase() == s.to_uppercase()) as i64 * 4 + s.to_ascii_lowercase().len() as i64 * 8'),
    ('str_repeat', 's.repeat(2).len() as i64'), ('str_contains', 's.contains(t) as i64 + s.contains(\'c\') as i64 * 2 + s.contains(char::is_whitespace) as i64 * 4'), ('str_find', 's.find(t).map(|i| i as i64).unwrap_or(-1) * 100 + s.rfind(\'c\').map(|i| i as i64).unwrap_or(-1)'),
    ('str_replace', 's.replace("a", "bb").len() as i64 * 100 + s.replacen(\'a\', "b", 1).len() as i64'), ('str_chars_bytes', 's.chars().count() as i64 * 100 + s.bytes().count() as i64'), ('str_get', 's.get(0..1).map(|x| x.len() as i64).unwrap_or(-1) + s.is_char_boundary(1) as i64 * 10'),
    ('str_parse', 's.parse::<i64>().unwrap_or(-1) + s.trim().parse::<f64>().map(|f| f as i64).unwrap_or(-2)'), ('str_eq_ignore', 's.eq_ignore_ascii_case(t) as i64'), ('str_matches', 's.matches(\'a\').count() as i64 * 10 + s.match_indices("a").map(|(i, _)| i as i64).sum::<i64>()'),
    ('str_escape', 's.escape_debug().count() as i64 * 100 + s.escape_default().to_string().len() as i64'), ('str_is_ascii', 's.is_ascii() as i64'), ('str_rev', 's.chars().rev().collect::<String>().len() as i64 + s.chars().next_back().map(|c| c.len_utf8() as i64).unwrap_or(0) * 100'),
    ('str_cmp', '(s < t) as i64 + (s == t) as i64 * 2 + s.cmp(t) as i64 * 4'), ('str_concat_format', 'format!("{}-{}", s, t).len() as i64 + [s, t].concat().len() as i64 * 100 + [s, t].join("/").len() as i64 * 10000'),
    ('str_first_char', 's.chars().next().map(|c| c as i64).unwrap_or(-1) + s.chars().nth(2).map(|c| c as i64).unwrap_or(-1) * 1000'), ('str_split_str', 's.split("ab").count() as i64 + s.split(|c: char| c == \',\' || c == \':\').count() as i64 * 10'),
    ('str_char_filter', 's.chars().filter(|c| c.is_alphabetic()).count() as i64 + s.chars().filter(|c| c.is_ascii_digit()).count() as i64 * 100'), ('str_bytes_idx', 'if s.len() > 1 { s.as_bytes()[1] as i64 + s.bytes().last().unwrap() as i64 * 1000 } else { -1 }'),
    ('str_slice', 'if s.is_ascii() && s.len() >= 3 { s[1..3].len() as i64 + s[..2].starts_with(&t[..1]) as i64 * 10 } else { -1 }'), ('str_to_string_eq', '(s.to_string() == t.to_owned()) as i64 + (String::from(s) + t).len() as i64 * 10'),
    ('str_format_spec', 'format!("{:>5}|{:<4}|{:^6}|{:03}|{:+}|{:x}|{:#x}|{:b}|{:.2}|{:?}|{:?}", s, t, s, 7, 5, 255, 255, 5, 1.23456f64, s, Some(1)).len() as i64'), ('str_format_width_arg', 'format!("{:>w$}|{:.p$}", s, 1.5f64, w = 7, p = 3).len() as i64'),
]:
    add('SS', name, e)
# ---- &mut String x &str
for name, e in [
    ('string_push', '{ o.push(\'c\'); o.push_str(s); o.len() as i64 }'), ('string_pop', '{ o.pop().map(|c| c as i64).unwrap_or(-1) }'), ('string_insert', '{ o.insert(0, \'a\'); o.insert_str(1, s); o.len() as i64 }'),
    ('string_remove', '{ if o.is_empty() { -1 } else { o.remove(0) as i64 } }'), ('string_truncate', '{ o.truncate(2); o.len() as i64 }'), ('string_retain', '{ o.retain(|c| c != \'e\'); o.len() as i64 }'),
    ('string_drain', '{ if o.len() < 2 { -1 } else { o.drain(..2).count() as i64 } }'), ('string_extend', '{ o.extend(s.chars().rev()); o.len() as i64 }'), ('string_replace_range', '{ if o.is_empty() { -1 } else { o.replace_range(0..1, "zz"); o.len() as i64 } }'),
    ('string_split_off', '{ let n = o.len() / 2; if o.is_char_boundary(n) { o.split_off(n).len() as i64 } else { -1 } }'), ('string_clear', '{ o.clear(); o.is_empty() as i64 }'), ('string_from_utf8', '{ *o = String::from_utf8(s.as_bytes().to_vec()).unwrap_or_default(); String::from_utf8_lossy(s.as_bytes()).len() as i64 }'),
    ('string_add_assign', '{ *o += s; *o += "!"; o.len() as i64 }'), ('string_write_fmt', '{ use std::fmt::Write; let _ = write!(o, "{}:{}", s, 3); let _ = writeln!(o, "x"); o.len() as i64 }'), ('string_mem_take', '{ let t = std::mem::take(o); t.len() as i64 }'),
    ('string_into_bytes', '{ let b = o.clone().into_bytes(); b.len() as i64 + o.as_str().len() as i64 }'), ('string_chars_rev_assign', '{ *o = o.chars().rev().collect(); 0 }'), ('string_to_upper_assign', '{ *o = o.to_uppercase(); o.make_ascii_lowercase(); 0 }'),
]:
    add('MS', name, e)
# ---- i64 x i64
for name, e in [
    ('int_pow', 'x.checked_pow(2).unwrap_or(-1) + if x.abs() < 100 { x.pow(3) } else { 0 }'), ('int_abs_signum', 'x.abs() * 10 + x.signum()'), ('int_euclid', 'if y != 0 { x.rem_euclid(y) * 100 + x.div_euclid(y) } else { -1 }'),
    ('int_checked', 'x.checked_add(y).unwrap_or(-1) + x.checked_sub(y).unwrap_or(-2) + x.checked_mul(y).unwrap_or(-3) + x.checked_div(y).unwrap_or(-4) + x.checked_rem(y).unwrap_or(-5)'), ('int_checked_neg_abs', 'x.checked_neg().unwrap_or(-1) + x.checked_abs().unwrap_or(-2)'),
    ('int_wrapping', 'x.wrapping_add(y) ^ x.wrapping_sub(y) ^ x.wrapping_mul(y) ^ x.wrapping_neg() ^ x.wrapping_abs()'), ('int_saturating', 'x.saturating_add(y) / 3 + x.saturating_sub(y) / 5 + x.saturating_mul(y) / 7'),
    ('int_overflowing', '{ let (a, b) = x.overflowing_add(y); let (c, d) = x.overflowing_mul(y); let (e, f) = x.overflowing_sub(y); (a ^ c ^ e) + b as i64 + d as i64 * 2 + f as i64 * 4 }'), ('int_bits', 'x.leading_zeros() as i64 * 10000 + x.trailing_zeros() as i64 * 100 + x.count_ones() as i64'),
    ('int_abs_diff', 'x.abs_diff(y) as i64 % 1000003 + x.unsigned_abs() as i64 % 1000'), ('int_min_max_clamp', 'x.min(y) + x.max(y) * 3 + x.clamp(-5, 9) * 7 + std::cmp::min(x, y) + std::cmp::max(x, y)'), ('int_sign_tests', 'x.is_positive() as i64 + x.is_negative() as i64 * 2'),
    ('int_to_string', 'x.to_string().len() as i64 + format!("{:05}", x).len() as i64 * 100'), ('int_casts', '(x as u8) as i64 + (x as i32) as i64 + (x as u64 >> 60) as i64 + (x as f64) as i64 % 1000 + (y as i8) as i64'), ('int_try_from', 'u8::try_from(x).map(|v| v as i64).unwrap_or(-1) + usize::try_from(x).map(|v| v as i64 % 1000).unwrap_or(-2) + i32::try_from(y).map(|v| v as i64).unwrap_or(-3)'),
    ('int_from_str_radix', 'i64::from_str_radix(&format!("{:x}", x.unsigned_abs() % 4096), 16).unwrap_or(-1)'), ('int_float_ops', '(x as f64).abs().sqrt().floor() as i64 + ((x as f64) / 2.0).ceil() as i64 + ((x as f64) / 3.0).round() as i64 + ((y as f64) / 7.0).trunc() as i64'),
    ('int_float_minmax', '(x as f64).max(y as f64) as i64 + (x as f64).min(1.5) as i64 * 3 + (x as f64).powi(2) as i64 % 1000'), ('int_float_cmp', '((x as f64) < (y as f64)) as i64 + (x as f64).partial_cmp(&(y as f64)).map(|o| o as i64).unwrap_or(9) * 2 + ((x as f64) / 0.0).is_infinite() as i64 * 8'),
    ('int_shift_mask', '((x as u64) >> 3) as i64 ^ ((x as u64) << 2) as i64 ^ (x & 0xff) ^ (x | 1) ^ (!x & 7)'), ('int_div_rem', 'if y != 0 && !(x == i64::MIN && y == -1) { x / y * 10 + x % y } else { -1 }'), ('int_ordering', 'x.cmp(&y) as i64 + x.partial_cmp(&y).map(|o| o as i64).unwrap_or(7) * 3 + (x.cmp(&y).reverse() as i64) * 9 + x.cmp(&y).then(y.cmp(&x)) as i64 * 27'),
    ('int_range_contains', '(0..10).contains(&x) as i64 + (-3..=3).contains(&y) as i64 * 2'), ('int_usize_sub', '{ let z = (x.unsigned_abs() % 10) as usize; z.saturating_sub(3) as i64 + z.checked_sub(3).map(|v| v as i64).unwrap_or(-1) * 10 + z.wrapping_sub(11) as i64 % 1000 * 100 }'),
    ('int_power_of_two', '{ let z = (x.unsigned_abs() % 70) as usize; z.is_power_of_two() as i64 + z.next_power_of_two() as i64 * 2 }'), ('int_sum_range', '(x.min(50).max(0)..(x.min(50).max(0) + 4)).map(|i| i * i).sum::<i64>()'),
]:
    add('II', name, e)
# ---- char
for name, e in [
    ('char_classes', 'c.is_alphabetic() as i64 + c.is_alphanumeric() as i64 * 2 + c.is_numeric() as i64 * 4 + c.is_whitespace() as i64 * 8 + c.is_ascii() as i64 * 16 + c.is_ascii_punctuation() as i64 * 32 + c.is_ascii_uppercase() as i64 * 64 + c.is_ascii_lowercase() as i64 * 128'),
    ('char_classes2', 'c.is_ascii_hexdigit() as i64 + c.is_ascii_whitespace() as i64 * 2 + c.is_ascii_control() as i64 * 4 + c.is_ascii_graphic() as i64 * 8 + c.is_control() as i64 * 16 + c.is_uppercase() as i64 * 32 + c.is_lowercase() as i64 * 64 + c.is_ascii_digit() as i64 * 128 + c.is_ascii_alphabetic() as i64 * 256 + c.is_ascii_alphanumeric() as i64 * 512'),
    ('char_case', 'c.to_ascii_uppercase() as i64 + c.to_ascii_lowercase() as i64 * 1000 + c.to_uppercase().count() as i64 * 1000000 + c.to_lowercase().next().map(|x| x as i64).unwrap_or(0) % 7'), ('char_digit', 'c.to_digit(10).map(|d| d as i64).unwrap_or(-1) + c.to_digit(16).map(|d| d as i64).unwrap_or(-1) * 100'),
    ('char_len', 'c.len_utf8() as i64 + c.len_utf16() as i64 * 10 + c.encode_utf8(&mut [0; 4]).len() as i64 * 100 + c.to_string().len() as i64 * 1000'), ('char_from', 'char::from_digit((c as u32) % 12, 10).map(|x| x as i64).unwrap_or(-1) + char::from_u32(c as u32 + 1).map(|x| x as i64).unwrap_or(-1) * 1000 + char::from(c as u8) as i64'),
    ('char_eq_ignore', 'c.eq_ignore_ascii_case(&\'a\') as i64 + (c as u8).is_ascii_digit() as i64 * 2 + (c == \'Z\') as i64 * 4 + (c < \'a\') as i64 * 8'), ('char_u8_methods', '(c as u8).is_ascii_alphabetic() as i64 + (c as u8).is_ascii_whitespace() as i64 * 2 + (c as u8).to_ascii_uppercase() as i64 * 4'),
]:
    add('C', name, e)

SIG = {'OO': '(o: Option<i64>, p: Option<i64>)', 'RR': '(r: Result<i64, String>, q: Result<i64, String>)', 'VV': '(v: &[i64], w: &[i64])', 'MV': '(v: &mut Vec<i64>, w: &[i64])', 'SS': '(s: &str, t: &str)',
       'MS': '(o: &mut String, s: &str)', 'II': '(x: i64, y: i64)', 'C': '(c: char)'}
lib = ['#![allow(unused, clippy::all)]']
for name, kind, e in P:
    lib.append('pub fn %s%s -> i64 { %s }' % (name, SIG[kind], e))
open(os.path.join(HERE, 'src', 'lib.rs'), 'w').write('\n'.join(lib) + '\n')
main = ['use stdprobe::*;', 'use std::panic::{catch_unwind, AssertUnwindSafe};', 'fn show(r: std::thread::Result<i64>) -> String { match r { Ok(v) => v.to_string(), Err(_) => "PANIC".to_string() } }', 'fn main() {', '    std::panic::set_hook(Box::new(|_| {}));',
        '    let opts = [None, Some(0), Some(1), Some(5), Some(-3)];', '    let ress: [Result<i64, String>; 4] = [Ok(0), Ok(3), Err("".to_string()), Err("bad".to_string())];',
        '    let vs: [&[i64]; 6] = [&[], &[1], &[1, 2, 3], &[-2, 0, 5, 1, 1], &[3, 3, 9, 10, -1, 4], &[2, 1]];',
        '    let ss = ["", "a", "a=b,c", "  x y \\n z  ", "ab,ab:cd=ef=gh", "Hello, World", "xa,b\\tcx", "12", "héllo wörld=é", "-7", " 3.5 "];', '    let ts = ["a", "ab", "x", ""];',
        '    let ints = [0i64, 1, -1, 7, -8, 100, i64::MAX, i64::MIN, 255, -129, 1 << 40];', '    let chars = [\'a\', \'Z\', \'5\', \' \', \'\\n\', \'f\', \'~\', \'é\', \'\\u{7f}\', \'_\', \'G\', \'\\t\', \'日\'];']
for name, kind, e in P:
    if kind == 'OO':
        main.append('    for o in opts { for p in opts { println!("%s|{:?}|{:?} -> {}", o, p, show(catch_unwind(|| %s(o, p)))); } }' % (name, name))
    elif kind == 'RR':
        main.append('    for r in ress.iter() { for q in ress.iter() { println!("%s|{:?}|{:?} -> {}", r, q, show(catch_unwind(|| %s(r.clone(), q.clone())))); } }' % (name, name))
    elif kind == 'VV':
        main.append('    for v in vs.iter() { for w in vs.iter() { println!("%s|{:?}|{:?} -> {}", v, w, show(catch_unwind(|| %s(v, w)))); } }' % (name, name))
    elif kind == 'MV':
        main.append('    for v in vs.iter() { for w in vs.iter() { let mut vv = v.to_vec(); let r = show(catch_unwind(AssertUnwindSafe(|| %s(&mut vv, w)))); println!("%s|{:?}|{:?} -> {} {:?}", v, w, r, vv); } }' % (name, name))
    elif kind == 'SS':
        main.append('    for s in ss.iter() { for t in ts.iter() { println!("%s|{:?}|{:?} -> {}", s, t, show(catch_unwind(|| %s(s, t)))); } }' % (name, name))
    elif kind == 'MS':
        main.append('    for s in ss.iter() { for o0 in ["", "seed", "héé"].iter() { let mut o = o0.to_string(); let r = show(catch_unwind(AssertUnwindSafe(|| %s(&mut o, s)))); println!("%s|{:?}|{:?} -> {} {:?}", o0, s, r, o); } }' % (name, name))
    elif kind == 'II':
        main.append('    for x in ints { for y in ints { println!("%s|{}|{} -> {}", x, y, show(catch_unwind(|| %s(x, y)))); } }' % (name, name))
    elif kind == 'C':
        main.append('    for c in chars { println!("%s|{} -> {}", c as u32, show(catch_unwind(|| %s(c)))); }' % (name, name))
main.append('}')
open(os.path.join(HERE, 'src', 'main.rs'), 'w').write('\n'.join(main) + '\n')
json.dump([{'name': n, 'kind': k} for n, k, _ in P], open(os.path.join(HERE, 'probes.json'), 'w'), indent=0)
print(len(P), 'probes')
