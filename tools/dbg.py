"""tools/dbg.py <check> <harness-fn> '<case-json>' [fuel] [max_paths] — run one case in-process, print each path's record"""
import json, os, sys, threading, time
sys.path.insert(0, '/verif/engine'); sys.path.insert(0, '/verif/checks')
sys.setrecursionlimit(400000); threading.stack_size(1024 * 1024 * 1024)
import world, importlib
from mirsym import explore as ex

def main():
    mod = importlib.import_module(sys.argv[1])
    h = getattr(mod, sys.argv[2])
    case = json.loads(sys.argv[3])
    fuel = int(sys.argv[4]) if len(sys.argv) > 4 else 50_000_000
    maxp = int(sys.argv[5]) if len(sys.argv) > 5 else 20
    d = world.prepare(log=lambda m: None)
    prog = world.load_program(d)
    work = [[]]
    n = 0
    while work and n < maxp:
        p = work.pop()
        t0 = time.time()
        rec, new = ex._run_one(prog, h, case, p, fuel)
        work.extend(new); n += 1
        rec.pop('_funcs', None); bi = rec.pop('_builtins', None)
        print(json.dumps({k: (v if k != 'sample' else v) for k, v in rec.items() if k not in ('case',)}, default=str)[:3000])
    print('paths', n, 'left', len(work))
th = threading.Thread(target=main); th.start(); th.join()
