"""Single source for MANIFEST.json: per property either a claimed check or a not-applicable reason."""
ENGINE_M = 'mirsym'
CHECKS = {
    'C02': dict(
        category='model_checking',
        text='Bounded symbolic model checking of the real precedence parser: every chain of 1..3 (quick) / 1..4 (thorough) binary operators, '
             'operator kinds symbolic, is executed from the working tree\'s MIR; on every path z3 decides that the resulting tree is the '
             'grouping the published table prescribes. Right level because the property is a finite-structure claim over an 18-symbol alphabet: '
             'the solver covers all 18^n chains per length, which the ~20 sampled chains of the test suite cannot.',
        design_ref='DESIGN.md 4/C02',
        note='Trusted: rustc MIR dump = the code; std/alloc calls on the path are abstract-datatype builtins (evidence lists them); '
             'oracle = table parsed from docsite reference at run time. Outside: chains longer than the bound, operand parsing.',
        technique='symbolic execution of rustc MIR with path forking + z3 validity query per path (bounded: chain length)'),
}
NOT_APPLICABLE = {
}
ALL = ['C%02d' % i for i in range(1, 21)]
PENDING_REASON = 'check not built yet in this round (engine mirsym exists; harness pending) — not claimed until it runs clean on the unchanged tree'
