"""Single source for MANIFEST.json: per property either a claimed check or a not-applicable reason."""
ENGINE_M = 'mirsym'
CHECKS = {
    'C02': dict(
        category='model_checking',
        text='Bounded symbolic model checking of the real precedence parser: every chain of 1..3 (quick) / 1..4 (thorough) binary operators, '
             'operator kinds symbolic, is executed from the working tree\'s MIR; on every path z3 decides that the resulting tree is the '
             'grouping the published table prescribes. Right level because the property is a finite-structure claim over an 18-symbol alphabet: '
             'the solver covers all 18^n chains per length, which the ~20 sampled chains of the test suite cannot. Second family (tokens): the real statement parser on token lists whose operator tokens carry symbolic '
             'fragment bytes between 22 compound operand forms (grouped, list, call, select, `not ...`): each operator is the one spelled, the grouping is the table\'s and does not depend on the operand forms.',
        design_ref='DESIGN.md 4/C02',
        note='Trusted: rustc MIR dump = the code; std/alloc calls on the path are abstract-datatype builtins (evidence lists them); '
             'oracle = table parsed from docsite reference at run time. Outside: chains longer than the bound, operand parsing.',
        technique='symbolic execution of rustc MIR with path forking + z3 validity query per path (bounded: chain length)'),
}
CHECKS['C08'] = dict(
    category='model_checking',
    text='Bounded symbolic model checking of the real env/flags/exec converters and the two shell-escaping helpers: tuples of up to 3 (quick) / 4 (thorough) '
         'fields of every kind, string values of up to 3 / 5 symbolic bytes; the symbolic output is tokenised by a POSIX-shell oracle whose obligations '
         '(every input byte literal inside its quotes, each scalar exactly one word, nothing swallowed or merged) are discharged by z3 on every path. '
         'The solver covers all byte values per length, not the nine-letter alphabet a test could enumerate; counterexamples are judged by real /bin/sh and bash.',
    design_ref='DESIGN.md 4/C08',
    note='Trusted: MIR = code; std builtins incl. forking str::replace; shell model (validated against sh/bash on witnesses each run; real shells judge every alarm). '
         'Outside: field names that are not shell identifiers, bytes >= 0x80 and NUL, run-time behaviour of exec.',
    technique='symbolic execution of rustc MIR over symbolic bytes + z3-discharged shell-tokenisation obligations (bounded: bytes, fields)')
CHECKS['C04'] = dict(
    category='model_checking',
    text='Panic-freedom of the translator+VM kernels named in the evidence, within bounds: one-statement programs whose i64/f64/string leaves are symbolic '
         '(all arithmetic, comparison and cast operators, ranges with a bounded trip count, symbolic list indices, format templates of up to 3/4 symbolic bytes with '
         '0..2 arguments). Every MIR assert (overflow, division, bounds), unwrap and panic! on the path is a reachability query for z3, which returns the operands '
         '(i64::MIN / -1, ranges ending at i64::MAX, "@@" % (1)) no sampled test contains. Second family: 1..2/3 fully symbolic ASCII bytes (0x01..0x7f) spliced into 11 contexts (empty file, after `let a =`, inside a list, a string, a tuple field name, a parameter list, a selector, a float fraction, a format template, ...) through the real tokenizer, parser and, where the text parses, FileBuilder::eval_stmts: every panic site reachable for some byte values is a counterexample. Third family (bounded execution, no solver): the real parser\'s MIR step count for nesting depth 1..5/7 of lists, tuples, parentheses, call arguments and select arms must grow linearly — a stand-in for termination, which symbolic execution cannot decide; it found (and now guards) an exponential grammar. General termination and stack depth are not claimed.',
    design_ref='DESIGN.md 4/C04',
    note='Trusted: MIR = code (dev profile, overflow checks on); std builtins. Outside: non-termination, stack exhaustion, arbitrary 4 KiB text, token mutations of corpus files, exit status.',
    technique='symbolic execution of rustc MIR with z3 reachability queries on every panic site (bounded: statement shape, trip counts, template length)')
CHECKS['C01'] = dict(
    category='translation_validation',
    text='Translation validation of the real translator + VM against a definitional evaluator written from the reference: ~120 program skeletons (12 families: operators, '
         'nesting/operand order, short-circuit, select, data/selectors/in/is, functions and closures, copy/self, modules, map/filter/reduce over lists, tuples and strings, '
         'ranges, statement sequences) are parsed by the real parser, their integer literals made symbolic (BitVec 64), compiled and run from MIR; on every path z3 decides '
         'pc => binding == reference value for every binding, and that success/failure agree. Symbolic leaves cover all operand values per skeleton, which fixed-operand tests cannot.',
    design_ref='DESIGN.md 4/C01',
    note='Trusted: MIR = code; std builtins; the oracle (oracle/ucg_semantics.py), itself validated against the repo\'s integration tests. Outside: programs beyond the skeletons, regex operators, casts, '
         'format text, import/include/out/convert, float rendering.',
    technique='symbolic execution of rustc MIR vs definitional evaluator, z3 validity query per binding per path (bounded: skeleton structure)')
CHECKS['C10'] = dict(
    category='model_checking',
    text='Scoping skeletons (parameters, format item, module bodies, later top-level bindings colliding with outer names) compared with the definitional evaluator over symbolic leaves; '
         'every skeleton is additionally run cut at every statement boundary and z3 decides that each binding of the prefix has the same value in the full run (immutability); '
         'every documented reserved word (list parsed from the reference) must be rejected as a binding name by the real parser or VM.',
    design_ref='DESIGN.md 4/C10',
    note='Trusted: MIR = code; std builtins; oracle evaluator; reserved-word list = reference/_index.md. Outside: programs beyond the skeletons; imports.',
    technique='symbolic execution of rustc MIR; relational prefix/full check and oracle comparison decided by z3 (bounded: skeletons)')
CHECKS['C18'] = dict(
    category='model_checking',
    text='The real translator + VM run `env.NAME` programs (top level, inside a function, inside a module) against environments of 0..3 variables whose values are symbolic byte strings, '
         'strict and non-strict: z3 decides that a set variable evaluates byte-for-byte to its value, an unset one is NULL (non-strict) or an error that names it (strict); disclosure of other '
         'variables is decided as taint on the error value (format! arguments are kept); `let env` is rejected and a field named env selects the field.',
    design_ref='DESIGN.md 4/C18',
    note='Trusted: MIR = code; std builtins. Family main runs the binary\'s real main() (clap and home_dir stubbed, std::env::vars yields the harness environment with values of 0..2 symbolic bytes). Outside: non-UTF-8 values, unusual names in family main.',
    technique='symbolic execution of rustc MIR with symbolic environment values; equality by z3, disclosure by taint on the error value (bounded: variables, bytes)')
CHECKS['C13'] = dict(
    category='model_checking',
    text='The binary crate\'s real test_command -> visit_ucg_files -> do_validate -> build_file -> FileBuilder::build (parser, type checker, translator, VM, assert hook, collector) is executed '
         'from MIR for 1..3 files with 0..3 assertions each in every combination of forms (true/false symbolic, malformed, preceded/followed by a build error); per path z3-determined outcomes '
         'give the reference verdicts: Pass iff the file builds and all its own assertions hold, every assertion exactly once in that file\'s log, exit(1) iff some file failed, independent of earlier files.',
    design_ref='DESIGN.md 4/C13',
    note='Trusted: MIR = code; virtual file system, stdout and process::exit stubs; clap::ArgMatches stand-in. Directory trees under -r with the listing order a symbolic permutation; two test files sharing an import (relational). Outside: other stdout layout.',
    technique='symbolic execution of the binary crate\'s MIR with symbolic assertion outcomes; z3 decides outcomes per path; replay with the real ucg binary (bounded: files, assertions)')
CHECKS['C14'] = dict(
    category='model_checking',
    text='The binary crate\'s real build_command ... Builtins::out/convert and the real flags/env/exec converters run from MIR on one source file (virtual file system); File::create (= create or truncate) '
         'and writes are recording stubs, integer leaves symbolic. Per path: exactly one artifact named like the source with the converter\'s extension; its bytes equal piece for piece the string '
         '`convert` yields in the same program; a second out fails; and no create event on any failing path (all or nothing), including failures guarded by a symbolic condition.',
    design_ref='DESIGN.md 4/C14',
    note='Trusted: MIR = code; io stubs; std builtins. Outside: bytes on disk / partial writes; json, yaml, toml, xml converters in this harness (C03/C12 cover their value mapping).',
    technique='symbolic execution of the binary crate\'s MIR; obligations over the recorded create/write events decided per path; replay with the real binary over a pre-existing artifact')
CHECKS['C16'] = dict(
    category='model_checking',
    text='The binary crate\'s real build_command is executed from MIR on small projects (entry files with out statements, a shared library, a file that is both built and imported, failing and '
         'conditionally failing files; symbolic integer leaves) for every ordered pair and selected/all triples of files, with one shared Environment (opcode, value and shape caches, output locks) — '
         'and each file alone with a fresh one. Relational obligation per path: same success/failure and piece-identical artifact bytes per file in the batch as alone; exit status consistent.',
    design_ref='DESIGN.md 4/C16',
    note='Trusted: MIR = code; io stubs; a fresh Environment stands for a fresh process; std builtins. Outside: artifacts on disk, separate invocations, directory recursion, diagnostics text.',
    technique='symbolic execution of the binary crate\'s MIR; relational batch-vs-alone check over recorded events, decided per path; replay with the real binary (bounded: project, batch length)')
CHECKS['C09'] = dict(
    category='model_checking',
    text='(1) the real AST::translate (Rewriter driven by the real Walker) on programs placing a relative import / include at ~40 syntactic positions: no relative spelling may survive in the compiled form; '
         '(2) the real path::normalize on absolute paths of up to 4/5 components whose kinds are symbolic decisions, against a stack-machine reference (idempotence, equal results for equivalent spellings); '
         '(3) the real import hook, value cache, import stack, opcode cache and the static checker\'s import resolution through real builds on a virtual file system: one read + one evaluation per file under '
         'any spelling (TRACE count), import cycles (incl. respelled ones) end in a cycle diagnostic, never in unbounded recursion.',
    design_ref='DESIGN.md 4/C09',
    note='Trusted: MIR = code; std::path builtins over a component list; virtual file system. Outside: real directory trees and cwd (exercised only in replay), symlinks.',
    technique='symbolic execution of rustc MIR (Rewriter/Walker, normalize with symbolic component kinds, import hook); call-depth bound hits are replayed natively (bounded: positions, components, projects)')
CHECKS['C06'] = dict(
    category='model_checking',
    text='Files with constrained let bindings are built by the binary crate\'s real build path (parser, static checker with Shape::narrow, translator, VM op_build/check_constraint, ConstraintVal::check) from MIR. '
         'Range bounds, alternatives and the bound value are symbolic i64: z3 decides per path that the build succeeds iff the value conforms (inclusive bounds, half-open forms, alternations of exact values '
         'and ranges, the same constraint behind a `constraint` name, a computed value) — it finds lo-1, lo, hi, hi+1 itself. Float bounds at concrete boundary values; ~340 exemplar/value shape pairs '
         '(primitives, NULL, tuples, lists, nesting 2, inline and named) against the three documented compatibility rules.',
    design_ref='DESIGN.md 4/C06',
    note='Trusted: MIR = code; io stubs; std builtins; oracle predicates. Outside: recursive constraints, func/module shapes as exemplars, symbolic float bounds; constraints on tuple fields / function and module parameters (the property speaks of let bindings).',
    technique='symbolic execution of the binary crate\'s MIR with symbolic bounds/values; z3 validity of build-succeeds <=> conforms per path; replay with the real binary (bounded: forms, shape grammar)')
CHECKS['C17'] = dict(
    category='model_checking',
    text='Multi-line programs with exactly one injected fault (12 run-time fault kinds incl. a symbolic out-of-range index and a symbolic zero divisor, 7 syntax faults) at every statement position and nesting slot '
         '(direct, tuple field, list element, call argument, select arm, binary operand, function body called from another statement) are run through the real parser, translator and VM from MIR. Per path: '
         'the error\'s primary line lies inside the faulting statement\'s source span; a fault in a function body lists a position of the calling statement in its call stack; and inserting unrelated statements '
         'before moves the reported line by exactly the number of inserted lines (same column).',
    design_ref='DESIGN.md 4/C17',
    note='Trusted: MIR = code; std builtins. Outside: rendered diagnostic text, multi-file VIA chains, errors reported only by the static checker, columns inside multi-line statements.',
    technique='symbolic execution of rustc MIR on fault-injected programs; span/call-stack/shift obligations decided per path; native replay (bounded: fault kinds x slots x positions)')
CHECKS['C03'] = dict(
    category='model_checking',
    text='The real json / yaml / toml / yamlmulti value mapping (convert_value, convert_tuple, convert_list, write, yamlmulti::convert) is executed from MIR on Val trees whose node kinds are symbolic decisions '
         '(depth 1 quick / 2 thorough, 0..2/3 children) and whose scalars are symbolic (i64, f64 as IEEE FP terms, bool, string byte). z3 decides that the serde value handed to the serialiser is isomorphic to the '
         'input — same nesting, order, key set, identical strings/booleans/nulls and exactly equal numbers (an integer routed through f64 must survive the round trip) — that Err is returned exactly for NULL under '
         'TOML and non-finite floats under JSON, and that yamlmulti separates consecutive documents with a marker.',
    design_ref='DESIGN.md 4/C03',
    note='Trusted: MIR = code; serde/toml value constructors and maps are abstract builtins; the serialisers\' text emission and any decoder are third-party code and outside the claim (replay still decodes the real output with python json / tomllib). Outside: Env and Constraint values, key quoting, string forms that look like other scalars.',
    technique='symbolic execution of rustc MIR over symbolically chosen tree shapes with symbolic scalars; z3 (BV + FP) decides isomorphism incl. exact numeric equality; replay through the real converter and an independent decoder')
CHECKS['C12'] = dict(
    category='model_checking',
    text='The real xml converter (write, write_node, get_*_val) is executed from MIR with xml-rs\' EventWriter::write and XmlEvent builders as recording builtins. Document descriptions come from symbolic decisions: '
         'declaration header (version absent/1.0/1.1/other/non-string, encoding, standalone, root absent/element/string/other) and element trees (depth 2 quick / 3 thorough) whose nodes are elements, {text=} tuples, '
         'bare strings, other values or name+text tuples, with attrs absent/NULL/tuple(0..2 entries Str/NULL/non-string)/non-tuple, ns absent/string/{prefix,uri} with NULLs, children absent/NULL/list/non-list; text and '
         'attribute values symbolic bytes. Per path the recorded event sequence must equal the reference traversal (byte-identical values by z3) and every malformed kind must return Err.',
    design_ref='DESIGN.md 4/C12',
    note='Trusted: MIR = code; xml-rs entry points are recording builtins. Outside (third-party, not encoded): escaping, well-formedness and indentation of the text xml-rs prints; name validity.',
    technique='symbolic execution of rustc MIR over symbolically chosen document skeletons; event-sequence equality (z3 for text) per path (bounded: depth, children, attributes)')
CHECKS['C15'] = dict(
    category='model_checking',
    text='(1) The real json/yaml/toml importers run from MIR with the third-party decoder replaced by a stub returning a planted serde value tree whose node kinds are symbolic decisions (depth 1 quick / 2 thorough) and whose '
         'numbers are symbolic in every representation (i64, u64, finite f64): z3 decides that the resulting Val is isomorphic — integers that fit i64 stay integers of equal value, every other number becomes a float of equal '
         'value, strings/booleans/nulls identical, order and keys kept. (2) The real include hook through whole programs on the virtual file system: include str yields the file\'s (symbolic) bytes unchanged; b64 / b64urlsafe call '
         'the standard / URL-safe engine on exactly those bytes; unknown include types, importer errors and missing files are build errors; the decoded value reaches the program.',
    design_ref='DESIGN.md 4/C15',
    note='Trusted: MIR = code; planted decoder results; base64 encode as an opaque piece. Outside (third-party, not encoded): the decoders themselves and base64; YAML anchors, merge keys, tags, non-string keys; empty files.',
    technique='symbolic execution of rustc MIR over symbolically chosen serde value trees with symbolic numbers; z3 decides isomorphism and integer/float classification (bounded: depth, children)')
CHECKS['C11'] = dict(
    category='model_checking',
    text='The real tokenizer (tokenize, token alternation, escapequoted, comment/whitespace handling) over the real OffsetStrIter and abortable_parser\'s StrIter, all from MIR. (1) inputs of 2..3 symbolic bytes over the 14 operator '
         'characters: on every path z3 enumerates every byte assignment consistent with the path condition and the token boundaries and positions must be those of a longest-match lexer over the documented operators (all 14^2 + 14^3 '
         'inputs are covered by 2.5k paths); (2) string literals of 1..2/3 symbolic ASCII bytes (any value: backslash, quote, control characters): z3 decides that the value equals the reference decoding; concrete 2/3/4-byte UTF-8 scalars '
         'must survive byte for byte; (3) every ordered pair of vocabulary tokens under 8 separators (none, blank, tab, LF, CRLF, blank line, comments): same token sequence for all, and (line, column, offset) equal the position computed from the prefix.',
    design_ref='DESIGN.md 4/C11',
    note='Trusted: MIR = code; std builtins. Outside: sequences of 40 tokens, arbitrary Unicode beyond the listed scalars, the parser on the token stream.',
    technique='symbolic execution of rustc MIR on symbolic bytes; per path all consistent byte assignments enumerated by z3 (blocking clauses) against longest-match / escape-decoding oracles; native replay (bounded: bytes, token pairs)')
CHECKS['C05'] = dict(
    category='model_checking',
    text='The real AstPrinter (every render arm, comment-group logic) and the real tokenizer + parser run from MIR. (1) One skeleton per expression/statement kind is parsed one token per line by the real parser; then every Position.line of the tree '
         'becomes a symbolic line number (monotone, gaps 0..3) and 1..2 comment groups sit on symbolic lines (own line, trailing, two-line group): the printer\'s line comparisons fork the run and z3 decides which orders of comments and nodes are feasible, so '
         'each path stands for every layout with that order. Per path the output must re-parse (real parser) to the same tree modulo positions/field quoting, keep every comment in order, and re-format to itself when its comments sit between statements. '
         '(2) String literals and quoted field names of 1..2/3 symbolic bytes: printed (escape_quotes, is_bareword) and read back by the real parser on the symbolic output; z3 decides equality. (3) ~37 concrete literal/comment forms and the repository\'s .ucg files '
         '(engine for a sample, natively for all 70+: concrete differential, also validating the engine against the real printer).',
    design_ref='DESIGN.md 4/C05',
    note='Trusted: MIR = code; std builtins; the harness-built comment map for symbolic lines (one group per comment; models replayed natively). Outside: columns and indentation of the input, more than 2 comment groups, generator programs beyond the skeletons, the -w overwrite path.',
    technique='symbolic execution of rustc MIR (AstPrinter over trees with symbolic line numbers and symbolic string bytes, real parser on the output); z3 decides feasible comment/node orders and byte equality; native replay (bounded: skeletons, comments, bytes)')
CHECKS['C07'] = dict(
    category='model_checking',
    text='Relational check of the real checker against the real evaluator, both from MIR: every C01 skeleton plus ~90 skeletons of documented-valid constructs (map/filter/reduce over let-bound lists, tuples, strings and parameters; calls and copies '
         'through tuple fields; nested and computed selectors; modules; format; ranges; casts; polymorphic and higher-order functions) is run through FileBuilder::eval_stmts (no checker) and through FileBuilder::build of the same text as a file '
         '(parser, Checker, translator, VM) with the same symbolic integer leaves. On every path where plain evaluation completes the build must succeed and bind equal values (z3 validity). The test suite has no "accepts what runs" oracle at all.',
    design_ref='DESIGN.md 4/C07',
    note='Trusted: MIR = code; virtual file system; std builtins. Outside: programs beyond the skeletons, imports, constraint annotations (excluded by the property), diagnostics text.',
    technique='symbolic execution of rustc MIR — relational eval_stmts vs build over symbolic integer leaves; z3 decides path feasibility and value equality; replay with the real binary (bounded: skeletons)')
CHECKS['C19'] = dict(
    category='model_checking',
    text='Each case is a small file that imports std/*.ucg and calls one helper, built by the real FileBuilder::build (parser, checker, translator, VM, the standard library pre-translated by the real Environment::new_with_vars), all from MIR. '
         'List elements, tuple values and enumerate start/step are symbolic i64, so one run decides a helper for every element value; lengths (0..4 quick / 0..6 thorough), every in-range inclusive slice/substr index pair, split_at indices, NULL patterns, '
         'mixed element types, strings (ASCII and Unicode) and separators of 1..2 characters are enumerated. Per path z3 decides result == reference definition (len, reversed, l[1:], zip to the shorter, l[s:e+1], sep.join, str.split, '
         'split-then-join identity, dict filters, maybe monad laws, schema shape rules). 458 / 1131 cases.',
    design_ref='DESIGN.md 4/C19',
    note='Trusted: MIR = code; virtual file system; std builtins; the Python reference definitions. Outside: out-of-range indices (undocumented), longer lists/strings, parse_int without leading digits, schema shapes beyond the listed pairs.',
    technique='symbolic execution of rustc MIR (FileBuilder::build with the real standard library) over symbolic element values; z3 decides result == reference per path; replay with the real binary via out json (bounded: lengths, strings)')
CHECKS['C20'] = dict(
    category='model_checking',
    text='Kernel-level check of the language server; the JSON-RPC loop (lsp_server, channels, threads, serde) cannot be encoded and is exercised only by native replay. From MIR (ucglib plus the lsp-types crate\'s own MIR for its structs, Default impls and '
         'constants): (1) analysis::analyze on 30 document texts (valid, type errors, syntax/token errors, empty, CRLF, non-ASCII, multi-line strings): no panic, a syntax diagnostic exactly when the real parser rejects and at its position, no diagnostics on a text the real '
         'FileBuilder::build accepts, ranges inside the document; (2) find_hover, find_definition, collect_completions, token_at, token_prefix_at, cursor_in_string with symbolic (line, character) over all of u32 x u32: z3 decides reachability of every panic site and every '
         'answered range must lie inside the document; (3) encode_semantic_tokens delta decoding stays inside each line; (4) ServerState::update_document over 44/92 open/change sequences on 1..2 documents equals a fresh state on the final text.',
    design_ref='DESIGN.md 4/C20',
    note='Trusted: MIR = code; url::Url as an opaque string; std builtins. Outside: the message loop itself (malformed/unknown messages, interleavings, liveness beyond the replayed sessions), workspace symbols, didClose, documents importing each other while edited.',
    technique='symbolic execution of rustc MIR (analysis and request kernels) with symbolic cursor positions over u32 x u32; z3 decides reachability of every panic site; replay against the real `ucg lsp` over stdio (bounded: documents, sessions)')
NOT_APPLICABLE = {
}
ALL = ['C%02d' % i for i in range(1, 21)]
PENDING_REASON = 'check not built yet in this round (engine mirsym exists; harness pending) — not claimed until it runs clean on the unchanged tree'
