"""tools/unresolved.py — static scan: callees of every function the checks have executed (evidence/*.json functions_encoded)
that resolve to neither MIR nor a builtin. These are call sites that would make a path inconclusive if a run reached them."""
import glob, json, os, re, sys, collections
sys.path.insert(0, '/verif/engine')
import world
from mirsym import interp, mir
d = world.prepare(log=lambda m: None)
prog = world.load_program(d)
world.load_lsp(prog, d)
touched = set()
for f in glob.glob('/verif/evidence/C*.json'):
    touched.update(json.load(open(f))['coverage'].get('functions_encoded', []))
miss = collections.Counter()
where = {}
for name in sorted(touched):
    f = prog.funcs.get(name)
    if f is None:
        continue
    if not f.parsed:
        mir.parse_body(f)
    for bb, stmts in f.blocks.items():
        for st in stmts:
            if st[0] != 'call':
                continue
            callee = st[2] if len(st) > 2 else None
            if not isinstance(callee, str) or callee.startswith(('move ', 'copy ')):
                continue
            try:
                tgt = interp.resolve(prog, callee)
            except Exception as e:
                tgt = ('error', str(e))
            if tgt[0] == 'none':
                n = interp.parse_callee(callee)['norm']
                miss[n] += 1
                where.setdefault(n, name)
for n, c in miss.most_common(int(sys.argv[1]) if len(sys.argv) > 1 else 80):
    print('%3d  %s    (e.g. in %s)' % (c, n, where[n]))
print(len(miss), 'distinct unresolved callees in', len(touched), 'functions')
