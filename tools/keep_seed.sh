#!/bin/sh
# tools/keep_seed.sh <PROPERTY> <N> <worktree>  — confirm a sub-agent's seeded change myself and keep it under seeded/<PROP>-<N>/
# (tests pass with the change; demo fails with it and passes without it), then run the property's check against it.
set -u
P=$1; N=$2; WT=$3
D=/verif/seeded/$P-$N
mkdir -p $D
cd $WT || exit 1
export CARGO_NET_OFFLINE=true CARGO_TARGET_DIR=$WT/target
cp -r seed/. $D/
LOG=$D/confirm.log
: > $LOG
echo "== tests with the change" >> $LOG
cargo test --workspace --no-fail-fast --offline 2>&1 | grep -E '^test result' | head -1 >> $LOG
cargo build --offline >/dev/null 2>&1
DEMO=""
for f in demo.sh run_demo.sh; do [ -f seed/$f ] && DEMO=seed/$f; done
if [ -n "$DEMO" ]; then
  echo "== demo with the change (expected to fail)" >> $LOG
  (bash $DEMO >/dev/null 2>&1; echo "demo exit $?") >> $LOG
  git apply -R seed/patch.diff && cargo build --offline >/dev/null 2>&1
  echo "== demo without the change (expected to pass)" >> $LOG
  (bash $DEMO >/dev/null 2>&1; echo "demo exit $?") >> $LOG
  git apply seed/patch.diff
fi
git -C /repo apply --check $D/patch.diff || { echo "patch does not apply to /repo" >> $LOG; exit 1; }
cd /verif
echo "== ./check $P --tier quick on the worktree with the change (UCG_REPO=$WT; /repo itself stays untouched)" >> $LOG
# the evidence file and replays of the unchanged tree must not be overwritten by a run on a mutated tree
cp evidence/$P.json /tmp/evidence-$P.keep 2>/dev/null
UCG_REPO=$WT ./check $P --tier quick > $D/check_output.txt 2>&1; echo "check exit $?" >> $LOG
cp evidence/$P.json $D/evidence_with_change.json 2>/dev/null
[ -f /tmp/evidence-$P.keep ] && mv /tmp/evidence-$P.keep evidence/$P.json
grep -E 'VIOLATION|OK property|INCONCLUSIVE' $D/check_output.txt | head -5 >> $LOG
cat $LOG
