"""tools/probe_mir.py <file.mir> — every callee in a MIR dump of std-API probe functions that the engine can resolve neither to MIR nor to a builtin"""
import collections, re, sys
sys.path.insert(0, '/verif/engine')
import world
from mirsym import interp, mir
d = world.prepare(log=lambda m: None)
prog = world.load_program(d)
funcs, consts = mir.load_mir(sys.argv[1], 'probe')
miss = collections.OrderedDict()
tot = 0
for name, f in funcs.items():
    mir.parse_body(f)
    for bb, stmts in f.blocks.items():
        for st in stmts:
            if st[0] != 'call':
                continue
            callee = st[2]
            if not isinstance(callee, str) or callee.startswith(('move ', 'copy ')):
                continue
            if '{closure' in callee.split('::<')[0] or callee.split('::')[0] in funcs or callee in funcs:
                continue
            tot += 1
            try:
                tgt = interp.resolve(prog, callee)
            except Exception as e:
                tgt = ('none', str(e))
            if tgt[0] in ('none',):
                n = interp.parse_callee(callee)['norm']
                miss.setdefault(n, (name, callee))
print(tot, 'call sites;', len(miss), 'distinct unresolved')
for n, (w, c) in miss.items():
    print('%-70s in %s' % (n[:70], w))
