#!/usr/bin/env python3-vt
import json, os, sys
HERE = os.path.dirname(os.path.abspath(__file__))
sys.path.insert(0, HERE)
import registry as R
VERIF = os.path.dirname(HERE)
hooks_commits = []
hp = os.path.join(VERIF, 'hooks_commits.txt')
if os.path.exists(hp):
    hooks_commits = [l.strip() for l in open(hp) if l.strip()]
m = {
    'version': 1,
    'setup_cmd': './setup.sh',
    'hooks': {
        'guard': 'cfg(ucg_verif) / cfg(kani)',
        'enable': 'RUSTFLAGS="--cfg ucg_verif" (replay/Kani harness wrappers only; engine mirsym needs no hooks: MIR includes private functions)',
        'baseline_off_cmd': 'cd /repo && cargo test --workspace --no-fail-fast --offline',
        'source_commits': hooks_commits,
        'add_only': True,
    },
    'engines': [
        {'name': 'mirsym', 'path': 'engine/mirsym', 'serves_properties': sorted(R.CHECKS),
         'kind_free_text': 'symbolic interpreter for rustc MIR (regenerated from /repo working tree each run) in Python; path forking by re-execution; z3 decides every branch feasibility and every assertion; std modelled as abstract datatypes'},
        {'name': 'native-replay', 'path': 'replay', 'serves_properties': sorted(R.CHECKS),
         'kind_free_text': 'cargo crate with a path dependency on a scratch copy of the working tree; replays solver counterexamples and witnesses against the real code'},
    ],
    'checks': [],
    'not_applicable': [],
    'notes': 'All checks: ./check <ID> --tier quick|thorough. Exit 0 held / 1 VIOLATION / 2 inconclusive. See DESIGN.md.',
}
for pid in R.ALL:
    if pid in R.CHECKS:
        c = R.CHECKS[pid]
        m['checks'].append({
            'property_id': pid,
            'quick_cmd': './check %s --tier quick' % pid,
            'thorough_cmd': './check %s --tier thorough' % pid,
            'evidence_file': 'evidence/%s.json' % pid,
            'replay_cmd_template': './check %s --replay {path}' % pid,
            'engine': c.get('engine', 'mirsym'),
            'level_claimed': {'category': c['category'], 'text': c['text'], 'design_ref': c['design_ref']},
            'level_note': c['note'],
            'technique': c['technique'],
        })
    else:
        m['not_applicable'].append({'property_id': pid, 'reason': R.NOT_APPLICABLE.get(pid, R.PENDING_REASON)})
json.dump(m, open(os.path.join(VERIF, 'MANIFEST.json'), 'w'), indent=1)
import jsonschema
jsonschema.validate(m, json.load(open('/root/.vp/MANIFEST.schema.json')))
for c in m['checks']:
    p = os.path.join(VERIF, c['evidence_file'])
    if os.path.exists(p):
        jsonschema.validate(json.load(open(p)), json.load(open('/root/.vp/EVIDENCE.schema.json')))
print('MANIFEST.json valid: %d checks, %d not applicable' % (len(m['checks']), len(m['not_applicable'])))
