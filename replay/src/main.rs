// Native replay driver: runs one concrete case (JSON on stdin) through the real ucg code and prints the observed
// outcome as JSON. Uses only ucglib's public API (and std::panic::catch_unwind to observe panics).
use std::cell::RefCell;
use std::collections::BTreeMap;
use std::io::Read;
use std::panic;
use std::rc::Rc;

use serde_json::{json, Value as J};
use ucglib::ast::{Expression, Statement, Value};
use ucglib::build::opcode::Environment;
use ucglib::build::{FileBuilder, Val};
use ucglib::convert::ConverterRegistry;
use ucglib::iter::OffsetStrIter;

fn sexpr(e: &Expression) -> String {
    match e {
        Expression::Binary(def) => format!("({:?} {} {})", def.kind, sexpr(&def.left), sexpr(&def.right)),
        Expression::Grouped(inner, _) => format!("(group {})", sexpr(inner)),
        Expression::Simple(v) => match v {
            Value::Int(p) => format!("{}", p.val),
            Value::Symbol(p) => format!("{}", p.val),
            Value::Str(p) => format!("{:?}", p.val),
            Value::Boolean(p) => format!("{}", p.val),
            Value::Float(p) => format!("{:?}f", p.val),
            other => format!("{:?}", other),
        },
        other => format!("<{:?}>", other),
    }
}

/// grouping of an operator chain: operators and `not` are spelled out, every other expression is its start column
fn shape(e: &Expression) -> String {
    match e {
        Expression::Binary(def) => format!("({:?} {} {})", def.kind, shape(&def.left), shape(&def.right)),
        Expression::Not(def) => format!("(not {})", shape(&def.expr)),
        other => format!("@{}", other.pos().column),
    }
}

fn val_to_json(v: &Val) -> J {
    match v {
        Val::Empty => json!({"t": "null"}),
        Val::Boolean(b) => json!({"t": "bool", "v": b}),
        Val::Int(i) => json!({"t": "int", "v": i.to_string()}),
        Val::Float(f) => json!({"t": "float", "v": format!("{:?}", f), "bits": f.to_bits().to_string()}),
        Val::Str(s) => json!({"t": "str", "v": s.as_ref()}),
        Val::List(l) => json!({"t": "list", "v": l.iter().map(|x| val_to_json(x)).collect::<Vec<_>>()}),
        Val::Tuple(fs) => json!({"t": "tuple", "v": fs.iter().map(|(k, x)| json!([k.as_ref(), val_to_json(x)])).collect::<Vec<_>>()}),
        other => json!({"t": "other", "v": format!("{}", other)}),
    }
}

fn eval(src: &str, strict: bool, envs: &BTreeMap<String, String>, validate: bool) -> J {
    let i_paths = Vec::new();
    let out: Vec<u8> = Vec::new();
    let errb: Vec<u8> = Vec::new();
    let mut vars: BTreeMap<Rc<str>, Rc<str>> = BTreeMap::new();
    for (k, v) in envs.iter() {
        vars.insert(Rc::from(k.as_str()), Rc::from(v.as_str()));
    }
    let env = RefCell::new(Environment::new_with_vars(out, errb, vars));
    let mut b = FileBuilder::new("<Eval>", &i_paths, &env);
    b.set_strict(strict);
    if validate {
        b.enable_validate_mode();
    }
    match b.eval_string(src) {
        Ok(v) => {
            let e = b.environment.borrow();
            json!({"ok": true, "val": val_to_json(v.as_ref()), "display": format!("{}", v),
                   "assert_success": e.assert_results.success, "assert_counter": e.assert_results.counter,
                   "assert_summary": e.assert_results.summary.clone(), "assert_failures": e.assert_results.failures.clone()})
        }
        Err(e) => json!({"ok": false, "err": format!("{}", e)}),
    }
}

fn run(case: &J) -> J {
    let kind = case["kind"].as_str().unwrap_or("");
    match kind {
        "parse-pair" => {
            let a = run(&json!({"kind": "parse", "text": case["text"].clone()}));
            let b = run(&json!({"kind": "parse", "text": case["plain"].clone()}));
            json!({"pair": [a, b]})
        }
        "parse" => {
            let text = case["text"].as_str().unwrap();
            match ucglib::parse::parse(OffsetStrIter::new(text), None) {
                Ok(stmts) => {
                    let mut out = Vec::new();
                    for s in stmts.iter() {
                        match s {
                            Statement::Expression(e) => out.push(json!({"stmt": "expr", "sexpr": sexpr(e), "shape": shape(e)})),
                            Statement::Let(d) => out.push(json!({"stmt": "let", "name": d.name.fragment.as_ref(), "sexpr": sexpr(&d.value)})),
                            other => out.push(json!({"stmt": "other", "debug": format!("{:?}", other)})),
                        }
                    }
                    json!({"ok": true, "stmts": out, "debug": format!("{:?}", stmts)})
                }
                Err(e) => json!({"ok": false, "err": format!("{}", e)}),
            }
        }
        "tokenize" => {
            let text = case["text"].as_str().unwrap();
            match ucglib::tokenizer::tokenize(OffsetStrIter::new(text), None) {
                Ok(toks) => json!({"ok": true, "tokens": toks.iter().map(|t| json!({"typ": format!("{:?}", t.typ), "fragment": t.fragment.as_ref(),
                    "line": t.pos.line, "column": t.pos.column, "offset": t.pos.offset})).collect::<Vec<_>>()}),
                Err(e) => json!({"ok": false, "err": format!("{}", e)}),
            }
        }
        "eval" => {
            let mut envs = BTreeMap::new();
            if let Some(m) = case["env"].as_object() {
                for (k, v) in m.iter() {
                    envs.insert(k.clone(), v.as_str().unwrap_or("").to_string());
                }
            }
            eval(case["text"].as_str().unwrap(), case["strict"].as_bool().unwrap_or(true), &envs, case["validate"].as_bool().unwrap_or(false))
        }
        "convert" => {
            // evaluate `text` (a ucg program that binds `v`) and run converter `fmt` on it
            let text = case["text"].as_str().unwrap();
            let fmt = case["fmt"].as_str().unwrap();
            let i_paths = Vec::new();
            let env = RefCell::new(Environment::new(Vec::<u8>::new(), Vec::<u8>::new()));
            let mut b = FileBuilder::new("<Eval>", &i_paths, &env);
            match b.eval_string(text) {
                Ok(_) => {
                    let v: Rc<Val> = match b.get_out_by_name("v") { Some(v) => v.clone(), None => return json!({"ok": false, "err": "no binding named v"}) };
                    let reg = ConverterRegistry::make_registry();
                    match reg.get_converter(fmt) {
                        Some(c) => {
                            let mut buf: Vec<u8> = Vec::new();
                            match c.convert(v.clone(), &mut buf) {
                                Ok(_) => json!({"ok": true, "out": String::from_utf8_lossy(&buf), "out_bytes": buf, "val": val_to_json(v.as_ref())}),
                                Err(e) => json!({"ok": false, "stage": "convert", "err": format!("{}", e), "out": String::from_utf8_lossy(&buf), "val": val_to_json(v.as_ref())}),
                            }
                        }
                        None => json!({"ok": false, "err": "no such converter"}),
                    }
                }
                Err(e) => json!({"ok": false, "stage": "eval", "err": format!("{}", e)}),
            }
        }
        "fmt" => {
            let text = case["text"].as_str().unwrap();
            let mut cm = ucglib::parse::CommentMap::new();
            match ucglib::parse::parse(OffsetStrIter::new(text), Some(&mut cm)) {
                Ok(stmts) => {
                    let mut buf: Vec<u8> = Vec::new();
                    {
                        let mut p = ucglib::ast::printer::AstPrinter::new(2, &mut buf).with_comment_map(&cm);
                        if let Err(e) = p.render(&stmts) {
                            return json!({"ok": false, "stage": "render", "err": format!("{}", e)});
                        }
                    }
                    let comments: Vec<String> = cm.values().flat_map(|g| g.iter().map(|t| t.fragment.to_string())).collect();
                    json!({"ok": true, "out": String::from_utf8_lossy(&buf), "comments": comments, "debug": format!("{:?}", stmts)})
                }
                Err(e) => json!({"ok": false, "stage": "parse", "err": format!("{}", e)}),
            }
        }
        "fmt2" => {
            // format, then format the output again (both stages reported)
            let mut c1 = case.clone();
            c1["kind"] = json!("fmt");
            let mut first = run(&c1);
            if first["ok"].as_bool() == Some(true) {
                let c2 = json!({"kind": "fmt", "text": first["out"].clone()});
                let second = run(&c2);
                first["second"] = second;
            }
            first
        }
        _ => json!({"ok": false, "err": format!("unknown case kind {}", kind)}),
    }
}

fn main() {
    let mut s = String::new();
    std::io::stdin().read_to_string(&mut s).unwrap();
    let cases: J = serde_json::from_str(&s).expect("json");
    let list: Vec<J> = match cases { J::Array(a) => a, other => vec![other] };
    panic::set_hook(Box::new(|_| {}));
    let mut outs = Vec::new();
    for c in list.iter() {
        let c2 = c.clone();
        let r = panic::catch_unwind(move || run(&c2));
        match r {
            Ok(v) => outs.push(v),
            Err(p) => {
                let msg = if let Some(s) = p.downcast_ref::<String>() { s.clone() } else if let Some(s) = p.downcast_ref::<&str>() { s.to_string() } else { "panic".to_string() };
                outs.push(json!({"panic": true, "msg": msg}));
            }
        }
    }
    println!("{}", serde_json::to_string(&J::Array(outs)).unwrap());
}
