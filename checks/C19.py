"""C19 — standard-library list, tuple and string helpers compute what they document.

Engine M. Each case is a small file that imports std/*.ucg and calls one helper; it is built by the real
`FileBuilder::build` (parser, checker, translator, VM; the standard library is pre-translated into the opcode cache by the
real `Environment::new_with_vars`), all from MIR. List elements, tuple values, enumerate start/step are *symbolic i64*, so one
run covers every element value; lengths, index pairs, NULL patterns, strings and separators are enumerated (they are structure).
Per path z3 decides that the bound result equals the reference definition (Python) over the symbolic leaves."""
import hashlib
import itertools
import os
import sys
import tempfile
import z3

import astb
import symprog as SP
import ucgrun
from mirsym import interp
from mirsym.vals import Agg, VecV, MapV, CellV, Ref, NONE, SymStr, is_sym, deref_all

P = SP.ph
ERR = ('error',)


class Sym:
    """placeholder for symbolic integer leaf i in an expected value"""
    def __init__(self, i, off=0, mul=None):
        self.i, self.off, self.mul = i, off, mul


def lit(v):
    """ucg source for a python value (Sym -> placeholder literal)"""
    if isinstance(v, Sym):
        return P(v.i)
    if v is None:
        return 'NULL'
    if v is True:
        return 'true'
    if v is False:
        return 'false'
    if isinstance(v, int):
        return str(v) if v >= 0 else '(0 - %d)' % -v
    if isinstance(v, float):
        return repr(v)
    if isinstance(v, str):
        return '"' + v.replace('\\', '\\\\').replace('"', '\\"') + '"'
    if isinstance(v, list):
        return '[' + ', '.join(lit(x) for x in v) + ']'
    if isinstance(v, dict):
        return '{' + ', '.join('%s = %s' % (k, lit(x)) for k, x in v.items()) + '}'
    raise ValueError(v)


def cases(tier):
    quick = tier == 'quick'
    cs = []

    def add(helper, cid, imports, expr, expect, n=0, assume=None):
        text = ''.join('let %s = import "std/%s.ucg";\n' % (a, m) for a, m in imports) + 'let r = %s;\n' % expr
        cs.append({'helper': helper, 'id': cid, 'text': text, 'expect': expect, 'n': n, 'assume': assume})
    L = [('lists', 'lists')]
    maxn = 4 if quick else 6
    for n in range(0, maxn + 1):
        el = [Sym(i + 1) for i in range(n)]
        add('lists.len', 'n=%d' % n, L, 'lists.len(%s)' % lit(el), n, n)
        add('lists.reverse', 'n=%d' % n, L, 'lists.reverse(%s)' % lit(el), el[::-1], n)
        add('lists.reverse', 'involution:n=%d' % n, L, 'lists.reverse(lists.reverse(%s))' % lit(el), el, n)
        add('lists.head', 'n=%d' % n, L, 'lists.head(%s)' % lit(el), el[:1], n)
        add('lists.tail', 'n=%d' % n, L, 'lists.tail(%s)' % lit(el), el[1:], n)
        add('lists.enumerate', 'default:n=%d' % n, L, 'lists.enumerate{list=%s}' % lit(el), [[i, el[i]] for i in range(n)], n)
        add('lists.enumerate', 'start-step:n=%d' % n, L, 'lists.enumerate{start=%s, step=%s, list=%s}' % (P(n + 1), P(n + 2), lit(el)),
            [[Sym(n + 1, mul=(i, n + 2)), el[i]] for i in range(n)], n + 2, 'small')
        add('lists.ops', 'len+reverse:n=%d' % n, L, 'lists.ops{list=%s}.reverse().list' % lit(el), el[::-1], n)
        # slice: every in-range inclusive pair, and the default end
        for s in range(0, n):
            add('lists.slice', 'n=%d,start=%d,end=default' % (n, s), L, 'lists.slice{start=%d, list=%s}' % (s, lit(el)), el[s:], n)
            for e in range(s, n):
                add('lists.slice', 'n=%d,start=%d,end=%d' % (n, s, e), L, 'lists.slice{start=%d, end=%d, list=%s}' % (s, e, lit(el)), el[s:e + 1], n)
    for n in range(0, (3 if quick else 5) + 1):
        for m in range(0, (3 if quick else 5) + 1):
            a = [Sym(i + 1) for i in range(n)]
            bb = [Sym(n + i + 1) for i in range(m)]
            add('lists.zip', 'n=%d,m=%d' % (n, m), L, 'lists.zip{list1=%s, list2=%s}' % (lit(a), lit(bb)), [[a[i], bb[i]] for i in range(min(n, m))], n + m)
    mixed = [[Sym(1), 's', None], [None, None], [[Sym(1)], {'a': Sym(2)}], ['s', Sym(1), [None]], [True, 1.5, 's', Sym(1)]]
    for k, el in enumerate(mixed):
        n = 2
        add('lists.len', 'mixed%d' % k, L, 'lists.len(%s)' % lit(el), len(el), n)
        add('lists.reverse', 'mixed%d' % k, L, 'lists.reverse(%s)' % lit(el), el[::-1], n)
        add('lists.tail', 'mixed%d' % k, L, 'lists.tail(%s)' % lit(el), el[1:], n)
        add('lists.head', 'mixed%d' % k, L, 'lists.head(%s)' % lit(el), el[:1], n)
        add('lists.enumerate', 'mixed%d' % k, L, 'lists.enumerate{list=%s}' % lit(el), [[i, x] for i, x in enumerate(el)], n)
        add('lists.zip', 'mixed%d' % k, L, 'lists.zip{list1=%s, list2=%s}' % (lit(el), lit(el[::-1][:2])), [[a, c] for a, c in zip(el, el[::-1][:2])], n)
        add('lists.slice', 'mixed%d' % k, L, 'lists.slice{start=1, end=1, list=%s}' % lit(el), el[1:2], n)
    strs = [[], ['a'], ['a', 'b'], ['a', 'b', 'c'], ['', 'b'], ['a', ''], ['', ''], ['x y', 'z'], ['é', '日本']]
    for sep in [' ', ',', ', ', '', '--']:
        for l in strs:
            add('lists.str_join', 'sep=%r,list=%r' % (sep, l), L, 'lists.str_join{sep=%s, list=%s}' % (lit(sep), lit(l)), sep.join(l))
    add('lists.str_join', 'default-sep', L, 'lists.str_join{list=["a", "b"]}', 'a b')
    add('lists.str_join', 'ints', L, 'lists.str_join{sep="-", list=[1, 2, 3]}', '1-2-3')
    # ---- tuples
    T = [('tuples', 'tuples')]
    shapes = [{}, {'a': Sym(1)}, {'a': Sym(1), 'b': 's'}, {'b': Sym(1), 'a': Sym(2), 'c': [1]}, {'a': None}, {'a': None, 'b': Sym(1)}, {'a': Sym(1), 'b': None, 'c': None},
              {'a': None, 'b': None}, {'x': {'y': None}, 'z': None}]
    for k, t in enumerate(shapes):
        n = len([v for v in t.values() if isinstance(v, Sym)])
        add('tuples.fields', 'shape%d' % k, T, 'tuples.fields{tpl=%s}' % lit(t), list(t.keys()), n)
        add('tuples.values', 'shape%d' % k, T, 'tuples.values{tpl=%s}' % lit(t), list(t.values()), n)
        add('tuples.iter', 'shape%d' % k, T, 'tuples.iter{tpl=%s}' % lit(t), [[kk, vv] for kk, vv in t.items()], n)
        add('tuples.strip_nulls', 'shape%d' % k, T, 'tuples.strip_nulls{tpl=%s}' % lit(t), {kk: vv for kk, vv in t.items() if vv is not None}, n)
        add('tuples.ops', 'fields:shape%d' % k, T, 'tuples.ops{tpl=%s}.fields()' % lit(t), list(t.keys()), n)
        for fs in [[], ['a'], ['a', 'b'], ['zz'], ['a', 'zz'], ['b', 'a']]:
            add('tuples.has_fields', 'shape%d:%s' % (k, ','.join(fs)), T, 'tuples.has_fields{tpl=%s, fields=%s}' % (lit(t), lit(fs)), all(f in t for f in fs), n)
    # ---- strings
    S = [('strings', 'strings')]
    words = ['', 'a', 'abc', 'a,b', ',a', 'a,', 'a,,b', ',', 'hé,日'] if quick else ['', 'a', 'abc', 'a,b', ',a', 'a,', 'a,,b', ',', ',,', 'héllo', '日本語', 'é,日,😀', 'a--b--c', '--', 'ab--', '--ab', 'a-b', 'aaa', 'a, b, c', 'abcabc', 'a b  c']
    for w in words:
        add('strings.len', repr(w), S, 'strings.wrap(%s).len' % lit(w), len(w))
        add('strings.chars', repr(w), S, 'strings.wrap(%s).chars' % lit(w), list(w))
        for sep in ([',', '--'] if quick else [',', '--', ', ', 'aa', 'bc', ' ', 'é']):
            exp = w.split(sep)
            add('strings.split_on', '%r on %r' % (w, sep), S, 'strings.wrap(%s).split_on{on=%s}' % (lit(w), lit(sep)), exp)
            add('strings.split_join', '%r on %r' % (w, sep), S + L, 'lists.str_join{sep=%s, list=strings.wrap(%s).split_on{on=%s}}' % (lit(sep), lit(w), lit(sep)), w)
        for idx in range(0, len(w) + 1):
            add('strings.split_at', '%r at %d' % (w, idx), S, 'strings.wrap(%s).split_at(%d)' % (lit(w), idx), {'left': w[:idx], 'right': w[idx:]})
        if len(w) <= 3 or not quick:
            for s in range(0, len(w)):
                add('strings.substr', '%r start=%d' % (w, s), S, 'strings.wrap(%s).substr{start=%d}.str' % (lit(w), s), w[s:])
                for e in range(s, len(w)):
                    add('strings.substr', '%r start=%d end=%d' % (w, s, e), S, 'strings.wrap(%s).substr{start=%d, end=%d}.str' % (lit(w), s, e), w[s:e + 1])
    for w, v in [('0', 0), ('7', 7), ('42', 42), ('123abc', 123), ('9x9', 9)]:
        add('strings.parse_int', repr(w), S, 'strings.wrap(%s).parse_int().unwrap()' % lit(w), v)
    # ---- functional
    F = [('f', 'functional')]
    add('functional.maybe', 'do-some', F, 'f.maybe{val=%s}.do(func (x) => x + 1).unwrap()' % P(1), Sym(1, off=1), 1, 'small')
    add('functional.maybe', 'do-null', F, 'f.maybe{val=NULL}.do(func (x) => x + 1).unwrap()', None)
    add('functional.maybe', 'is_null-some', F, 'f.maybe{val=%s}.is_null()' % P(1), False, 1)
    add('functional.maybe', 'is_null-null', F, 'f.maybe{val=NULL}.is_null()', True)
    add('functional.maybe', 'or-null', F, 'f.maybe{val=NULL}.or(func () => %s).unwrap()' % P(1), Sym(1), 1)
    add('functional.maybe', 'or-some', F, 'f.maybe{val=%s}.or(func () => 5).unwrap()' % P(1), Sym(1), 1)
    add('functional.maybe', 'expect-some', F, 'f.maybe{val=%s}.expect("missing")' % P(1), Sym(1), 1)
    add('functional.maybe', 'expect-null', F, 'f.maybe{val=NULL}.expect("missing")', ERR)
    add('functional.maybe', 'do-do', F, 'f.maybe{val=%s}.do(func (x) => NULL).do(func (x) => 1).is_null()' % P(1), True, 1)
    add('functional.identity', 'int', F, 'f.identity(%s)' % P(1), Sym(1), 1)
    # ---- schema
    C = [('schema', 'schema')]
    samples = {'int': '1', 'float': '1.5', 'str': '"s"', 'bool': 'true', 'null': 'NULL', 'tuple': '{a = 1}', 'list': '[1]', 'func': '(func (x) => x)', 'module': '(module {} => {let a = 1;})'}
    for ty, src in samples.items():
        add('schema.base_type_of', ty, C, 'schema.base_type_of(%s)' % src, ty)
    prim = ['int', 'float', 'str', 'bool']
    other = {'int': '7', 'float': '2.5', 'str': '"t"', 'bool': 'false'}
    for a in prim:
        for c in prim:
            add('schema.shaped', '%s~%s' % (a, c), C, 'schema.shaped{val=%s, shape=%s}' % (samples[a], other[c]), a == c)
    tup = [('{a = 1}', '{a = 2}', True, True), ('{a = 1}', '{a = "s"}', False, False), ('{a = 1, b = 2}', '{a = 5}', True, False), ('{a = 1}', '{a = 5, b = 6}', False, False),
           ('{a = {b = 1}}', '{a = {b = 2}}', True, True), ('{a = {b = 1}}', '{a = {b = "s"}}', False, False), ('{a = 1}', '[1]', False, False), ('[1, 2]', '[0]', True, True),
           ('[1, "s"]', '[0]', False, False), ('[1, "s"]', '[0, ""]', True, True), ('[1, "s"]', '[]', True, True), ('[]', '[0]', True, True), ('1', '{a = 1}', False, False)]
    # the offending element / field at every position, not only the last one
    tup += [('["s", 1]', '[0]', False, False), ('[1, "s", 2]', '[0]', False, False), ('["s", 1, 2]', '[0]', False, False), ('[1, NULL, "b"]', '[0, ""]', False, False),
            ('{l = ["s", 1]}', '{l = [0]}', False, False), ('[[1], ["s"], [2]]', '[[0]]', False, False),
            ('{a = 1, b = "x"}', '{a = "str", b = "y"}', False, False), ('{a = "x", b = 1}', '{a = "str", b = "y"}', False, False),
            ('{a = 1, b = "x"}', '{b = "y"}', True, False), ('{b = "x"}', '{zz = 1, b = "y"}', False, False), ('{b = "x"}', '{b = "y", zz = 1}', False, False),
            ('{}', '{}', True, True), ('{a = 1, b = 2, c = 3}', '{a = 0, b = 0, c = 0}', True, True), ('{a = 1, b = "s", c = 3}', '{a = 0, b = 0, c = 0}', False, False)]
    for k, (v, s, part, strict) in enumerate(tup):
        add('schema.shaped', 'partial:%s~%s' % (v, s), C, 'schema.shaped{val=%s, shape=%s}' % (v, s), part)
        add('schema.shaped', 'strict:%s~%s' % (v, s), C, 'schema.shaped{val=%s, shape=%s, partial=false}' % (v, s), strict)
    for v, types, want in [('1', '[1, "s"]', True), ('"x"', '[1, "s"]', True), ('1.5', '[1, "s"]', False), ('1', '[]', False), ('{a = 1}', '[{a = 0}, 1]', True)]:
        add('schema.any', '%s in %s' % (v, types), C, 'schema.any{val=%s, types=%s}' % (v, types), want)
    for v, types, want in [('{a = 1, b = "s"}', '[{a = 0}, {b = ""}]', True), ('{a = 1}', '[{a = 0}, {b = ""}]', False), ('1', '[1, 2]', True), ('1', '[1, "s"]', False), ('1', '[]', True)]:
        add('schema.all', '%s all %s' % (v, types), C, 'schema.all{val=%s, types=%s}' % (v, types), want)
    return cs


def new_builder(ctx, env):
    fb = ctx.call('FileBuilder::new', [ctx.prog.to_path('/cwd'), VecV([]), env])
    cell = CellV(fb)
    r = Ref(cell.slot, 0, ())
    ctx.call('FileBuilder::set_strict', [r, True])
    return cell, r


def sym_term(e, ints):
    t = ints[e.i]
    if e.mul is not None:
        k, j = e.mul
        t = t + z3.BitVecVal(k, 64) * ints[j]
    if e.off:
        t = t + z3.BitVecVal(e.off, 64)
    return t


def match(b, exp, val, ints, conds):
    """expected python structure vs ir::Val -> False or True (appending z3 conditions)"""
    v = deref_all(val)
    name = b.variant_name(v, 'build::ir::Val')
    if exp is None:
        return name == 'Empty'
    if isinstance(exp, Sym) or (isinstance(exp, int) and not isinstance(exp, bool)):
        if name != 'Int':
            return False
        want = sym_term(exp, ints) if isinstance(exp, Sym) else z3.BitVecVal(exp, 64)
        got = v.fields[0]
        if is_sym(got):
            conds.append(got == want)
            return True
        if isinstance(exp, Sym):
            conds.append(z3.BitVecVal(got, 64) == want)
            return True
        return got == exp
    if isinstance(exp, bool):
        if name != 'Boolean':
            return False
        got = v.fields[0]
        if is_sym(got):
            conds.append(got == exp)
            return True
        return bool(got) == exp
    if isinstance(exp, float):
        return name == 'Float' and v.fields[0] == exp
    if isinstance(exp, str):
        if name != 'Str':
            return False
        got = deref_all(v.fields[0])
        if type(got) is str:
            return got == exp
        return False
    if isinstance(exp, list):
        if name != 'List':
            return False
        items = deref_all(v.fields[0]).items
        return len(items) == len(exp) and all(match(b, e, x, ints, conds) for e, x in zip(exp, items))
    if isinstance(exp, dict):
        if name != 'Tuple':
            return False
        items = deref_all(v.fields[0]).items
        if len(items) != len(exp):
            return False
        for (k, e), x in zip(exp.items(), items):
            kk, vv = deref_all(x).fields
            if deref_all(kk) != k or not match(b, e, vv, ints, conds):
                return False
        return True
    return False


def show(exp, m, ints):
    if isinstance(exp, Sym):
        return m.eval(sym_term(exp, ints), model_completion=True).as_signed_long()
    if isinstance(exp, list):
        return [show(e, m, ints) for e in exp]
    if isinstance(exp, dict):
        return {k: show(e, m, ints) for k, e in exp.items()}
    return exp


def harness(ctx, case):
    prog = ctx.prog
    b = astb.B(prog)
    ucgrun.install_parse_override(prog)
    out = {'reached': True, 'asserts': 1, 'violations': []}
    ints = {i: ctx.bv('a%d' % i, 64) for i in range(1, case['n'] + 1)}
    if case.get('assume') == 'small':
        for t in ints.values():
            ctx.assume(z3.And(t > -(1 << 30), t < (1 << 30)))
    ctx.fs['/cwd/conf.ucg'] = case['text']
    ctx.parse_subst = {'ints': ints}
    cell, r = new_builder(ctx, ucgrun.make_full_env(ctx))
    res = ctx.call('FileBuilder::build', [r, prog.to_path('/cwd/conf.ucg')])
    exp = case['expect']
    key = 'C19:%s:%%s:%s' % (case['helper'], case['id'])

    def report(kind, what, extra=None):
        m = ctx.model(extra)
        text = SP.render_text(case['text'], m, ctx, ints)
        e = show(exp, m, ints) if exp != ERR else 'a build error'
        out['violations'].append({'key': key % kind, 'what': '%s %s: %s; expected %r — conf.ucg:\n%s' % (case['helper'], case['id'], what, e, text), 'case': {'kind': 'cli-build-json', 'text': text},
                                  'expect': None if exp == ERR else e, 'expect_error': exp == ERR})

    if res.variant != 0:
        if exp != ERR:
            from mirsym.bi_str import render_value
            msg = repr(res.fields[0])[:400]
            report('error', 'the build fails (%s)' % msg)
        else:
            out['sample'] = {'helper': case['helper'], 'case': case['id'], 'result': 'error (as documented)'}
        return out
    if exp == ERR:
        report('no-error', 'the build succeeds')
        return out
    o = deref_all(b.field(cell.slot[0], 'build::FileBuilder', 'out'))
    o = deref_all(o.fields[0]) if o.ty == 'Option' else o
    rv = None
    for x in deref_all(o.fields[0]).items:
        kk, vv = deref_all(x).fields
        if deref_all(kk) == 'r':
            rv = vv
    if rv is None:
        raise interp.Unsupported('binding r not found in the build output')
    conds = []
    ok = match(b, exp, rv, ints, conds)
    if ok and conds:
        ok = ctx.valid(z3.And(*conds))
        extra = z3.Not(z3.And(*conds))
    else:
        extra = None
    if not ok:
        report('wrong-value', 'r = %s' % repr(deref_all(rv))[:300], extra)
    else:
        out['sample'] = {'helper': case['helper'], 'case': case['id'], 'program': case['text'].splitlines()[-1]}
    return out


def judge(fw, v):
    import json
    with tempfile.TemporaryDirectory(prefix='ucg-verif-c19-') as d:
        open(os.path.join(d, 'conf.ucg'), 'w').write(v['case']['text'] + 'out json r;\n')
        r = fw.native().cli(['build', 'conf.ucg'], d)
        got = None
        p = os.path.join(d, 'conf.json')
        if os.path.exists(p):
            try:
                got = json.load(open(p))
            except Exception as e:
                got = 'unparsable: %s' % e
    fw.replayed += 1
    v['native'] = {'rc': r['rc'], 'stderr': r['stderr'][-300:], 'json': got}
    if v.get('expect_error'):
        return r['rc'] == 0
    if r['rc'] != 0:
        return True
    return not json_eq(v['expect'], got)


def json_eq(e, g):
    if isinstance(e, bool) or isinstance(g, bool):
        return e is g
    if isinstance(e, (int, float)) and isinstance(g, (int, float)):
        return float(e) == float(g)
    if isinstance(e, list) and isinstance(g, list):
        return len(e) == len(g) and all(json_eq(a, c) for a, c in zip(e, g))
    if isinstance(e, dict) and isinstance(g, dict):
        return list(e.keys()) == list(g.keys()) and all(json_eq(e[k], g[k]) for k in e)
    return e == g


def run(fw):
    cs = cases(fw.tier)
    helpers = sorted(set(c['helper'] for c in cs))
    fw.bounds.update({'cases': len(cs), 'helpers': helpers, 'list_lengths': '0..%d' % (4 if fw.tier == 'quick' else 6), 'symbolic': 'list elements, tuple values, enumerate start/step (i64; |start|,|step| < 2^30)',
                      'enumerated': 'lengths, every in-range inclusive slice/substr index pair, split_at index 0..len, NULL patterns of 0..3 fields, strings and separators listed in the check',
                      'outside': 'out-of-range indices (behaviour not documented), lists longer than the bound, parse_int on strings without leading digits, schema shapes beyond the listed pairs'})
    fw.oracles.append('reference definitions in Python (len, reversed, l[1:], zip/min, l[s:e+1], sep.join, str.split, dict filters, shape rules) over symbolic leaves')
    ucgrun.install_parse_override(fw.prog)
    ucgrun.warm_parse_cache(fw.prog, ucgrun.stdlib_texts(fw.prog))
    ucgrun.make_full_env(interp.Ctx(fw.prog, fuel=10 ** 10))      # memoised before the workers fork
    fw.explore('helpers', harness, cs, fuel=3_000_000_000)
    for v in fw.violations:
        v['reproduced'] = judge(fw, v)
    fw.assumptions += ['virtual file system', 'std/alloc builtins (listed)', 'the standard library is the working tree\'s std/*.ucg (embedded by build.rs; read here through stdlib::get_libs from MIR)']
    return fw.finish(technique='symbolic execution of rustc MIR (FileBuilder::build with the real pre-translated standard library) over symbolic element values; z3 decides result == reference per path; replay with the real binary via `out json`')


def replay(fw, case):
    v = dict(case)
    return {'violates': bool(judge(fw, v)), 'native': v.get('native')}
