"""C20 — the language server's analysis and request kernels (not the JSON-RPC loop).

The stdio loop (lsp_server, crossbeam channels, threads, serde deserialisation of each message) is third-party concurrent
code that cannot be encoded; what the handlers *call* can. Engine M runs, from MIR (ucglib + the lsp-types crate's own MIR for
its structs, Default impls and constants):
  analyze   — `analysis::analyze` on ~40 document texts (valid programs, type errors, syntax errors, token errors, empty,
              comments only, CRLF, non-ASCII, strings spanning lines): no panic; a syntax diagnostic exactly when the real
              parser rejects the text and at the parser's position; no diagnostics for a text the real `FileBuilder::build`
              accepts; every diagnostic range inside the document.
  positions — `find_hover`, `find_definition`, `collect_completions`, `token_at`, `token_prefix_at`, `cursor_in_string`
              with a *symbolic* (line, character) ∈ u32 × u32 on each analysed document: z3 decides reachability of every
              panic site (incl. the overflow checks of the 0-based/1-based conversion) for all 2^64 positions, and every range
              in an answer lies inside the document.
  tokens    — `encode_semantic_tokens`: the delta decoding never underflows, and every decoded token lies inside its line.
  sessions  — `ServerState::update_document` over sequences of opens/changes of 1..2 documents: the stored analysis (hence
              the published diagnostics) after the history equals that of a fresh state opened on the final text."""
import itertools
import json
import os
import sys
import z3

import astb
import symprog as SP
import ucgrun
import world
from mirsym import interp
from mirsym.vals import Agg, VecV, MapV, CellV, Ref, NONE, some, SymStr, is_sym, deref_all, PathV

DOCS = {
    'basic': 'let t = {a = 1, b = "s"};\nlet f = func (x) => x + t.a;\nlet r = f(2);\n',
    'type-error': 'let t = {a = 1};\nlet r = t.a + "s";\n',
    'std-import': 'let l = import "std/lists.ucg";\nlet n = l.len([1, 2]);\n',
    'non-ascii': 'let s = "héllo"; let t = 1;\n// ünï\nlet u = s;\n',
    'non-ascii-wide': 'let s = "日本語日本語"; let t = s;\n',
    'crlf': 'let a = 1;\r\nlet b = a;\r\n',
    'syntax-error': 'let a = 1 +;\nlet b = 2;\n',
    'syntax-error-eof': 'let a = [1, 2',
    'syntax-error-line3': 'let a = 1;\nlet b = 2;\nlet = 3;\n',
    'token-error': 'let a = & 1;\n',
    'unterminated-string': 'let a = "abc;\n',
    'empty': '',
    'blank': '\n\n',
    'comment-only': '// doc\n',
    'module': 'let m = module {x = 1} => {\n  let y = mod.x;\n};\nlet i = m{x = 2};\nout json i;\n',
    'string-with-newline': 'let s = "a\nb";\nlet t = s;\n',
    'doc-comment': '// The answer.\nlet a = 42;\nlet b = a;\n',
    'constraint': 'constraint small = in 0..9;\nlet x :: small = 3;\nlet y :: in 1..2 = x;\n',
    'select-format': 'let k = "a";\nlet s = select (k, 0) => {a = 1};\nlet m = "v=@" % (s);\n',
    'funcops': 'let l = [1, 2];\nlet m = map(func (x) => x + 1, l);\nlet r = reduce(func (acc, x) => acc + x, 0, m);\n',
    'assert': 'assert {ok = 1 == 1, desc = "one"};\nlet a = 1;\n',
    'dotted': 'let t = {a = {b = {c = 1}}};\nlet r = t.a.b.c;\nlet q = t.a.zz;\n',
    'include': 'let d = include str "data.txt";\n',
    'unknown-name': 'let a = nosuch + 1;\n',
    'tabs': 'let\ta\t=\t1;\n\tlet b = a;\n',
    'long-line': 'let a = [' + ', '.join(str(i) for i in range(30)) + '];\n',
    'keywords': 'let a = not true;\nlet b = 1 in [1];\nlet c = a is "bool";\n',
    'unused-after-error': 'let a = 1;\nlet b = a +;\nlet c = 3;\n',
    'tuple-fields-quoted': 'let t = {"a b" = 1, c = 2};\nlet r = t."a b";\n',
    'copy': 'let base = {a = 1};\nlet c = base{a = 2, b = self.a};\n',
}


def lines_of(text):
    return [l[:-1] if l.endswith('\r') else l for l in text.split('\n')]


def u16len(s):
    return len(s.encode('utf-16-le')) // 2


def inside(text, line, ch):
    """is the 0-based LSP position inside the document (one past the end of a line is the conventional end marker)"""
    ls = lines_of(text)
    return 0 <= line < len(ls) and 0 <= ch <= u16len(ls[line]) + 1


def range_of(b, r):
    """lsp_types::Range Agg -> ((l, c), (l, c))"""
    s, e = r.fields
    return (tuple(s.fields), tuple(e.fields))


def prepare_prog(prog):
    if not getattr(prog, '_lsp_loaded', False):
        import world as W
        d = W.prepare(log=lambda m: None)
        W.load_lsp(prog, d)
        prog._lsp_loaded = True


def analyze(ctx, text, wd=None, resolved=None):
    return ctx.call('lsp::analysis::analyze', [text, NONE if wd is None else some(ctx.prog.to_path(wd)), resolved if resolved is not None else MapV('HashMap')])


def diagnostics(b, res):
    out = []
    for d in deref_all(b.field(res, 'lsp::analysis::AnalysisResult', 'diagnostics')).items:
        rng = range_of(b, d.fields[0])
        msg = deref_all(d.fields[5])
        out.append((rng, str(msg) if type(msg) is str else repr(msg)))
    return out


def harness_analyze(ctx, case):
    prog = ctx.prog
    prepare_prog(prog)
    b = astb.B(prog)
    text = DOCS[case['doc']]
    out = {'reached': True, 'asserts': 0, 'violations': []}

    def viol(kind, what):
        out['violations'].append({'key': 'C20:analyze:%s:%s' % (kind, case['doc']), 'what': 'document %s: %s — text: %r' % (case['doc'], what, text),
                                  'case': {'kind': 'lsp-session', 'docs': {'main.ucg': text}, 'script': [['open', 'main.ucg']]}, 'check': kind, 'doc': 'main.ucg'})

    try:
        res = analyze(ctx, text, '/ws')
    except interp.Panic as p:
        viol('panic', 'analysis panics: %s' % p.msg[:200])
        return out
    diags = diagnostics(b, res)
    # (1) ranges inside the document
    for rng, msg in diags:
        out['asserts'] += 1
        (l1, c1), (l2, c2) = rng
        if not (inside(text, l1, c1) and inside(text, l2, c2) and (l1, c1) <= (l2, c2)):
            viol('range-outside', 'diagnostic %r at %r lies outside the document' % (msg, rng))
            return out
    # (2) syntax diagnostic iff the real parser rejects, same position
    pr = ucgrun.parse_program(ctx, text)
    out['asserts'] += 1
    if pr.variant != 0:
        e = pr.fields[0]
        pos = b.field(e, 'error::BuildError', 'pos')
        if not diags:
            viol('syntax-error-not-reported', 'the parser rejects the text but no diagnostic is published')
            return out
        if pos.variant == 1:
            p = pos.fields[0]
            want = (b.field(p, 'ast::Position', 'line') - 1, b.field(p, 'ast::Position', 'column') - 1)
            if diags[0][0][0] != want:
                viol('syntax-error-position', 'the parser reports line %d column %d, the diagnostic is at %r' % (want[0] + 1, want[1] + 1, diags[0][0]))
                return out
    else:
        # (3) a text that builds gets no diagnostics
        ctx.fs['/ws/main.ucg'] = text
        ctx.fs['/ws/data.txt'] = 'hello'
        env = ucgrun.make_full_env(ctx) if 'import "std/' in text else ucgrun.make_env(ctx)
        fb = ctx.call('FileBuilder::new', [prog.to_path('/ws'), VecV([]), env])
        cell = CellV(fb)
        r = Ref(cell.slot, 0, ())
        ctx.call('FileBuilder::set_strict', [r, False])
        try:
            br = ctx.call('FileBuilder::build', [r, prog.to_path('/ws/main.ucg')])
            builds = br.variant == 0
        except interp.Panic:
            builds = False
        out['asserts'] += 1
        if builds and diags:
            viol('diagnostic-on-building-text', 'the compiler builds the text, yet diagnostics %r are published' % (diags,))
            return out
        out['builds'] = builds
    out['sample'] = {'doc': case['doc'], 'diagnostics': [[list(map(list, r)), m] for r, m in diags]}
    return out


def workspace(ctx, root='/ws'):
    return ctx.call('WorkspaceIndex::new', [ctx.prog.to_path(root)])


def ranges_in(v):
    """all lsp_types::Range aggregates inside an answer"""
    v = deref_all(v)
    if type(v) is Agg:
        if v.ty.endswith('Range') and len(v.fields) == 2 and all(type(deref_all(f)) is Agg and deref_all(f).ty.endswith('Position') for f in v.fields):
            yield v
            return
        for f in v.fields:
            yield from ranges_in(f)
    elif type(v) is VecV:
        for f in v.items:
            yield from ranges_in(f)


def ranges_parent_uri(v):
    """Url aggregates inside an answer"""
    v = deref_all(v)
    if type(v) is Agg:
        if v.ty == 'Url':
            yield v.fields[0]
            return
        for f in v.fields:
            yield from ranges_parent_uri(f)
    elif type(v) is VecV:
        for f in v.items:
            yield from ranges_parent_uri(f)


REQS = ['hover', 'definition', 'completion', 'token_at', 'token_prefix_at', 'cursor_in_string']


def harness_positions(ctx, case):
    prog = ctx.prog
    prepare_prog(prog)
    b = astb.B(prog)
    text = DOCS[case['doc']]
    out = {'reached': True, 'asserts': 0, 'violations': []}
    doc = analyze(ctx, text, '/ws')
    ws = workspace(ctx)
    line = ctx.bv('line', 32)
    ch = ctx.bv('ch', 32)
    req = case['req']

    def viol(kind, what, extra=None):
        m = ctx.model(extra)
        lv = m.eval(line, model_completion=True).as_long()
        cv = m.eval(ch, model_completion=True).as_long()
        out['violations'].append({'key': 'C20:positions:%s:%s:%s' % (kind, req, case['doc']), 'what': '%s at line %d character %d of document %s: %s' % (req, lv, cv, case['doc'], what),
                                  'case': {'kind': 'lsp-session', 'docs': {'main.ucg': text}, 'script': [['open', 'main.ucg'], [req, 'main.ucg', lv, cv]]}, 'check': kind, 'req': req})

    try:
        if req == 'hover':
            ans = ctx.call('lsp::find_hover', [doc, ws, line, ch])
        elif req == 'definition':
            ans = ctx.call('lsp::find_definition', [doc, Agg('Url', None, ('file:///ws/main.ucg',)), line, ch, ws])
        elif req == 'completion':
            ans = ctx.call('lsp::collect_completions', [doc, line, ch, ws])
        elif req == 'token_at':
            ans = ctx.call('lsp::token_at', [doc, line, ch])
        elif req == 'token_prefix_at':
            ans = ctx.call('lsp::token_prefix_at', [doc, line, ch])
        else:
            ans = ctx.call('lsp::cursor_in_string', [doc, line, ch])
    except interp.Panic as p:
        ctx.fail_stack = None
        viol('panic', 'the handler panics (%s)' % p.msg[:160])
        return out
    out['asserts'] += 1
    for r in ranges_in(ans):
        (l1, c1), (l2, c2) = range_of(b, r)
        vals = []
        for x in (l1, c1, l2, c2):
            if is_sym(x):
                raise interp.Unsupported('symbolic range in an answer')
            vals.append(x)
        out['asserts'] += 1
        if not (inside(text, vals[0], vals[1]) and inside(text, vals[2], vals[3])):
            viol('range-outside', 'the answer contains the range %r, which lies outside the document' % (vals,))
            return out
    m = ctx.model()
    out['sample'] = {'doc': case['doc'], 'req': req, 'line': m.eval(line, model_completion=True).as_long(), 'character': m.eval(ch, model_completion=True).as_long(),
                     'answer': repr(deref_all(ans))[:160]}
    return out


def harness_tokens(ctx, case):
    prog = ctx.prog
    prepare_prog(prog)
    b = astb.B(prog)
    text = DOCS[case['doc']]
    out = {'reached': True, 'asserts': 0, 'violations': []}

    def viol(kind, what):
        out['violations'].append({'key': 'C20:tokens:%s:%s' % (kind, case['doc']), 'what': 'semantic tokens of document %s: %s — text: %r' % (case['doc'], what, text),
                                  'case': {'kind': 'lsp-session', 'docs': {'main.ucg': text}, 'script': [['open', 'main.ucg'], ['semantic', 'main.ucg']]}, 'check': kind})
    doc = analyze(ctx, text, '/ws')
    try:
        toks = ctx.call('lsp::encode_semantic_tokens', [doc])
    except interp.Panic as p:
        viol('panic', 'encoding panics (%s)' % p.msg[:160])
        return out
    line = col = 0
    n = 0
    for t in deref_all(toks).items:
        dl, ds, ln = t.fields[0], t.fields[1], t.fields[2]
        line += dl
        col = ds if dl else col + ds
        out['asserts'] += 1
        n += 1
        if not (inside(text, line, col) and inside(text, line, col + ln - (1 if ln else 0))):
            viol('token-outside', 'token %d decodes to line %d character %d length %d, which is outside its line' % (n, line, col, ln))
            return out
    out['sample'] = {'doc': case['doc'], 'tokens': n}
    return out


# ------------------------------------------------------------------ sessions
SESSION_TEXTS = {
    'A1': 'let a = 1;\n', 'A2': 'let a = 1 +;\n', 'A3': 'let a = "s" + 1;\n', 'A4': 'let a = 2;\nlet b = a;\n',
    'B1': 'let x = 1;\n', 'B2': 'let x = [1;\n',
}


def harness_sessions(ctx, case):
    prog = ctx.prog
    prepare_prog(prog)
    b = astb.B(prog)
    out = {'reached': True, 'asserts': 0, 'violations': []}
    script = case['script']          # list of (doc, text-key)
    uri = {'A': Agg('Url', None, ('file:///ws/a.ucg',)), 'B': Agg('Url', None, ('file:///ws/b.ucg',))}

    def new_state():
        st = ctx.call('ServerState::new', [workspace(ctx)])
        cell = CellV(st)
        return cell, Ref(cell.slot, 0, ())

    cell, r = new_state()
    last = {}
    try:
        for d, k in script:
            res = ctx.call('ServerState::update_document', [r, uri[d], SESSION_TEXTS[k]])
            last[d] = (k, diagnostics(b, deref_all(res)))
        # workspace-level answers come from the workspace index: after the history it must describe the current texts
        def symbols(state_cell):
            ws = b.field(state_cell.slot[0], 'lsp::ServerState', 'workspace')
            res = ctx.call('lsp::collect_workspace_symbols', [ws, ''])
            got = []
            for si in deref_all(res).items:
                si = deref_all(si)
                name = [f for f in si.fields if type(deref_all(f)) is str][0]
                rng = [range_of(b, r) for r in ranges_in(si)][0]
                u = [deref_all(f) for f in ranges_parent_uri(si)]
                got.append((str(deref_all(name)), u[0] if u else '', rng))
            return sorted(got)
        cf, rf = new_state()
        for d in last:
            ctx.call('ServerState::update_document', [rf, uri[d], SESSION_TEXTS[last[d][0]]])
        out['asserts'] += 1
        hs, fs_ = symbols(cell), symbols(cf)
        if hs != fs_:
            sc = [['change', {'A': 'a.ucg', 'B': 'b.ucg'}[dd], SESSION_TEXTS[kk]] for dd, kk in script] + [['symbols', 'a.ucg']]
            out['violations'].append({'key': 'C20:sessions:stale-workspace-index:%s' % '-'.join(k for _, k in script),
                                      'what': 'after the session %r the workspace symbols are %r, a fresh server on the final texts answers %r' % (script, hs, fs_),
                                      'case': {'kind': 'lsp-session', 'docs': {'a.ucg': '', 'b.ucg': ''}, 'script': sc, 'final_texts': {{'A': 'a.ucg', 'B': 'b.ucg'}[d]: SESSION_TEXTS[last[d][0]] for d in last}},
                                      'check': 'stale-symbols'})
            return out
        for d, (k, diags) in last.items():
            c2, r2 = new_state()
            fresh = diagnostics(b, deref_all(ctx.call('ServerState::update_document', [r2, uri[d], SESSION_TEXTS[k]])))
            out['asserts'] += 1
            if fresh != diags:
                docs = {'a.ucg': '', 'b.ucg': ''}
                sc = []
                for dd, kk in script:
                    sc.append(['change', {'A': 'a.ucg', 'B': 'b.ucg'}[dd], SESSION_TEXTS[kk]])
                out['violations'].append({'key': 'C20:sessions:history-dependent:%s' % '-'.join(k for _, k in script),
                                          'what': 'after the session %r document %s has diagnostics %r, a fresh server on the same text publishes %r' % (script, d, diags, fresh),
                                          'case': {'kind': 'lsp-session', 'docs': docs, 'script': sc, 'final': {'A': 'a.ucg', 'B': 'b.ucg'}[d]}, 'check': 'history'})
                return out
    except interp.Panic as p:
        out['violations'].append({'key': 'C20:sessions:panic', 'what': 'update_document panics (%s) in session %r' % (p.msg[:160], script), 'case': None, 'check': 'panic'})
        return out
    out['sample'] = {'script': script, 'final': {d: [k, len(v)] for d, (k, v) in last.items()}}
    return out


# ------------------------------------------------------------------ native judging: the real `ucg lsp` over stdio
def lsp_session(fw, case, timeout=60):
    """drive the real server: -> {'alive': bool, 'responses': {id: result}, 'diagnostics': {uri: [last published]}, 'stderr': ...}"""
    import subprocess
    import tempfile
    import time
    with tempfile.TemporaryDirectory(prefix='ucg-verif-c20-') as d:
        for n, t in case['docs'].items():
            open(os.path.join(d, n), 'w', newline='').write(t)
        nat = fw.native()
        p = subprocess.Popen([nat.ucg_bin, 'lsp'], cwd=d, stdin=subprocess.PIPE, stdout=subprocess.PIPE, stderr=subprocess.PIPE)

        def send(obj):
            body = json.dumps(obj).encode()
            p.stdin.write(b'Content-Length: %d\r\n\r\n' % len(body) + body)
            p.stdin.flush()

        def uri(n):
            return 'file://' + os.path.join(d, n)
        send({'jsonrpc': '2.0', 'id': 0, 'method': 'initialize', 'params': {'processId': None, 'rootUri': 'file://' + d, 'capabilities': {}}})
        send({'jsonrpc': '2.0', 'method': 'initialized', 'params': {}})
        rid = 0
        opened = set()
        texts = dict(case['docs'])
        for step in case['script']:
            op, n = step[0], step[1]
            if op == 'open' or (op == 'change' and n not in opened):
                if op == 'change':
                    texts[n] = step[2]
                send({'jsonrpc': '2.0', 'method': 'textDocument/didOpen', 'params': {'textDocument': {'uri': uri(n), 'languageId': 'ucg', 'version': 1, 'text': texts[n]}}})
                opened.add(n)
            elif op == 'change':
                texts[n] = step[2]
                send({'jsonrpc': '2.0', 'method': 'textDocument/didChange', 'params': {'textDocument': {'uri': uri(n), 'version': 2}, 'contentChanges': [{'text': step[2]}]}})
            else:
                rid += 1
                if op == 'symbols':
                    send({'jsonrpc': '2.0', 'id': rid, 'method': 'workspace/symbol', 'params': {'query': ''}})
                    continue
                meth = {'hover': 'textDocument/hover', 'definition': 'textDocument/definition', 'completion': 'textDocument/completion', 'semantic': 'textDocument/semanticTokens/full',
                        'token_at': 'textDocument/hover', 'token_prefix_at': 'textDocument/completion', 'cursor_in_string': 'textDocument/completion'}[op]
                params = {'textDocument': {'uri': uri(n)}}
                if op != 'semantic':
                    params['position'] = {'line': step[2], 'character': step[3]}
                send({'jsonrpc': '2.0', 'id': rid, 'method': meth, 'params': params})
        rid += 1
        send({'jsonrpc': '2.0', 'id': rid, 'method': 'shutdown', 'params': None})
        send({'jsonrpc': '2.0', 'method': 'exit', 'params': None})
        try:
            so, se = p.communicate(timeout=timeout)
        except subprocess.TimeoutExpired:
            p.kill()
            so, se = p.communicate()
        msgs = []
        i = 0
        while True:
            j = so.find(b'Content-Length:', i)
            if j < 0:
                break
            k = so.index(b'\r\n\r\n', j)
            ln = int(so[j + 15:k].strip())
            msgs.append(json.loads(so[k + 4:k + 4 + ln]))
            i = k + 4 + ln
        resp = {m['id']: m for m in msgs if 'id' in m and 'method' not in m}
        diags = {}
        for m in msgs:
            if m.get('method') == 'textDocument/publishDiagnostics':
                diags[os.path.basename(m['params']['uri'])] = m['params']['diagnostics']
        return {'rc': p.returncode, 'answered_shutdown': rid in resp, 'responses': resp, 'diagnostics': diags, 'stderr': se.decode(errors='replace')[-400:], 'texts': texts, 'last_id': rid}


def json_ranges(v):
    if isinstance(v, dict):
        if set(v.keys()) >= {'start', 'end'} and isinstance(v['start'], dict) and 'line' in v['start']:
            yield ((v['start']['line'], v['start']['character']), (v['end']['line'], v['end']['character']))
        for x in v.values():
            yield from json_ranges(x)
    elif isinstance(v, list):
        for x in v:
            yield from json_ranges(x)


def judge(fw, v):
    if v.get('case') is None:
        return None
    s = lsp_session(fw, v['case'])
    fw.replayed += 1
    v['native'] = {'rc': s['rc'], 'answered_shutdown': s['answered_shutdown'], 'stderr': s['stderr'][-200:]}
    k = v['check']
    if k == 'panic':
        # the server must still answer the request after the one that hit the panic, and the shutdown request
        return not s['answered_shutdown'] or any(i not in s['responses'] for i in range(1, s['last_id']))
    text = s['texts'].get('main.ucg', '')
    if k in ('range-outside', 'token-outside'):
        if v['key'].startswith('C20:tokens'):
            data = ((s['responses'].get(1) or {}).get('result') or {}).get('data') or []
            line = col = 0
            for i in range(0, len(data), 5):
                dl, ds, ln = data[i], data[i + 1], data[i + 2]
                line += dl
                col = ds if dl else col + ds
                if not (inside(text, line, col) and inside(text, line, col + ln - (1 if ln else 0))):
                    return True
            return False
        pool = [s['diagnostics'].get('main.ucg', [])] + [m.get('result') for m in s['responses'].values()]
        for (l1, c1), (l2, c2) in json_ranges(pool):
            if not (inside(text, l1, c1) and inside(text, l2, c2)):
                return True
        return False
    if k in ('syntax-error-not-reported', 'syntax-error-position', 'diagnostic-on-building-text'):
        d = s['diagnostics'].get('main.ucg', [])
        if k == 'syntax-error-not-reported':
            return not d
        if k == 'diagnostic-on-building-text':
            import tempfile
            with tempfile.TemporaryDirectory(prefix='ucg-verif-c20b-') as dd:
                open(os.path.join(dd, 'main.ucg'), 'w', newline='').write(text)
                open(os.path.join(dd, 'data.txt'), 'w').write('hello')
                r = fw.native().cli(['build', 'main.ucg'], dd)
            return r['rc'] == 0 and bool(d)
        return True
    if k == 'stale-symbols':
        def names(sess):
            r = (sess['responses'].get(1) or {}).get('result') or []
            return sorted((x['name'], os.path.basename(x['location']['uri']), x['location']['range']['start']['line']) for x in r)
        ft = v['case']['final_texts']
        fresh = lsp_session(fw, {'docs': {'a.ucg': '', 'b.ucg': ''}, 'script': [['change', n, t] for n, t in ft.items()] + [['symbols', 'a.ucg']]})
        return names(s) != names(fresh)
    if k == 'history':
        final = v['case']['final']
        fresh = lsp_session(fw, {'docs': {final: s['texts'][final]}, 'script': [['open', final]]})
        return fresh['diagnostics'].get(final) != s['diagnostics'].get(final)
    return None


def run(fw):
    quick = fw.tier == 'quick'
    prepare_prog(fw.prog)
    docs = list(DOCS)
    pos_docs = ['basic', 'non-ascii', 'syntax-error', 'empty', 'std-import', 'module', 'string-with-newline', 'dotted', 'doc-comment'] if quick else docs
    an = [{'doc': d} for d in docs]
    pos = [{'doc': d, 'req': r} for d in pos_docs for r in REQS]
    tok = [{'doc': d} for d in docs]
    keysA = ['A1', 'A2', 'A3', 'A4']
    ses = []
    for n in (1, 2, 3):
        for seq in itertools.product(keysA, repeat=n):
            if n == 3 and quick and seq[0] != 'A1':
                continue
            ses.append({'script': [['A', k] for k in seq]})
    for sa in itertools.product(['A1', 'A2'], ['B1', 'B2'], ['A3', 'A1']):
        ses.append({'script': [['A', sa[0]], ['B', sa[1]], ['A', sa[2]]]})
    fw.bounds.update({'documents': len(docs), 'position_documents': len(pos_docs), 'requests': REQS, 'positions': 'line and character symbolic over all of u32 x u32',
                      'sessions': '%d sequences of 1..3 open/change notifications over 1..2 documents that do not import each other' % len(ses),
                      'inside_the_document': 'line exists; character <= UTF-16 length of the line + 1 (one past the end is the conventional end-of-line marker)',
                      'outside': 'the JSON-RPC loop itself (lsp_server, threads, serde): malformed or unknown messages, request/notification interleavings, process liveness — exercised only by the native replay; '
                                 'workspace symbols; documents that import each other while one is edited in the editor (the server deliberately overlays editor content); didClose'})
    fw.oracles.append('the real parser (syntax diagnostics), the real FileBuilder::build (no diagnostics on building text), document geometry in UTF-16 units, fresh-state comparison')
    ucgrun.install_parse_override(fw.prog)
    ucgrun.warm_parse_cache(fw.prog, ucgrun.stdlib_texts(fw.prog))
    ucgrun.make_full_env(interp.Ctx(fw.prog, fuel=10 ** 10))
    fw.explore('analyze', harness_analyze, an, fuel=2_000_000_000)
    fw.explore('positions', harness_positions, pos, fuel=2_000_000_000)
    fw.explore('tokens', harness_tokens, tok, fuel=2_000_000_000)
    fw.explore('sessions', harness_sessions, ses, fuel=2_000_000_000)
    for v in fw.violations:
        v['reproduced'] = judge(fw, v)
    fw.assumptions += ['std/alloc builtins (listed); lsp-types structs/Default impls/constants from the crate\'s own MIR (serde code dropped); url::Url is an opaque string with file-path accessors',
                       'the server loop is not encoded: what is decided is that the functions the loop calls neither panic nor answer outside the document']
    return fw.finish(technique='symbolic execution of rustc MIR (analysis::analyze and the request kernels) with symbolic cursor positions over all of u32 x u32; z3 decides reachability of every panic site and path feasibility; replay against the real `ucg lsp` over stdio')


def replay(fw, case):
    v = dict(case)
    return {'violates': bool(judge(fw, v)), 'native': v.get('native')}
