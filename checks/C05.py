"""C05 — formatting a file never changes its meaning or loses its comments.

Engine M: the real tokenizer + parser (with comment map) and the real `AstPrinter` run from MIR. Families:
  layout   — one skeleton per render arm; the skeleton's tokens are put one per line, parsed by the real parser, and then
             every `Position.line` in the tree becomes a *symbolic* line L[k] (monotone, gaps 0..3) and 1..2 comment groups
             sit on *symbolic* lines C[j] (own line or trailing a token). The printer's comparisons on line numbers fork
             the run; z3 decides which orders are feasible, so each path stands for every layout with that relative
             order of comments and nodes. Per path the (concrete) output is re-parsed by the real parser and must
             (a) parse, (b) give the same tree modulo positions/field quoting, (c) contain every comment, same text and
             order, and (d) when all its comments are on lines of their own between statements, re-format to itself.
  strings  — string literals / quoted field names of 1..3 *symbolic bytes*: printed by the real printer (escape_quotes,
             is_bareword) and read back by the real tokenizer on the symbolic output; z3 decides value equality.
  literals — concrete programs with the literal forms named in the property (zero-fraction, large and small floats,
             ranges with a step, escapes, non-ASCII text, quoted field names, blank comments).
  corpus   — the repository's own .ucg files through the same pipeline (engine for a few, natively for all)."""
import glob
import os
import re
import sys
import z3

import astb
import symprog as SP
import ucgrun
from mirsym import interp
from mirsym.vals import Agg, VecV, MapV, SymStr, CellV, Ref, NONE, some, is_sym, deref_all, seq_items, assemble
from mirsym.bi_str import sink_new, sink_pieces

LEX = re.compile(r'''[ \t\r\n]+|//[^\n]*|"(?:\\.|[^"\\])*"|[A-Za-z_][A-Za-z0-9_-]*|\d+\.\d+|\d+|==|!=|>=|<=|=>|&&|\|\||%%|!~|::|\.\.|.''', re.S)


def lex(text, keep=False):
    return [t for t in LEX.findall(text) if keep or not t.isspace()]


SKELETONS = {
    'arith': 'let a = 1 + 2 * 3 - x / 4 %% 5;',
    'tuple': 'let t = {a = 1, b = "s", "c d" = [1, 2], n = NULL};',
    'list': 'let l = [1, [2, 3], {x = 1}, "s"];',
    'func-call': 'let f = func (a, b) => a + b; let r = f(1, 2);',
    'func-one-arg': 'let g = func (a) => {x = a}; g(1);',
    'copy': 'let c = base{x = 2, y = {z = 3}};',
    'select-default': 'let s = select ("k", 0) => {k = 1, j = 2};',
    'select': 'let s = select (k) => {k = 1};',
    'module-out': 'let m = module {a = 1} => (r) {let r = mod.a + 1;};',
    'module': 'let m = module {a = 1, b = 2} => {let r = mod.a; let q = 2;};',
    'map-filter': 'let p = map(func (x) => x + 1, [1, 2]); let q = filter(func (x) => x > 1, p);',
    'reduce': 'let r = reduce(func (acc, x) => acc + x, 0, l);',
    'format-list': 'let fm = "a @ b @" % (1, 2);',
    'format-single': 'let fs = "x @{item.a}" % t;',
    'range': 'let r = 0:2:10; let r2 = 1:5;',
    'not-grouped': 'let n = not true; let g = (1 + 2) * 3;',
    'import-include': 'let i = import "std/lists.ucg"; let inc = include str "f.txt";',
    'assert-out': 'assert {ok = true, desc = "d"}; out json {a = 1};',
    'cast-convert': 'let c = int("1"); let cv = convert json {a = 1};',
    'trace-fail': 'let d = TRACE 1 + 1; let e = select (k, fail "msg") => {a = 1};',
    'constraints': 'let x :: in 1..10 = 5; constraint small = in 0..9 | "s"; let y :: small = 3;',
    'selectors': 'let s = a.b.c.0; let cc = a.f(1); let k = t."c d";',
    'compare': 'let cmp = 1 == 2 && "a" != "b" || x in l; let w = x is "str"; let re = s ~ "a.*"; let nre = s !~ "b";',
    'floats': 'let fl = 1.5 + 0.25;',
    'three-statements': 'let a = 1; let b = [a]; let c = {x = b};',
    'typed-fields': 'let t = {a :: 1 = 2, b :: "s" = "t"}; let f = func (a :: 1, b) => a;',
}
QUICK_SKEL = ['arith', 'tuple', 'list', 'func-call', 'copy', 'select-default', 'module-out', 'map-filter', 'format-list', 'range', 'not-grouped', 'three-statements', 'constraints', 'compare']

LITERALS = {
    'float-zero-fraction': 'let f = 1.0;\n',
    'float-zero': 'let f = 0.0;\n',
    'float-large': 'let f = 100000000000000000000000.0;\n',
    'float-small': 'let f = 0.000000001;\n',
    'float-in-list': 'let l = [\n  2.0,\n  2.5,\n];\n',
    'range-step': 'let r = 0:2:10;\n',
    'range-step-names': 'let r = a:b:c;\n',
    'range-plain': 'let r = 1:5;\n',
    'escapes': 'let s = "q\\"q b\\\\b";\n',
    'escape-newline': 'let s = "a\\nb\\tc";\n',
    'non-ascii': 'let s = "héllo 日本 😀";\n',
    'non-ascii-field': 'let t = {\n  "héllo" = 1,\n};\n',
    'field-with-space': 'let t = {\n  "a b" = 1,\n};\n',
    'field-with-digit': 'let t = {\n  x1 = 1,\n};\n',
    'field-with-dash': 'let t = {\n  a-b = 1,\n};\n',
    'field-quoted-keyword': 'let t = {\n  "let" = 1,\n  "in" = 2,\n};\n',
    'field-quoted-quote': 'let t = {\n  "a\\"b" = 1,\n};\n',
    'blank-comment': '//\nlet a = 1;\n',
    'blank-comment-between': 'let a = 1;\n\n//\n// x\n//\nlet b = 2;\n',
    'comment-no-space': '//x\nlet a = 1;\n',
    'comment-trailing-space': '// x  \nlet a = 1;\n',
    'comment-last': 'let a = 1;\n// end\n',
    'comments-indented': 'let a = 1;\n  // one\n  // two\nlet b = 2;\n',
    'format-escaped-at': 'let s = "a \\\\@ @" % (1);\n',
    'format-quote': 'let s = "a \\" @" % (1);\n',
    'import-path-quote': 'let i = import "a\\"b.ucg";\n',
    'redundant-parens': 'let a = ((1 + 2)) * (3);\n',
    'trailing-commas': 'let t = {a = 1, b = [1, 2,],};\n',
    'select-no-default': 'let s = select (k) => {\n  k = 1,\n};\n',
    'module-empty-args': 'let m = module {} => {\n  let r = 1;\n};\n',
    'func-no-args': 'let f = func () => 1;\n',
    'empty-containers': 'let t = {};\nlet l = [];\n',
    'call-no-args': 'let r = f();\n',
    'nested-dot-call': 'let r = a.b.f(1).c;\n',
    'negative-via-sub': 'let n = 0 - 5;\n',
    'string-with-slashes': 'let s = "http://x//y";\n',
    'crlf': 'let a = 1;\r\n// c\r\nlet b = 2;\r\n',
}


# ------------------------------------------------------------------ helpers
def norm_tree(prog, v):
    """AST -> nested tuples without positions; tokens reduced to their text (quoting of field names ignored)"""
    def walk(x):
        t = type(x)
        if t is Agg:
            if x.ty.endswith('ast::Position'):
                return None
            if x.ty.endswith('ast::Token'):
                return ('tok', walk(x.fields[1]))
            return (x.ty.split('::')[-1], x.variant if not is_sym(x.variant) else str(x.variant)) + tuple(walk(f) for f in x.fields)
        if t is VecV:
            return ('vec',) + tuple(walk(f) for f in x.items)
        if t is SymStr:
            return ('symstr', str(x.bytes))
        if is_sym(x):
            return ('sym', str(x))
        if t in (Ref, CellV):
            return walk(deref_all(x))
        return x
    return walk(v)


def first_diff(a, b, path=''):
    if type(a) is tuple and type(b) is tuple:
        if len(a) != len(b):
            return '%s: %r vs %r' % (path, a[:2], b[:2])
        for i, (x, y) in enumerate(zip(a, b)):
            d = first_diff(x, y, path + '/' + (str(a[0]) if i and type(a[0]) is str else str(i)))
            if d:
                return d
        return None
    if a != b:
        return '%s: %r vs %r' % (path, a, b)
    return None


def run_printer(ctx, stmts, cmap):
    b = astb.B(ctx.prog)
    sink = sink_new()
    pr = ctx.call('AstPrinter::new', [2, sink])
    if cmap is not None:
        pr = ctx.call('AstPrinter::with_comment_map', [pr, cmap])
    cell = CellV(pr)
    r = ctx.call('AstPrinter::render', [Ref(cell.slot, 0, ()), stmts])
    if r.variant != 0:
        raise interp.Unsupported('printer returned an io error on an in-memory writer')
    return assemble(sink_pieces(sink))


def comments_of(cmap):
    out = []
    for k, g in cmap.items:
        for t in deref_all(g).items:
            out.append(deref_all(t.fields[1]))
    return out


def between_statements(text):
    """are all comments of `text` on lines of their own, at top level, directly between statements?"""
    depth = 0
    last = ';'
    line_has_tok = False
    for t in lex(text, keep=True):
        if t.isspace():
            if '\n' in t:
                line_has_tok = False
            continue
        if t.startswith('//'):
            if line_has_tok or depth != 0 or last != ';':
                return False
            continue        # the comment runs to the end of the line; the newline token follows
        line_has_tok = True
        if t in '([{':
            depth += 1
        elif t in ')]}':
            depth -= 1
        last = t
    return True


def check_output(ctx, out, tree0, want_comments, text_of_case, key_base, label):
    """obligations (a)-(d) on printer output `outtext`"""
    prog = ctx.prog

    def viol(kind, what):
        out['violations'].append({'key': '%s:%s' % (key_base, kind), 'what': '%s — %s' % (label, what), 'case': {'kind': 'fmt2', 'text': text_of_case()}, 'check': kind})

    return viol


def verify(ctx, out, stmts0, cmap0, want_comments, key_base, label, case_text):
    """print (stmts0, cmap0) with the real printer and discharge obligations (a)-(d); `case_text()` renders a concrete input"""
    prog = ctx.prog

    def viol(kind, what, prio=5):
        out['violations'].append({'key': '%s:%s' % (key_base, kind), 'what': '%s: %s' % (label, what), 'case': {'kind': 'fmt2', 'text': case_text()}, 'check': kind, 'prio': prio})

    text1 = run_printer(ctx, stmts0, cmap0)
    if type(text1) is not str:
        raise interp.Unsupported('printer output is not concrete: %r' % (text1,))
    out['asserts'] += 1
    r2, cm2 = ucgrun.parse_program(ctx, text1, comment_map=True)
    if r2.variant != 0:
        viol('output-does-not-parse', 'the formatted text is rejected by the parser:\n%s' % text1)
        return text1
    out['asserts'] += 1
    d = first_diff(norm_tree(prog, stmts0), norm_tree(prog, r2.fields[0]))
    if d:
        viol('tree-differs', 'the formatted text parses to a different tree (%s):\n%s' % (d, text1))
        return text1
    out['asserts'] += 1
    got = [c.strip() for c in comments_of(cm2)]
    want = [c.strip() for c in want_comments]
    if got != want:
        viol('comments-differ', 'comments %r became %r in\n%s' % (want, got, text1))
        return text1
    if between_statements(text1):
        out['asserts'] += 1
        text2 = run_printer(ctx, r2.fields[0], cm2)
        if text2 != text1:
            viol('not-a-fixed-point', 'formatting the formatted text again changes it:\n%r\n->\n%r' % (text1, text2))
    return text1


# ------------------------------------------------------------------ layout family
def sym_lines(prog, v, L):
    b = astb.B(prog)
    li = prog.sources.struct_fields('ast::Position').index('line')
    memo = {}

    def walk(x):
        t = type(x)
        if t is Agg:
            r = memo.get(id(x))
            if r is not None:
                return r
            if x.ty.endswith('ast::Position'):
                f = list(x.fields)
                f[li] = L[f[li] - 1]
                r = Agg(x.ty, x.variant, f)
            else:
                nf = tuple(walk(f) for f in x.fields)
                r = x if all(a is c for a, c in zip(nf, x.fields)) else Agg(x.ty, x.variant, nf)
            memo[id(x)] = r
            return r
        if t is VecV:
            ni = tuple(walk(f) for f in x.items)
            return x if all(a is c for a, c in zip(ni, x.items)) else VecV(ni)
        return x
    return walk(v)


def render_layout(toks, Lv, comments):
    """concrete text: token k on line Lv[k]; comments = [(line, fragment, kind)]"""
    last = max(list(Lv) + [c[0] for c in comments])
    lines = []
    for ln in range(1, last + 1):
        ts = [t for t, l in zip(toks, Lv) if l == ln]
        s = ' '.join(ts)
        for cl, frag, kind in comments:
            if cl == ln:
                s = (s + ' //' + frag) if ts else ('  //' + frag)
        lines.append(s)
    return '\n'.join(lines) + '\n'


def harness_layout(ctx, case):
    prog = ctx.prog
    b = astb.B(prog)
    toks = lex(SKELETONS[case['skel']])
    canon = '\n'.join(toks) + '\n'
    r = ucgrun.parse_program(ctx, canon)
    if r.variant != 0:
        raise interp.Unsupported('skeleton %s does not parse' % case['skel'])
    n = len(toks)
    L = [ctx.bv('L%d' % k, 64) for k in range(n)]
    ctx.assume(z3.And(z3.UGE(L[0], 1), z3.ULE(L[0], 3)))
    for k in range(n - 1):
        ctx.assume(z3.And(z3.ULE(L[k], L[k + 1]), z3.ULE(L[k + 1], L[k] + 3)))
    kinds = case['comments']
    C = [ctx.bv('C%d' % j, 64) for j in range(len(kinds))]
    items = []
    want = []
    for j, kind in enumerate(kinds):
        ctx.assume(z3.And(z3.UGE(C[j], 1 if kind != 'group2' else 2), z3.ULE(C[j], L[n - 1] + 3)))
        if j:
            ctx.assume(z3.UGT(C[j], C[j - 1] if kind != 'group2' else C[j - 1] + 1))
        if kind == 'trail':
            ctx.assume(z3.Or(*[z3.And(L[k] == C[j], z3.UGT(L[k + 1], C[j]) if k + 1 < n else True) for k in range(n)]))
        else:
            ctx.assume(z3.And(*[L[k] != C[j] for k in range(n)]))
            if kind == 'group2':
                ctx.assume(z3.And(*[L[k] != C[j] - 1 for k in range(n)]))
        frag = ' c%d' % j
        grp = []
        if kind == 'group2':
            grp.append(b.struct('ast::Token', typ=b.enum('ast::TokenType', 'COMMENT'), fragment=' g%d' % j, pos=b.pos(C[j] - 1, 1, 0)))
            want.append(' g%d' % j)
        grp.append(b.struct('ast::Token', typ=b.enum('ast::TokenType', 'COMMENT'), fragment=frag, pos=b.pos(C[j], 1, 0)))
        want.append(frag)
        items.append((C[j], VecV(grp)))
    cmap = MapV('BTreeMap', items)
    stmts = sym_lines(prog, r.fields[0], L)
    out = {'reached': True, 'asserts': 0, 'violations': []}

    def case_text():
        m = ctx.model()
        Lv = [m.eval(x, model_completion=True).as_long() for x in L]
        cs = []
        for j, kind in enumerate(kinds):
            cv = m.eval(C[j], model_completion=True).as_long()
            if kind == 'group2':
                cs.append((cv - 1, ' g%d' % j, 'own'))
            cs.append((cv, ' c%d' % j, kind))
        return render_layout(toks, Lv, cs)

    text1 = verify(ctx, out, stmts, cmap, want, 'C05:layout:%s:%s' % (case['skel'], '+'.join(kinds)), 'skeleton %s, comments %s' % (case['skel'], kinds), case_text)
    out['sample'] = {'skeleton': case['skel'], 'comments': kinds, 'input': case_text(), 'formatted': text1}
    return out


# ------------------------------------------------------------------ concrete programs (literals, corpus)
def harness_text(ctx, case):
    text = case['text']
    out = {'reached': True, 'asserts': 0, 'violations': []}
    ctx.parse_fuel = ctx.fuel
    r, cm = ucgrun.parse_program(ctx, text, comment_map=True)
    if r.variant != 0:
        raise interp.Unsupported('input %s does not parse' % case['name'])
    text1 = verify(ctx, out, r.fields[0], cm, comments_of(cm), 'C05:%s:%s' % (case['fam'], case['name']), case['name'], lambda: text)
    out['sample'] = {'name': case['name'], 'formatted': text1[:300]}
    out['formatted'] = text1
    return out


# ------------------------------------------------------------------ symbolic strings
ALPHA_FIELD = 'ainstle_1- "\\'


def harness_strings(ctx, case):
    prog = ctx.prog
    b = astb.B(prog)
    n = case['n']
    syms = [ctx.bv('s%d' % i, 8) for i in range(n)]
    out = {'reached': True, 'asserts': 0, 'violations': []}
    if case['where'] == 'value':
        for c in syms:
            ctx.assume(z3.And(c != 0, z3.ULT(c, 0x80), c != 0x0a, c != 0x0d))
        r = ucgrun.parse_program(ctx, 'let v = "ZQS1ZQ";\n')
        stmts = SP.subst(prog, r.fields[0], strs={1: SymStr(tuple(syms))})
    else:
        for c in syms:
            ctx.assume(z3.Or(*[c == ord(x) for x in ALPHA_FIELD]))
        r = ucgrun.parse_program(ctx, 'let v = {\n  zqf = 1,\n};\n')
        name = SymStr(tuple(syms))

        def walk(x):
            if type(x) is Agg:
                if x.ty.endswith('ast::Token') and deref_all(x.fields[1]) == 'zqf':
                    return Agg(x.ty, x.variant, (x.fields[0], name, x.fields[2]))
                return Agg(x.ty, x.variant, tuple(walk(f) for f in x.fields))
            if type(x) is VecV:
                return VecV(tuple(walk(f) for f in x.items))
            return x
        stmts = walk(r.fields[0])
    text1 = run_printer(ctx, stmts, None)
    bs = seq_items(text1) if type(text1) is not str else tuple(text1.encode())
    it = ctx.call('OffsetStrIter::new', [SymStr(tuple(bs))])
    r2 = ctx.call('parse', [it, NONE])
    out['asserts'] += 1
    m = ctx.model()
    val = bytes(m.eval(s, model_completion=True).as_long() for s in syms)
    shown = bytes((m.eval(x, model_completion=True).as_long() if is_sym(x) else x) for x in bs).decode('latin-1')

    def viol(kind, what):
        if case['where'] == 'value':
            src = 'let v = "%s";\n' % val.decode('latin-1').replace('\\', '\\\\').replace('"', '\\"')
        else:
            src = 'let v = {\n  "%s" = 1,\n};\n' % val.decode('latin-1').replace('\\', '\\\\').replace('"', '\\"')
        out['violations'].append({'key': 'C05:strings:%s:%s' % (case['where'], kind), 'what': what, 'case': {'kind': 'fmt2', 'text': src}, 'check': kind})

    if r2.variant != 0:
        viol('output-does-not-parse', 'the %s %r is printed as %r, which the parser rejects' % (case['where'], val, shown))
        return out
    t0 = norm_tree(prog, stmts)
    t1 = norm_tree(prog, r2.fields[0])
    # structural equality with symbolic byte strings compared by z3
    conds = []

    def cmp(a, c):
        if type(a) is tuple and type(c) is tuple and a[:1] == ('symstr',) or (type(c) is tuple and c[:1] == ('symstr',)):
            return None
        return a == c

    def eq(x, y):
        """-> False if structurally different; appends byte equalities to conds"""
        if type(x) is Agg and type(y) is Agg:
            if x.ty.endswith('ast::Position') and y.ty.endswith('ast::Position'):
                return True
            if x.ty.endswith('ast::Token') and y.ty.endswith('ast::Token'):
                return eq(x.fields[1], y.fields[1])
            if x.ty != y.ty or x.variant != y.variant or len(x.fields) != len(y.fields):
                return False
            return all(eq(p, q) for p, q in zip(x.fields, y.fields))
        if type(x) is VecV and type(y) is VecV:
            return len(x.items) == len(y.items) and all(eq(p, q) for p, q in zip(x.items, y.items))
        x, y = deref_all(x), deref_all(y)
        if type(x) in (str, SymStr) and type(y) in (str, SymStr):
            xb = x.bytes if type(x) is SymStr else tuple(x.encode())
            yb = y.bytes if type(y) is SymStr else tuple(y.encode())
            if len(xb) != len(yb):
                return False
            for p, q in zip(xb, yb):
                if is_sym(p) or is_sym(q):
                    conds.append((p if is_sym(p) else z3.BitVecVal(p, 8)) == (q if is_sym(q) else z3.BitVecVal(q, 8)))
                elif p != q:
                    return False
            return True
        if type(x) in (Agg, VecV) or type(y) in (Agg, VecV):
            return False
        return x == y if not (is_sym(x) or is_sym(y)) else True

    same = eq(stmts, r2.fields[0])
    if same and conds:
        same = ctx.valid(z3.And(*conds))
    if not same:
        viol('tree-differs', 'the %s %r is printed as %r, which reads back differently' % (case['where'], val, shown))
    else:
        out['sample'] = {'where': case['where'], 'value': val.decode('latin-1'), 'printed': shown}
    return out


# ------------------------------------------------------------------ native judging
_POS = re.compile(r'Position \{[^}]*\}')
_TYP = re.compile(r'typ: (QUOTED|BAREWORD)')


def ndebug(s):
    return _TYP.sub('typ: _', _POS.sub('P', s or ''))


def make_judge(v):
    def judge(o):
        k = v['check']
        if not o.get('ok'):
            return False        # the input itself must parse; otherwise the model rendering is at fault
        s = o.get('second') or {}
        if k == 'output-does-not-parse':
            return not s.get('ok')
        if not s.get('ok'):
            return True
        if k == 'tree-differs':
            return ndebug(o['debug']) != ndebug(s['debug'])
        if k == 'comments-differ':
            return [c.strip() for c in o['comments']] != [c.strip() for c in s['comments']]
        if k == 'not-a-fixed-point':
            return s['out'] != o['out'] and between_statements(o['out'])
        return False
    return judge


def corpus_files(tree):
    fs = []
    for pat in ('std/*.ucg', 'std/tests/*.ucg', 'integration_tests/*.ucg', 'integration_tests/**/*.ucg', 'examples/*.ucg', 'examples/**/*.ucg'):
        fs += glob.glob(os.path.join(tree, pat), recursive=True)
    return sorted(set(fs))


def run(fw):
    quick = fw.tier == 'quick'
    skels = QUICK_SKEL if quick else list(SKELETONS)
    combos = [['own'], ['trail']] if quick else [['own'], ['trail'], ['group2'], ['own', 'own'], ['own', 'trail'], ['trail', 'own'], ['trail', 'trail']]
    lay = [{'skel': s, 'comments': c} for s in skels for c in combos]
    if quick:
        lay += [{'skel': s, 'comments': ['own', 'own']} for s in ('tuple', 'three-statements', 'func-call')]
    lits = [{'fam': 'literals', 'name': k, 'text': t} for k, t in LITERALS.items()]
    files = corpus_files(fw.tree)
    corpus = []
    for f in files:
        rel = os.path.relpath(f, fw.tree)
        text = open(f, encoding='utf-8').read()
        corpus.append({'fam': 'corpus', 'name': rel, 'text': text})
    eng_corpus = [c for c in corpus if len(c['text']) < (1500 if quick else 6000)]
    if quick:
        eng_corpus = eng_corpus[:: max(1, len(eng_corpus) // 12)]
    strs = [{'where': 'value', 'n': 1}, {'where': 'value', 'n': 2}, {'where': 'field', 'n': 1}, {'where': 'field', 'n': 2}]
    if not quick:
        strs += [{'where': 'value', 'n': 3}, {'where': 'field', 'n': 3}]
    fw.bounds.update({'layout_skeletons': skels, 'comment_placements': combos, 'line_gaps': '0..3 lines between consecutive tokens, first token on line 1..3',
                      'symbolic_string_bytes': '1..%d' % (2 if quick else 3), 'field_name_alphabet': ALPHA_FIELD, 'literal_programs': len(lits),
                      'corpus_files_in_engine': len(eng_corpus), 'corpus_files_native': len(corpus), 'indent': 2,
                      'outside': 'columns/indentation of the input (the printer reads only line numbers), more than 2 comment groups per program, programs of the C01 generator beyond the skeletons, '
                                 'the -w overwrite path of fmt_file (File::create before rendering)'})
    fw.oracles.append('re-parse by the real parser; tree equality modulo Position and field-name quoting; comment list equality (text stripped of surrounding blanks); fixed point for comments on own lines between top-level statements')
    ucgrun.warm_parse_cache(fw.prog, ['\n'.join(lex(SKELETONS[s])) + '\n' for s in skels])
    fw.explore('layout', harness_layout, lay, fuel=2_000_000_000)
    fw.explore('strings', harness_strings, strs, fuel=2_000_000_000)
    fw.explore('literals', harness_text, lits, fuel=2_000_000_000)
    # the real parser backtracks exponentially in the nesting depth (examples/test_xml.ucg: 5 s natively): files that exceed the
    # step budget in the engine are covered by the native run below only
    recs = fw.explore('corpus', harness_text, eng_corpus, fuel=30_000_000 if quick else 400_000_000, tolerate=('bound',))
    # the whole corpus natively (concrete differential; also validates the engine's printer run against the real one)
    nat = fw.native()
    outs = nat.run_many([{'kind': 'fmt2', 'text': c['text']} for c in corpus])
    fw.replayed += len(outs)
    eng = {r['case']['name']: r.get('formatted') for r in recs if r.get('case')}
    for c, o in zip(corpus, outs):
        if not o.get('ok'):
            continue        # not every .ucg file in the repository is meant to parse
        if c['name'] in eng and eng[c['name']] is not None and eng[c['name']] != o['out']:
            fw.inconclusive.append('engine and native printer disagree on %s' % c['name'])
        for k in ('output-does-not-parse', 'tree-differs', 'comments-differ', 'not-a-fixed-point'):
            v = {'check': k}
            if make_judge(v)(o):
                fw.violations.append({'key': 'C05:corpus:%s:%s' % (c['name'], k), 'what': '%s: %s (native run of the real printer)' % (c['name'], k), 'case': {'kind': 'fmt2', 'text': c['text']},
                                      'check': k, 'family': 'corpus-native'})
                break
    for v in fw.violations:
        v['judge'] = make_judge(v)
    fw.assumptions += ['std/alloc builtins (listed)', 'symbolic line numbers are substituted into the tree the real parser produced for the one-token-per-line rendering; the comment map for symbolic lines is built by the harness '
                       '(one group per comment, keyed by its line — what the real tokenizer produces for indented or trailing comments; validated by native replay of every reported model)']
    return fw.finish(technique='symbolic execution of rustc MIR (AstPrinter over trees with symbolic line numbers and symbolic string bytes; real parser on the output); z3 decides feasible comment/node orders and byte equality; native replay')


def replay(fw, case):
    out = fw.replay(case['case'])
    return {'native': out, 'violates': bool(make_judge(case)(out))}
