"""C14 — `out` writes one artifact: right name, same bytes as `convert`, all or nothing.

Engine M on the binary crate's MIR: the real `build_command` → `visit_ucg_files` → `do_compile` → `build_file` →
`FileBuilder::build` → ... → `Builtins::{out, convert}` → real converters are executed for one source file read through
the virtual file system; `File::create` (contract: creates *or truncates*) and writes are recording stubs. Integer
leaves of the output value are symbolic. Obligations over the event list, decided on every path: the artifact is created
exactly once under the source name with the converter's extension; its bytes equal, piece for piece, the string
`convert <fmt> <value>` evaluates to in the same program; a second `out` fails the build; and on every path where the
build fails there is **no create event** (nothing new, nothing truncated)."""
import os
import sys
import tempfile
import z3

import astb
import symprog as SP
import ucgrun
from mirsym import interp
from mirsym.vals import Agg, VecV, MapV, SymStr, FmtV, is_sym, assemble
from mirsym.bi_core import sym_eq

P = SP.ph
EXT = {'flags': 'txt', 'env': 'env', 'exec': 'sh'}


def cases(tier):
    cs = []

    def add(name, text, expect_ok, fmt=None, outs=1, src='conf.ucg', files=None):
        cs.append({'name': name, 'text': text, 'ok': expect_ok, 'fmt': fmt, 'outs': outs, 'src': src, 'files': files or {}})
    add('flags-ok', 'let v = {a = %s, bb = "x y", c = [1, %s]};\nlet s = convert flags v;\nout flags v;\n' % (P(1), P(2)), True, 'flags')
    add('env-ok', 'let v = {A = %s, B = "it\'s"};\nlet s = convert env v;\nout env v;\n' % P(1), True, 'env')
    add('exec-ok', 'let v = {command = "run", args = ["a b", {n = %s}], env = {X = "1"}};\nlet s = convert exec v;\nout exec v;\n' % P(1), True, 'exec')
    for src in ('site.prod.ucg', 'noext', 'd.x/conf.ucg', '.hidden.ucg', 'a.b.c.d'):
        add('name:' + src, 'out flags {a = %s};\n' % P(1), True, 'flags', src=src)
        add('name-env:' + src, 'out env {A = %s};\n' % P(1), True, 'env', src=src)
    add('flags-non-tuple', 'let v = %s;\nout flags v;\n' % P(1), False, 'flags')
    add('exec-no-command', 'let v = {args = ["a"]};\nout exec v;\n', False, 'exec')
    add('exec-bad-command', 'let v = {command = %s};\nout exec v;\n' % P(1), False, 'exec')
    add('exec-non-tuple', 'out exec [%s];\n' % P(1), False, 'exec')
    add('exec-bad-arg', 'out exec {command = "c", args = [%s]};\n' % P(1), False, 'exec')
    add('unknown-converter', 'out nosuchformat {a = %s};\n' % P(1), False, None)
    add('two-outs', 'out flags {a = %s};\nout flags {b = 1};\n' % P(1), False, 'flags', outs=2)
    add('two-outs-different-formats', 'out flags {a = %s};\nout env {B = 1};\n' % P(1), False, 'flags', outs=2)
    # the one-output rule holds whatever is evaluated between the two statements (an import runs a nested evaluation)
    lib = {'lib.ucg': 'let x = 1;\n', 'lib2.ucg': 'let y = import "./lib.ucg";\n'}
    add('two-outs-import-between', 'out flags {a = %s};\nlet l = import "./lib.ucg";\nout flags {b = l.x};\n' % P(1), False, 'flags', outs=2, files=lib)
    add('two-outs-import-between-different-formats', 'out flags {a = %s};\nlet l = import "./lib.ucg";\nout env {B = l.x};\n' % P(1), False, 'flags', outs=2, files=lib)
    add('two-outs-nested-import-between', 'out flags {a = %s};\nlet l = import "./lib2.ucg";\nout flags {b = 1};\n' % P(1), False, 'flags', outs=2, files=lib)
    add('two-outs-cached-import-between', 'let k = import "./lib.ucg";\nout flags {a = %s};\nlet l = import "./lib.ucg";\nout flags {b = l.x};\n' % P(1), False, 'flags', outs=2, files=lib)
    add('two-outs-include-between', 'out flags {a = %s};\nlet l = include str "./lib.ucg";\nout flags {b = 1};\n' % P(1), False, 'flags', outs=2, files=lib)
    add('import-then-out', 'let l = import "./lib.ucg";\nout flags {a = l.x, b = %s};\n' % P(1), True, 'flags', files=lib)
    add('out-then-import', 'out flags {a = %s};\nlet l = import "./lib.ucg";\n' % P(1), True, 'flags', files=lib)
    if tier == 'thorough':
        add('two-outs-std-import-between', 'out flags {a = %s};\nlet l = import "std/tuples.ucg";\nout flags {b = 1};\n' % P(1), False, 'flags', outs=2)
    add('no-out', 'let v = {a = %s};\n' % P(1), True, None, outs=0)
    add('error-after-out', 'out flags {a = %s};\nlet x = nosuch;\n' % P(1), False, 'flags')
    add('error-before-out', 'let x = 1 / (%s - %s);\nout flags {a = x};\n' % (P(1), P(1)), False, 'flags')
    add('symbolic-failure', 'let x = 10 / %s;\nout flags {a = x};\n' % P(1), None, 'flags')
    return cs


def artifact_name(src, ext):
    """the source file's name with the format's extension: the last extension of the file name is replaced (a leading
    dot does not start an extension), a name without extension gets one appended"""
    d, name = src.rsplit('/', 1)
    stem = name.rsplit('.', 1)[0] if '.' in name[1:] else name
    return d + '/' + stem + '.' + ext


def pieces_of(v):
    v = assemble([v])
    if type(v) is str:
        return [v] if v else []
    if type(v) is SymStr:
        return [v]
    return list(v.pieces)


def same_text(ctx, a, b_):
    pa = pieces_of(assemble(a))
    pb = pieces_of(assemble(b_))
    if len(pa) != len(pb):
        return False
    for x, y in zip(pa, pb):
        if type(x) is tuple and type(y) is tuple:
            if x[0] != y[0] or not (x[1] is y[1] or (is_sym(x[1]) and is_sym(y[1]) and x[1].eq(y[1])) or x[1] == y[1]):
                return False
            continue
        e = sym_eq(ctx, x, y)
        if e is True:
            continue
        if e is False or not ctx.valid(e):
            return False
    return True


def harness(ctx, case):
    prog = ctx.prog
    b = astb.B(prog)
    ucgrun.install_parse_override(prog)
    src = '/cwd/' + case.get('src', 'conf.ucg')
    ctx.fs[src] = case['text']
    for name, text in case.get('files', {}).items():
        ctx.fs['/cwd/' + name] = text
    ints = {i: ctx.bv('a%d' % i, 64) for i in (1, 2) if SP.ph(i) in case['text']}
    ctx.parse_subst = {'ints': ints}
    env = ucgrun.make_env(ctx)
    matches = Agg('ArgMatches', None, (MapV('HashMap').insert('INPUT', VecV([case.get('src', 'conf.ucg')])), MapV('HashMap')))
    exited = 0
    try:
        ctx.call('build_command', [matches, VecV([]), True, env])
    except interp.HarnessStop as h:
        exited = h.payload
    out = {'reached': True, 'asserts': 0, 'violations': []}
    creates = [e[1] for e in ctx.events if e[0] == 'create']
    writes = {}
    for e in ctx.events:
        if e[0] == 'write':
            writes.setdefault(e[1], []).append(e[2])
    failed = exited != 0
    want = []

    def report(key, what):
        m = ctx.model()
        text = SP.render_text(case['text'], m, ctx, ints)
        out['violations'].append({'key': 'C14:%s:%s' % (key, case['name']), 'what': what + ' — %s: %r' % (case.get('src', 'conf.ucg'), text),
                                  'case': {'kind': 'cli-build', 'text': text, 'src': case.get('src', 'conf.ucg'), 'files': case.get('files', {})}, 'kind': key, 'fmt': case['fmt'],
                                  'expect_ok': not failed if case['ok'] is None else case['ok'], 'want': [w[len('/cwd/'):] for w in (want if not failed else [])]})

    out['asserts'] += 1
    if case['ok'] is not None and failed != (not case['ok']):
        report('wrong-outcome', 'the build %s but should %s' % ('fails' if failed else 'succeeds', 'succeed' if case['ok'] else 'fail'))
        return out
    if failed:
        out['asserts'] += 1
        # all or nothing: a failing build must not create (= truncate) an artifact ... unless an earlier `out` of the
        # same file succeeded before the failure (then that one artifact is complete)
        complete_first = case['outs'] == 2 or case['name'] == 'error-after-out'
        if creates and not complete_first:
            report('artifact-touched-by-failed-build', 'the build fails but %s was created/truncated' % creates)
            return out
        if complete_first and len(creates) > 1:
            report('second-out-touched-artifact', 'a second out statement created %s' % creates[1:])
            return out
        out['sample'] = {'case': case['name'], 'failed': True, 'creates': creates}
        return out
    # successful build
    keeps = [e for e in ctx.events if e[0] == 'open-keep']
    out['asserts'] += 1
    if keeps:
        report('artifact-not-truncated', 'the artifact %s is opened for writing without truncation (%s): bytes of an earlier, longer artifact survive behind the new output' % (keeps[0][1], keeps[0][2]))
        return out
    want = [] if case['outs'] == 0 else [artifact_name(src, EXT[case['fmt']])]
    out['asserts'] += 2
    if creates != want:
        report('wrong-artifact-name', 'artifacts created %s, expected %s' % (creates, want))
        return out
    if want:
        # same bytes as `convert`
        data = writes.get(want[0], [])
        if 'let s = convert' in case['text']:
            # find the VM binding s: the build ran inside build_file; re-evaluate convert on the same AST through eval
            stmts = ucgrun.parse_ok(ctx, case['text'].split('out ')[0])
            stmts = SP.subst(prog, stmts, ints)
            res, vm, _ = ucgrun.run_program(ctx, stmts, env=ucgrun.make_env(ctx))
            sv = SP.binding(ctx, vm, 's')
            from mirsym.vals import deref_all
            sval = deref_all(sv).fields[0].fields[0]
            out['asserts'] += 1
            if not same_text(ctx, data, [sval]):
                report('artifact-differs-from-convert', 'artifact bytes %r differ from the string convert evaluates to %r' % (assemble(data), sval))
                return out
    out['sample'] = {'case': case['name'], 'creates': creates, 'bytes': repr(assemble(writes.get(want[0], [])))[:120] if want else None}
    return out


def judge(fw, v):
    c = v['case']
    srcname = c.get('src', 'conf.ucg')
    with tempfile.TemporaryDirectory(prefix='ucg-verif-c14-') as d:
        os.makedirs(os.path.dirname(os.path.join(d, srcname)), exist_ok=True)
        open(os.path.join(d, srcname), 'w').write(c['text'])
        for name, text in (c.get('files') or {}).items():
            open(os.path.join(d, name), 'w').write(text)
        if v['kind'] == 'wrong-artifact-name':
            r = fw.native().cli(['build', srcname], d)
            made = sorted(os.path.relpath(os.path.join(dp, f), d) for dp, _, fs in os.walk(d) for f in fs if os.path.join(dp, f) != os.path.join(d, srcname) and f not in (c.get('files') or {}))
            fw.replayed += 1
            v['native'] = {'rc': r['rc'], 'artifacts': made}
            return made != sorted(v.get('want') or [])
        if v['kind'] == 'artifact-not-truncated':
            # build into an empty directory, then again over a much longer earlier artifact: same bytes expected
            r0 = fw.native().cli(['build', srcname], d)
            made = [f for f in os.listdir(d) if f != srcname and f not in (c.get('files') or {}) and os.path.isfile(os.path.join(d, f))]
            clean = {f: open(os.path.join(d, f), 'rb').read() for f in made}
            for f in made:
                open(os.path.join(d, f), 'wb').write(b'X' * 4096)
            r = fw.native().cli(['build', srcname], d)
            again = {f: open(os.path.join(d, f), 'rb').read() for f in made}
            fw.replayed += 1
            v['native'] = {'rc': r['rc'], 'sizes_clean': {f: len(x) for f, x in clean.items()}, 'sizes_over_longer': {f: len(x) for f, x in again.items()}}
            return r0['rc'] == 0 and r['rc'] == 0 and clean != again
        pre = {}
        for ext in ('txt', 'env', 'sh', 'json', 'toml', 'yaml', 'xml'):
            p = os.path.join(d, 'conf.' + ext)
            open(p, 'w').write('OLD ARTIFACT\n')
            pre[ext] = 'OLD ARTIFACT\n'
        r = fw.native().cli(['build', srcname], d)
        after = {ext: open(os.path.join(d, 'conf.' + ext)).read() for ext in pre}
    fw.replayed += 1
    v['native'] = {'rc': r['rc'], 'stderr': r['stderr'][-300:], 'artifacts': {k: x for k, x in after.items() if x != pre[k]}}
    kind = v['kind']
    if kind == 'artifact-touched-by-failed-build':
        return r['rc'] != 0 and any(after[e] != pre[e] for e in pre)
    if kind == 'wrong-outcome':
        return (r['rc'] == 0) != bool(v['expect_ok'])
    if kind == 'second-out-touched-artifact':
        return sum(1 for e in pre if after[e] != pre[e]) > 1
    if kind == 'wrong-artifact-name':
        changed = [e for e in pre if after[e] != pre[e]]
        return changed != ([EXT[v['fmt']]] if v['fmt'] else [])
    return True


def run(fw):
    cs = cases(fw.tier)
    fw.bounds.update({'programs': len(cs), 'converters': 'flags, env, exec (pure ucg code) + unknown name', 'symbolic_leaves': 'i64 values inside the output value / guarding a failure',
                      'outside': 'bytes on disk and partial writes (File::create/write are stubs), json/yaml/toml/xml converters here (their value mapping is C03/C12)'})
    fw.explore('out-hook', harness, cs, fuel=200_000_000)
    for v in fw.violations:
        v['reproduced'] = judge(fw, v)
    fw.assumptions += ['File::create = "creates or truncates" recording stub; writes are recorded, not performed', 'std/alloc builtins (listed)']
    return fw.finish(technique='symbolic execution of the binary crate\'s MIR (build_command down to the out hook and converters); event-list obligations per path; replay with the real binary in a directory holding a pre-existing artifact')


def replay(fw, case):
    v = dict(case)
    return {'violates': bool(judge(fw, v)), 'native': v.get('native')}
