"""C08 — shell-facing output (env / flags / exec converters) delivers every value as one unaltered word.

Engine M: the real converters (`convert::{env,flags,exec}` + the two escaping helpers) are executed from MIR on tuples
whose string values are sequences of *symbolic bytes* and whose field kinds vary; the emitted byte sequence (still
symbolic) is tokenised by the POSIX-shell oracle (oracle/sh_words.py); z3 decides on every path that each scalar field
arrives as exactly one word equal to its input, that no input byte sits in an expanding position, and that a skipped
field does not swallow or merge with later ones. Counterexamples are replayed through the natively built converter and
real /bin/sh + bash before being reported."""
import itertools
import os
import subprocess
import sys
import tempfile
import z3

sys.path.insert(0, os.path.join(os.path.dirname(os.path.abspath(__file__)), '..', 'oracle'))
import astb
import sh_words as SH
from mirsym.vals import Agg, VecV, SymStr, is_sym, seq_items, FmtV
from mirsym.bi_str import sink_new, sink_pieces

NAMES = ['A', 'Bb', 'C', 'Dd']


def sym_str(ctx, tag, L):
    bs = []
    for j in range(L):
        v = ctx.bv('%s_b%d' % (tag, j), 8)
        ctx.assume(z3.And(v != 0, z3.ULT(v, 0x80)))     # ASCII without NUL (bytes >= 0x80 go through unchanged: same code path)
        bs.append(v)
    return SymStr(bs) if bs else ''


def mk_field(ctx, b, kind, tag, L):
    """-> (Val, expectation) ; expectation: ('word', items) scalar value | ('skip',) | ('null',) | ('list', [items...])"""
    V = lambda variant, *f: b.enum('build::ir::Val', variant, *f)
    if kind == 'str':
        s = sym_str(ctx, tag, L)
        return V('Str', s), ('word', list(seq_items(s)))
    if kind == 'int':
        v = ctx.bv(tag + '_i', 64)
        return V('Int', v), ('word', [('safe', 'int:' + tag)])
    if kind == 'bool':
        v = ctx.boolean(tag + '_t')
        return V('Boolean', v), ('bool', v)
    if kind == 'float':
        v = ctx.fp(tag + '_f')
        return V('Float', v), ('word', [('safe', 'f64:' + tag)])
    if kind == 'null':
        return V('Empty'), ('null',)
    if kind == 'list':
        s = sym_str(ctx, tag + 'l', min(L, 1))
        return V('List', VecV([V('Str', s), V('Int', 7)])), ('list', [list(seq_items(s)), bts('7')])
    if kind == 'tuple':
        return V('Tuple', VecV([Agg('tuple', None, ('x', V('Str', 't')))])), ('skip',)
    raise KeyError(kind)


def flatten_output(sink):
    """sink pieces -> list of items for the shell oracle"""
    items = []
    for p in sink_pieces(sink):
        ps = p.pieces if type(p) is FmtV else (p,)
        for q in ps:
            if type(q) is str:
                items.extend(q.encode('utf-8'))
            elif type(q) is SymStr:
                items.extend(q.bytes)
            elif type(q) is tuple and q[0] in ('int', 'f64'):
                items.append(('safe', '%s:%s' % (q[0], q[1])))
            else:
                return None, 'unrenderable output piece %r' % (q,)
    return items, None


def item_eq(ctx, out, exp):
    if isinstance(out, tuple) or isinstance(exp, tuple):
        return isinstance(out, tuple) and isinstance(exp, tuple) and out[0] == exp[0]
    if not is_sym(out) and not is_sym(exp):
        return out == exp
    a = out if is_sym(out) else z3.BitVecVal(out, 8)
    c = exp if is_sym(exp) else z3.BitVecVal(exp, 8)
    return ctx.valid(a == c)


def words_equal(ctx, got, exp):
    if len(got) != len(exp):
        return False
    return all(item_eq(ctx, g, e) for g, e in zip(got, exp))


def bts(s):
    return list(s.encode())


def expected_commands(ctx, conv, fields):
    """fields: list of (name, expectation) -> list of commands, each a list of words (lists of items)"""
    def scalar(e):
        if e[0] == 'word':
            return e[1]
        if e[0] == 'bool':
            return bts('true') if ctx.branch(e[1]) else bts('false')
        return None
    if conv == 'env':
        cmds = []
        for name, e in fields:
            v = scalar(e)
            if v is not None:
                cmds.append([bts(name + '=') + v])
        return cmds
    if conv == 'flags':
        words = []
        for name, e in fields:
            flag = bts(('--' if len(name) > 1 else '-') + name)
            v = scalar(e)
            if v is not None:
                words += [flag, v]
            elif e[0] == 'null':
                words += [flag]
            elif e[0] == 'list':
                for it in e[1]:
                    words += [flag, it]
        return [words] if words else []
    raise KeyError(conv)


def model_strings(ctx, extra=None):
    m = ctx.model(extra)
    return m


def concretize(m, items):
    out = bytearray()
    for x in items:
        if isinstance(x, int):
            out.append(x)
        elif isinstance(x, tuple):
            out.extend(b'7')
        else:
            out.append(m.eval(x, model_completion=True).as_long())
    return bytes(out)


def ucg_str(bs):
    return '"' + bs.decode('latin-1').replace('\\', '\\\\').replace('"', '\\"') + '"'


def ucg_literal(m, kind, tag, L, ctx):
    if kind == 'str':
        return ucg_str(bytes(m.eval(ctx.bv('%s_b%d' % (tag, j), 8), model_completion=True).as_long() for j in range(L)))
    if kind == 'int':
        v = m.eval(ctx.bv(tag + '_i', 64), model_completion=True).as_signed_long()
        return str(v) if v >= 0 else '(0 - %d)' % (-v) if v > -(1 << 63) else '7'
    if kind == 'bool':
        return 'true' if z3.is_true(m.eval(ctx.boolean(tag + '_t'), model_completion=True)) else 'false'
    if kind == 'float':
        return '1.5'
    if kind == 'null':
        return 'NULL'
    if kind == 'list':
        Ll = min(L, 1)
        return '[' + ucg_str(bytes(m.eval(ctx.bv('%sl_b%d' % (tag, j), 8), model_completion=True).as_long() for j in range(Ll))) + ', 7]'
    if kind == 'tuple':
        return '{x = "t"}'


def harness(ctx, case):
    b = astb.B(ctx.prog)
    conv = case['conv']
    kinds = case['kinds']
    L = case['L']
    out = {'reached': False, 'asserts': 0, 'violations': []}
    V = lambda variant, *f: b.enum('build::ir::Val', variant, *f)
    fields = []
    exps = []
    for i, k in enumerate(kinds):
        val, e = mk_field(ctx, b, k, 'f%d' % i, L)
        fields.append(Agg('tuple', None, (NAMES[i], val)))
        exps.append((NAMES[i], e))
    sink = sink_new()
    if conv in ('env', 'flags'):
        tupv = V('Tuple', VecV(fields))
        cty = {'env': 'convert::env::EnvConverter', 'flags': 'convert::flags::FlagConverter'}[conv]
        cv = ctx.call(cty.split('::')[-1] + '::new', [])
        r = ctx.call('<%s as Converter>::convert' % cty, [cv, tupv, sink])
        exp_cmds = None
    else:
        # exec: command / args / env slots
        cmd = sym_str(ctx, 'cmd', L)
        args = []
        arg_exp = []
        envs = []
        env_exp = []
        for i, k in enumerate(kinds):
            if case['slot'] == 'args':
                if k == 'str':
                    s = sym_str(ctx, 'f%d' % i, L)
                    args.append(V('Str', s))
                    arg_exp.append(list(seq_items(s)))
                elif k == 'tuple':
                    s = sym_str(ctx, 'f%d' % i, L)
                    args.append(V('Tuple', VecV([Agg('tuple', None, ('opt', V('Str', s)))])))
                    arg_exp += [bts('--opt'), list(seq_items(s))]
            else:
                s = sym_str(ctx, 'f%d' % i, L)
                envs.append(Agg('tuple', None, (NAMES[i], V('Str', s))))
                env_exp.append([bts(NAMES[i] + '=') + list(seq_items(s))])
        flds = [Agg('tuple', None, ('command', V('Str', cmd)))]
        if args:
            flds.append(Agg('tuple', None, ('args', V('List', VecV(args)))))
        if envs:
            flds.append(Agg('tuple', None, ('env', V('Tuple', VecV(envs)))))
        tupv = V('Tuple', VecV(flds))
        cv = ctx.call('ExecConverter::new', [])
        r = ctx.call('<convert::exec::ExecConverter as Converter>::convert', [cv, tupv, sink])
        exp_cmds = [[bts('set'), bts('-euo'), bts('pipefail')]] + env_exp + [[bts('exec'), list(seq_items(cmd))] + arg_exp]
    if r.variant != 0:
        out['violations'].append({'key': 'C08:%s:converter-error' % conv, 'what': '%s converter returned Err on a tuple of %s' % (conv, kinds)})
        return out
    items, bad = flatten_output(sink)
    if items is None:
        raise RuntimeError(bad)
    if exp_cmds is None:
        exp_cmds = expected_commands(ctx, conv, exps)
    lx = SH.lex(items, ctx.valid)
    out['reached'] = True
    out['asserts'] = 1 + sum(len(c) for c in exp_cmds)
    if lx.unmodelled:
        raise RuntimeError('shell oracle: ' + '; '.join(lx.unmodelled))

    def report(key, what, extra=None, prio=5):
        m = ctx.model(extra)
        if conv in ('env', 'flags'):
            lits = ', '.join('%s = %s' % (NAMES[i], ucg_literal(m, k, 'f%d' % i, L, ctx)) for i, k in enumerate(kinds))
            text = 'let v = {%s};' % lits
        else:
            def sv(tag):
                return ucg_str(bytes(m.eval(ctx.bv('%s_b%d' % (tag, j), 8), model_completion=True).as_long() for j in range(L)))
            parts = ['command = %s' % sv('cmd')]
            if case['slot'] == 'args':
                al = []
                for i, k in enumerate(kinds):
                    al.append(sv('f%d' % i) if k == 'str' else '{opt = %s}' % sv('f%d' % i))
                parts.append('args = [%s]' % ', '.join(al))
            else:
                parts.append('env = {%s}' % ', '.join('%s = %s' % (NAMES[i], sv('f%d' % i)) for i in range(len(kinds))))
            text = 'let v = {%s};' % ', '.join(parts)
        out['violations'].append({'key': key, 'what': what + ' — e.g. ' + text,
                                  'case': {'kind': 'convert', 'fmt': {'env': 'env', 'flags': 'flags', 'exec': 'exec'}[conv], 'text': text},
                                  'conv': conv, 'kinds': kinds, 'prio': prio})

    for kind_, desc, neg in lx.violations:
        if neg is not None and kind_ in ('special-in-double-quotes', 'quote-in-single-quotes'):
            # candidate models: steer the offending byte to each special character (a lone `$` is not an expansion)
            syms = [x for x in items if is_sym(x)]
            for ch in (0x22, 0x27, 0x60, 0x5c, 0x24):
                for sv_ in syms:
                    extra = z3.And(neg, sv_ == ch)
                    idx = [k for k, x in enumerate(items) if x is sv_][0]
                    if ch == 0x24 and idx + 1 < len(items) and is_sym(items[idx + 1]):
                        extra2 = z3.And(extra, items[idx + 1] == ord('x'))      # `$x`: an expansion, not a lone dollar
                        if ctx.feasible(extra2):
                            report('C08:%s:%s' % (conv, kind_), desc, extra2, prio=0)
                            break
                    if ctx.feasible(extra):
                        report('C08:%s:%s' % (conv, kind_), desc, extra, prio=1 if ch != 0x24 else 3)
                        break
        report('C08:%s:%s' % (conv, kind_), desc, neg)
    if lx.violations:
        return out
    got = lx.lines
    # each expected scalar exactly once, in order, nothing merged
    if len(got) != len(exp_cmds) or any(len(g) != len(e) for g, e in zip(got, exp_cmds)):
        role = classify_shape(conv, kinds)
        report('C08:%s:fields-lost-or-merged:%s' % (conv, role),
               'shell sees %s but the input has scalar fields %s' % ([[SH.word_text(w) for w in c] for c in got], [[SH.word_text(w) for w in c] for c in exp_cmds]))
        return out
    for g, e in zip(got, exp_cmds):
        for gw, ew in zip(g, e):
            if not words_equal(ctx, gw, ew):
                report('C08:%s:word-altered' % conv, 'word %r differs from its input %r' % (SH.word_text(gw), SH.word_text(ew)))
                return out
    out['sample'] = {'conv': conv, 'kinds': kinds, 'L': L, 'shell_words': [[SH.word_text(w) for w in c] for c in got]}
    return out


def classify_shape(conv, kinds):
    """role of the first non-scalar field: names the defect site, not the input (so a different defect is still new)"""
    for i, k in enumerate(kinds):
        if k in ('null', 'tuple', 'list'):
            return '%s-field-%s' % (k, 'then-more' if i < len(kinds) - 1 else 'last')
    return 'scalars-only'


# ------------------------------------------------------------------ native judge: the shell decides
def run_shell(shell, script, cwd):
    r = subprocess.run([shell, '-c', script], cwd=cwd, stdout=subprocess.PIPE, stderr=subprocess.PIPE, timeout=20)
    return r.returncode, r.stdout


def all_names(j, acc):
    """every field name anywhere in the evaluated value (a nested field must not become a variable either)"""
    if j.get('t') == 'tuple':
        for name, x in j['v']:
            if name not in acc and name.replace('_', 'a').isalnum() and not name[0].isdigit():
                acc.append(name)
            all_names(x, acc)
    elif j.get('t') == 'list':
        for x in j['v']:
            all_names(x, acc)
    return acc


def observed_words(conv, text_out, NAMES=None):
    """what /bin/sh and bash make of the converter output: list of byte strings per shell"""
    NAMES = NAMES or globals()['NAMES']
    res = {}
    with tempfile.TemporaryDirectory(prefix='ucg-verif-sh-') as d:
        open(os.path.join(d, 'out'), 'wb').write(text_out)
        show_vars = 'for n in @NAMES@; do eval "if [ \\"\\${$n+x}\\" = x ]; then printf \'%s=%s\\\\0\' $n \\"\\$$n\\"; fi"; done'.replace('@NAMES@', ' '.join(NAMES))
        for shell in ('/bin/sh', 'bash'):
            if conv == 'env':
                script = 'for n in @NAMES@; do unset $n; done; . ./out; '.replace('@NAMES@', ' '.join(NAMES)) + show_vars
            elif conv == 'flags':
                script = 'eval "set -- $(cat ./out)"; for a in "$@"; do printf \'%s\\0\' "$a"; done'
            else:
                if shell == '/bin/sh':
                    continue        # exec scripts are bash scripts (set -o pipefail)
                script = 'sed -e \'s/^exec /pr /\' ./out > ./out2; pr() { for a in "$@"; do printf "%s\\0" "$a"; done; }; . ./out2; ' + show_vars
            rc, out = run_shell(shell, script, d)
            res[shell] = (rc, out.split(b'\0')[:-1] if out else [])
    return res


def parse_ucg_tuple_expectation(conv, text):
    """expected words from the concrete replay program (independent of the engine): evaluate the literal by hand"""
    return None


def make_judge(v):
    def judge(native):
        # reproduces iff some real shell does NOT see exactly the scalar fields as single unaltered words
        if native.get('panic') or not native.get('ok'):
            return True
        val = native['val']
        out_bytes = bytes(native['out_bytes'])
        conv = v['conv']
        exp = expected_from_val(conv, val)
        obs = observed_words(conv, out_bytes, all_names(val, list(NAMES)))
        v['shell_observed'] = {k: [x.decode('latin-1') for x in o[1]] for k, o in obs.items()}
        v['shell_expected'] = [x.decode('latin-1') for x in exp]
        return any(o[1] != exp for o in obs.values())
    return judge


def scalar_text(j):
    t = j['t']
    if t == 'str':
        return j['v'].encode('utf-8')
    if t == 'int':
        return j['v'].encode()
    if t == 'bool':
        return b'true' if j['v'] else b'false'
    if t == 'float':
        return ('%s' % j['v']).rstrip('0').rstrip('.').encode() if '.' in j['v'] else j['v'].encode()
    return None


def expected_from_val(conv, val):
    """what the shell must see, computed from the *evaluated input value* reported by the native driver"""
    out = []
    flds = val['v']
    if conv == 'env':
        for name, j in flds:
            s = scalar_text(j)
            if s is not None:
                out.append(name.encode() + b'=' + s)
        return out
    if conv == 'flags':
        for name, j in flds:
            flag = (('--' if len(name) > 1 else '-') + name).encode()
            s = scalar_text(j)
            if s is not None:
                out += [flag, s]
            elif j['t'] == 'null':
                out += [flag]
            elif j['t'] == 'list':
                for it in j['v']:
                    s2 = scalar_text(it)
                    if s2 is not None:
                        out += [flag, s2]
        return out
    d = dict((n, j) for n, j in flds)
    out = [d['command']['v'].encode()]
    for a in d.get('args', {'v': []})['v']:
        if a['t'] == 'str':
            out.append(a['v'].encode())
        else:
            out += expected_from_val('flags', a)
    for name, j in d.get('env', {'v': []})['v']:
        out.append(name.encode() + b'=' + j['v'].encode())
    return out


def run(fw):
    quick = fw.tier == 'quick'
    cases = []
    KINDS = ['str', 'int', 'bool', 'float', 'null', 'list', 'tuple']
    Ls = [0, 1, 2] if quick else [0, 1, 2, 3]
    # one string field alone at every length (deepest byte exploration)
    for conv in ('env', 'flags'):
        for L in (Ls + ([3] if quick else [4, 5])):
            cases.append({'conv': conv, 'kinds': ['str'], 'L': L})
        # every ordered pair (quick) / triple (thorough) of field kinds, short strings
        n = 2 if quick else 3
        for ks in itertools.product(KINDS, repeat=n):
            cases.append({'conv': conv, 'kinds': list(ks), 'L': 1})
        for ks in itertools.product(['str', 'null', 'tuple', 'list'], repeat=3 if quick else 4):
            if quick and ks.count('str') == 0:
                continue
            cases.append({'conv': conv, 'kinds': list(ks), 'L': 1})
    for slot, kset in (('args', ['str', 'tuple']), ('env', ['str'])):
        for L in Ls:
            for n in (1, 2):
                for ks in itertools.product(kset, repeat=n):
                    cases.append({'conv': 'exec', 'slot': slot, 'kinds': list(ks), 'L': L})
    fw.bounds.update({'string_bytes_max': max(c['L'] for c in cases), 'fields_max': max(len(c['kinds']) for c in cases), 'field_kinds': KINDS,
                      'byte_domain': '0x01..0x7f symbolic (each path covers all byte values not distinguished by the code)',
                      'outside': 'field names that are not shell identifiers; bytes >= 0x80 and NUL; what exec does at run time; strings longer than the bound'})
    fw.oracles.append('POSIX shell word splitting / quote removal model (oracle/sh_words.py), validated against /bin/sh and bash; '
                      'counterexamples are judged by the real shells')
    fw.explore('converters', harness, cases, fuel=3_000_000)
    for v in fw.violations:
        if v.get('case'):
            v['judge'] = make_judge(v)
    # witnesses: the shell model agrees with the real shells on concrete converter outputs
    wit = [{'kind': 'convert', 'fmt': 'env', 'text': 'let v = {A = "it\'s a $HOME `x` \\\\ \\" * ;", Bb = 7, C = true};'},
           {'kind': 'convert', 'fmt': 'flags', 'text': 'let v = {A = "x y\'z", Bb = ["p q", 2], C = NULL, Dd = 1.5};'},
           {'kind': 'convert', 'fmt': 'exec', 'text': 'let v = {command = "ec ho", args = ["a b", {opt = "it\'s"}], env = {A = "q\\"$x`y\\\\"}};'}]
    outs = fw.native().run_many(wit)
    fw.replayed += len(wit)
    for c, o in zip(wit, outs):
        if not o.get('ok'):
            fw.inconclusive.append('witness conversion failed natively: %r' % (o,))
            continue
        conv = c['fmt']
        obs = observed_words(conv, bytes(o['out_bytes']))
        exp = expected_from_val(conv, o['val'])
        words, lx = SH.concrete_words(bytes(o['out_bytes']).decode('utf-8'))
        flat = [w.encode() for line in words for w in line]
        if conv == 'exec':
            flat = [w for w in flat if w not in (b'set', b'-euo', b'pipefail', b'exec')]
            # model order: env assignments first, then command line; observed order: command line then env
            asg = [w for w in flat if b'=' in w and w.split(b'=')[0].decode() in NAMES]
            flat = [w for w in flat if w not in asg] + asg
        for sh, (rc, ws) in obs.items():
            if ws != flat:
                fw.inconclusive.append('shell model disagrees with %s on %r: model %r, shell %r' % (sh, c['text'], flat, ws))
            if ws != exp:
                fw.violations.append({'key': 'C08:%s:witness' % conv, 'what': 'concrete witness %r: %s sees %r, expected %r' % (c['text'], sh, ws, exp),
                                      'reproduced': True, 'case': c})
    fw.assumptions += ['std/alloc calls are abstract-datatype builtins (listed); str::replace is a forking builtin over symbolic bytes',
                       'Display of i64/f64 yields characters from [-+.0-9a-zA-Z] only (never shell-significant)',
                       'field names are shell identifiers (A, Bb, C, Dd)']
    return fw.finish(technique='symbolic execution of rustc MIR on symbolic bytes + z3-discharged shell-tokenisation obligations; counterexamples judged by /bin/sh and bash')


def replay(fw, case):
    v = {'conv': case['case']['fmt']}
    out = fw.replay(case['case'])
    j = make_judge(v)(out)
    return {'native_out': out.get('out'), 'shell_observed': v.get('shell_observed'), 'shell_expected': v.get('shell_expected'), 'violates': bool(j)}
