"""C04 — no input makes the compiler crash (panic-freedom of the kernels named below, within stated bounds).

Engine M. Small programs are parsed by the real parser, their literals replaced by symbolic i64 / f64 / string values,
then translated and run by the real translator and VM from MIR. Every reachable MIR `assert` failure (overflow, division
by zero, bounds), `unreachable`, `unwrap` on None/Err or explicit `panic!` is a path outcome `panic`; z3 supplies the
concrete operands, which are replayed through the natively built library (catch_unwind) before being reported.
Non-termination, stack depth and arbitrary 4 KiB text are outside what bounded symbolic execution can show."""
import os
import sys
import z3

import astb
import symprog as SP
import ucgrun
from mirsym import interp
from mirsym.vals import SymStr, is_sym

ARITH = [('add', '+'), ('sub', '-'), ('mul', '*'), ('div', '/'), ('mod', '%%')]


def cases(tier):
    cs = []
    for name, op in ARITH:
        cs.append({'fam': 'int-arith', 'name': name, 'text': 'let r = %s %s %s;' % (SP.ph(1), op, SP.ph(2)), 'ints': [1, 2]})
        cs.append({'fam': 'float-arith', 'name': name, 'text': 'let r = %s.5 %s %s.5;' % (SP.ph(1), op, SP.ph(2)), 'floats': [1, 2]})
        cs.append({'fam': 'int-arith-nested', 'name': name, 'text': 'let r = (%s %s %s) %s %s;' % (SP.ph(1), op, SP.ph(2), op, SP.ph(3)), 'ints': [1, 2, 3]})
    for cmp_ in ('==', '!=', '>', '<', '>=', '<='):
        cs.append({'fam': 'compare', 'name': cmp_, 'text': 'let r = %s %s %s;' % (SP.ph(1), cmp_, SP.ph(2)), 'ints': [1, 2]})
    cs.append({'fam': 'cast', 'name': 'float(int)', 'text': 'let r = float(%s);' % SP.ph(1), 'ints': [1]})
    cs.append({'fam': 'cast', 'name': 'int(float)', 'text': 'let r = int(%s.5);' % SP.ph(1), 'floats': [1]})
    cs.append({'fam': 'cast', 'name': 'str(int)', 'text': 'let r = str(%s);' % SP.ph(1), 'ints': [1]})
    cs.append({'fam': 'cast', 'name': 'bool(int)', 'text': 'let r = bool(%s);' % SP.ph(1), 'ints': [1]})
    # ranges: trip count bounded by an assumption on (end - start) / step
    cs.append({'fam': 'range', 'name': 'a:b', 'text': 'let r = %s:%s;' % (SP.ph(1), SP.ph(2)), 'ints': [1, 2], 'range': (1, None, 2)})
    cs.append({'fam': 'range', 'name': 'a:s:b', 'text': 'let r = %s:%s:%s;' % (SP.ph(1), SP.ph(3), SP.ph(2)), 'ints': [1, 2, 3], 'range': (1, 3, 2)})
    # list / tuple selection with a symbolic index
    cs.append({'fam': 'index', 'name': 'list.i', 'text': 'let l = [10, 20, 30]; let r = l.(%s);' % SP.ph(1), 'ints': [1]})
    cs.append({'fam': 'index', 'name': 'list.i nested', 'text': 'let l = [[1], [2, 3]]; let r = l.(%s).(%s);' % (SP.ph(1), SP.ph(2)), 'ints': [1, 2]})
    # format templates: symbolic template bytes over the whole ASCII range, 0..2 arguments (placeholder and
    # argument counts are independent)
    maxlen = 3 if tier == 'quick' else 4
    for L in range(0, maxlen + 1):
        for args in ('(1)', '(1, 2)', '{a = 1}', '[1, 2]', '1'):
            cs.append({'fam': 'format', 'name': 'len%d %% %s' % (L, args), 'text': 'let r = "%s" %% %s;' % (SP.sph(1), args), 'strs': {1: L}})
    return cs


# operand kinds x statement forms: every cast, unary form, selector, call, copy, format, range, funcop ... applied to a value of
# every kind the VM knows (ill-typed programs are inputs too: they must end in a diagnostic, not in a panic)
KINDS = {'int': SP.ph(1), 'float': '1.5', 'str': '"%s"' % SP.sph(1), 'bool': 'true', 'null': 'NULL', 'list': '[%s, 2]' % SP.ph(1), 'empty-list': '[]',
         'tuple': '{a = %s, b = "x"}' % SP.ph(1), 'empty-tuple': '{}', 'func0': '(func () => 1)', 'func1': '(func (x) => x)', 'func2': '(func (x, y) => [x, y])',
         'func3': '(func (x, y, z) => x)', 'module': '(module {a = 1} => (r) {let r = mod.a;})', 'env': 'env'}
FORMS_K = ['int({K})', 'float({K})', 'str({K})', 'bool({K})', 'not {K}', '{K}.a', '{K}.0', '{K}.("a")', '{K}.(0)', '{K}()', '{K}(1)', '{K}(1, 2)', '{K}{{a = 1}}',
           '"@ @" %% {K}', '"@" %% ({K})', '{K}:3', '1:{K}', '1:{K}:3', 'select ({K}, 1) => {{a = 1}}', 'select ("a") => {{a = {K}}}', '{K} in {{a = 1}}', '"a" in {K}',
           '{K} is "int"', '1 is {K}', '[{K}] + [1]', '{K} + {K}', '{K} == {K}', '{K} ~ "a"', '"a" ~ {K}', '{K} && true', 'import {K}', 'include str {K}', 'convert json {K}',
           'convert flags {K}', 'convert env {K}', 'convert exec {K}', 'convert toml {K}', 'convert xml {K}', 'convert yaml {K}', 'convert {K} 1', 'TRACE {K}', '{K}.a.b', '({K}).a']
FUNCOPS = ['map({F}, {K})', 'filter({F}, {K})', 'reduce({F}, 0, {K})', 'reduce({F}, {K}, [1, 2])', 'map({K}, [1])', 'filter({K}, [1])', 'reduce({K}, 0, [1])']
STMTS_K = ['assert {K};', 'fail {K};', 'let x :: {K} = 1;', 'let x :: int = {K};', 'constraint c = {K};', 'let {{a = v}} = {K};']


def kind_cases(tier):
    cs = []

    def add(name, text):
        c = {'fam': 'kinds', 'name': name, 'text': text}
        if SP.ph(1) in text:
            c['ints'] = [1]
        if SP.sph(1) in text:
            c['strs'] = {1: 1}
        cs.append(c)
    for kn, k in KINDS.items():
        for f in FORMS_K:
            # range bounds stay concrete here (a symbolic bound has an unbounded trip count; family `range` covers it under an assumption)
            kk = k.replace(SP.ph(1), '2') if ':' in f else k
            if f.startswith(('import', 'include')):
                kk = kk.replace(SP.sph(1), 'x')     # file names stay concrete (virtual file system keys)
            add('%s / %s' % (f, kn), 'let r = ' + f.format(K=kk).replace('%%', '%') + ';')
        for f in STMTS_K:
            add('%s / %s' % (f, kn), f.format(K=k))
    targets = ['list', 'empty-list', 'tuple', 'empty-tuple', 'str', 'int', 'null', 'func1'] if tier == 'quick' else list(KINDS)
    for fo in FUNCOPS[:4]:
        for fn in ('func0', 'func1', 'func2', 'func3'):
            for kn in targets:
                add('%s / %s / %s' % (fo, fn, kn), 'let r = ' + fo.format(F=KINDS[fn], K=KINDS[kn]) + ';')
    for fo in FUNCOPS[4:]:
        for kn in KINDS:
            add('%s / %s' % (fo, kn), 'let r = ' + fo.format(K=KINDS[kn]) + ';')
    return cs


def harness(ctx, case):
    prog = ctx.prog
    ucgrun.install_parse_override(prog)
    if case['fam'] == 'kinds':
        r = ucgrun.parse_program(ctx, case['text'])
        if r.variant != 0:
            return {'reached': True, 'asserts': 0, 'violations': [], 'unparsed': 1, 'sample': {'text': case['text'], 'result': 'does not parse'}}
        stmts = r.fields[0]
    else:
        stmts = ucgrun.parse_ok(ctx, case['text'])
    ints = {i: ctx.bv('a%d' % i, 64) for i in case.get('ints', [])}
    floats = {i: ctx.fp('f%d' % i) for i in case.get('floats', [])}
    strs = {}
    for i, L in case.get('strs', {}).items():
        bs = []
        for j in range(L):
            v = ctx.bv('s%d_%d' % (i, j), 8)
            ctx.assume(z3.And(z3.UGE(v, 0x20), z3.ULT(v, 0x7f)))
            bs.append(v)
        strs[int(i)] = SymStr(bs) if bs else ''
    if case.get('range'):
        a, s, e = case['range']
        A, E = ints[a], ints[e]
        if s is None:
            # 0..3 iterations: start <= end <= start + 3 (no wrap in the assumption itself)
            ctx.assume(z3.And(A <= E, z3.BVSubNoOverflow(E, A), E - A <= 3))
        else:
            S = ints[s]
            ctx.assume(z3.And(S >= -1, S <= 4, A <= E, z3.BVSubNoOverflow(E, A), E - A <= 8))
    stmts2 = SP.subst(prog, stmts, ints, floats, strs)
    out = {'reached': True, 'asserts': 1, 'violations': []}
    try:
        res, vm, env = ucgrun.run_program(ctx, stmts2, env=ucgrun.make_env(ctx))
        out['sample'] = {'text': case['text'], 'result': 'Ok' if res.variant == 0 else 'Err'}
    except interp.Panic as p:
        m = ctx.model()
        text = SP.render_text(case['text'], m, ctx, ints, strs)
        if floats:
            out['note'] = 'float panic'
        site = panic_site(ctx, p)
        out['violations'].append({'key': 'C04:panic:%s:%s' % (case['fam'], site), 'what': 'panic (%s) evaluating %s' % (p.msg[:80], text),
                                  'case': {'kind': 'eval', 'text': text, 'strict': True}})
    return out


CONTEXTS = [('', ''), ('let a = ', ';'), ('let a = [1, ', '];'), ('let a = "', '";'), ('let a = 1 ', ' 2;'), ('let a = {', ' = 1};'), ('let f = func (', ') => 1;'),
            ('let a = 1;\n', ''), ('let a = 1.', ';'), ('let a = t.', ';'), ('let a = "@', '" % (1);')]


def harness_garbage(ctx, case):
    """`n` fully symbolic ASCII bytes (0x01..0x7f) inside a fixed context through the real tokenizer / parser / evaluator"""
    prog = ctx.prog
    from mirsym.vals import NONE, VecV, CellV, Ref
    pre, suf = case['ctx']
    syms = []
    for j in range(case['n']):
        v = ctx.bv('g%d' % j, 8)
        ctx.assume(z3.And(z3.UGE(v, 1), z3.ULT(v, 0x80)))
        syms.append(v)
    text = SymStr(tuple(pre.encode()) + tuple(syms) + tuple(suf.encode()))
    out = {'reached': True, 'asserts': 1, 'violations': []}
    stage = 'tokenize'
    try:
        if case['stage'] == 'tokenize':
            r = ctx.call('tokenizer::tokenize', [ctx.call('OffsetStrIter::new', [text]), NONE])
            out['sample'] = {'stage': 'tokenize', 'context': case['ctx'], 'n': case['n'], 'result': 'Ok' if r.variant == 0 else 'Err'}
            return out
        stage = 'parse'
        r = ctx.call('parse', [ctx.call('OffsetStrIter::new', [text]), NONE])
        if r.variant == 0 and case['stage'] == 'eval':
            stage = 'evaluate'
            env = ucgrun.make_env(ctx)
            fb = ctx.call('FileBuilder::new', [prog.to_path('/wd'), VecV([]), env])
            cell = CellV(fb)
            rr = Ref(cell.slot, 0, ())
            res = ctx.call('FileBuilder::eval_stmts', [rr, r.fields[0], NONE])
            out['sample'] = {'stage': 'eval', 'context': case['ctx'], 'n': case['n'], 'result': 'Ok' if res.variant == 0 else 'Err'}
        else:
            out['sample'] = {'stage': 'parse', 'context': case['ctx'], 'n': case['n'], 'result': 'Ok' if r.variant == 0 else 'Err'}
    except interp.Panic as p:
        m = ctx.model()
        bs = bytes(m.eval(x, model_completion=True).as_long() for x in syms)
        t = pre + bs.decode('latin-1') + suf
        site = panic_site(ctx, p)
        out['violations'].append({'key': 'C04:panic:garbage-%s:%s' % (stage, site), 'what': 'panic (%s) in stage %s on the text %r' % (p.msg[:80], stage, t),
                                  'case': {'kind': 'eval', 'text': t, 'strict': True}})
    return out


RECURSIVE = {
    'two-identical': 'constraint A = "" | [A];\nconstraint B = "" | [B];\nlet f = func (a :: A) => a;\nlet y :: B = f("");\n',
    'two-different': 'constraint A = "" | [A];\nconstraint B = 1 | [B];\nlet f = func (a :: A) => a;\nlet y :: B = f("");\n',
    'self': 'constraint A = "" | [A];\nlet f = func (a :: A) => a;\nlet y :: A = f([[""]]);\n',
    'mutual': 'constraint A = "" | [B];\nconstraint B = 1 | [A];\nlet f = func (a :: A) => a;\nlet y :: B = f([1]);\n',
    'tuple-recursion': 'constraint T = {v = 1, next = NULL | T};\nconstraint U = {v = 1, next = NULL | U};\nlet f = func (a :: T) => a;\nlet y :: U = f({v = 1, next = NULL});\n',
    'three-cycle': 'constraint A = "" | [B];\nconstraint B = "" | [C];\nconstraint C = "" | [A];\nlet f = func (a :: A) => a;\nlet y :: C = f("");\n',
    'value-nesting-3': 'constraint A = "" | [A];\nlet y :: A = [[[""]]];\n',
}


def harness_recursive(ctx, case):
    """bounded execution as a stand-in for termination (as in nesting-cost): building a file whose constraints are recursive must end — in a
    value or a diagnostic — within the step budget. Exhausting it is reported and judged natively (stack overflow / time limit)."""
    from mirsym.vals import CellV, Ref, VecV
    prog = ctx.prog
    ucgrun.install_parse_override(prog)
    text = RECURSIVE[case['name']]
    ctx.fs['/cwd/conf.ucg'] = text
    out = {'reached': True, 'asserts': 1, 'violations': []}
    env = ucgrun.make_env(ctx)
    fb = ctx.call('FileBuilder::new', [prog.to_path('/cwd'), VecV([]), env])
    cell = CellV(fb)
    try:
        res = ctx.call('FileBuilder::build', [Ref(cell.slot, 0, ()), prog.to_path('/cwd/conf.ucg')])
        out['sample'] = {'name': case['name'], 'result': 'Ok' if res.variant == 0 else 'Err', 'steps': ctx.steps}
    except (interp.BoundHit, RecursionError) as e:
        out['violations'].append({'key': 'C04:recursive-constraints:%s' % case['name'], 'what': 'building a file with recursive constraints does not end within %d MIR steps (%s): %r' % (ctx.fuel, type(e).__name__, text),
                                  'case': {'kind': 'build-timed', 'text': text, 'limit_s': 20}})
    except interp.Panic as p:
        out['violations'].append({'key': 'C04:panic:recursive-constraints:%s' % panic_site(ctx, p), 'what': 'panic (%s) building %r' % (p.msg[:80], text), 'case': {'kind': 'build-timed', 'text': text, 'limit_s': 20}})
    return out


def harness_environment(ctx, case):
    """the process environment is input too: the real main() with one variable whose name or value is a single fully symbolic byte
    (0x01..0xff, no '='): start-up must not panic whatever the byte is"""
    import C18
    from mirsym.vals import Agg, MapV, VecV, NONE, some, Opaque, deref_all
    prog = ctx.prog
    ucgrun.install_parse_override(prog)
    c = ctx.bv('envbyte', 8)
    ctx.assume(z3.And(c != 0, c != ord('=')))
    name, val = (SymStr((c,)), 'v') if case['where'] == 'name' else ('AA', SymStr((c,)))
    ctx.process_env = [('HOME', '/home/u'), (name, val)]
    ctx.fs['/cwd/conf.ucg'] = 'let a = 1;\n'
    ctx.cli_sub = Agg('ArgMatches', None, (MapV('HashMap').insert('INPUT', VecV(['conf.ucg'])), MapV('HashMap')))
    ctx.cli_top = Agg('ArgMatches', None, (MapV('HashMap'), MapV('HashMap')))
    if 'do_flags' not in prog.overrides:
        prog.overrides['do_flags'] = lambda c_, a, callee: Opaque('clap::App')
        prog.overrides['<App as Clone>::clone'] = lambda c_, a, callee: Opaque('clap::App')
        prog.overrides['App::get_matches'] = lambda c_, a, callee: c_.cli_top
        prog.overrides['ArgMatches::subcommand_matches'] = lambda c_, a, callee: some(c_.cli_sub) if deref_all(a[1]) == 'build' else NONE
        prog.overrides['home_dir'] = prog.overrides['dirs::home_dir'] = lambda c_, a, callee: NONE
        prog.resolve_cache.clear()
    out = {'reached': True, 'asserts': 1, 'violations': []}
    try:
        ctx.call('main', [])
        out['sample'] = {'where': case['where'], 'result': 'returns'}
    except interp.HarnessStop as h:
        out['sample'] = {'where': case['where'], 'exit': h.payload}
    except interp.Panic as p:
        b = ctx.model().eval(c, model_completion=True).as_long()
        out['violations'].append({'key': 'C04:panic:environment:%s' % case['where'], 'what': 'panic (%s) at start-up when the %s of an environment variable is the byte 0x%02x' % (p.msg[:70], case['where'], b),
                                  'case': {'kind': 'cli-env-bytes', 'where': case['where'], 'byte': b}})
    return out


NEST = {'list': ('[', ']'), 'tuple': ('{a = ', '}'), 'paren': ('(', ')'), 'call-arg': ('f(', ')'), 'select-arm': ('select ("a", 0) => {a = ', '}')}


def harness_nesting(ctx, case):
    """bounded execution as a stand-in for termination: the number of MIR steps the real parser needs must grow (at most) linearly with
    the nesting depth. The increments between consecutive depths may not exceed 4x the first increment (an exponential grammar blows
    through that at depth 3..4)."""
    from mirsym.vals import NONE
    o, c = NEST[case['kind']]
    steps = []
    for d in range(1, case['depth'] + 1):
        text = 'let x = ' + o * d + '1' + c * d + ';\n'
        sub = interp.Ctx(ctx.prog, fuel=ctx.fuel)
        r = sub.call('parse', [sub.call('OffsetStrIter::new', [text]), NONE])
        if r.variant != 0:
            raise interp.Unsupported('nesting text does not parse: %r' % text)
        steps.append(sub.steps)
    out = {'reached': True, 'asserts': len(steps) - 2, 'violations': []}
    inc = [steps[i + 1] - steps[i] for i in range(len(steps) - 1)]
    base = max(inc[0], 1)
    for d, x in enumerate(inc[1:], start=3):
        if x > 4 * base:
            deep = 'let x = ' + o * 14 + '1' + c * 14 + ';\n'
            out['violations'].append({'key': 'C04:nesting-cost:%s' % case['kind'], 'what': 'parsing cost explodes with %s nesting: MIR steps for depth 1..%d = %r (increment at depth %d is %.1fx the first)' % (case['kind'], len(steps), steps, d, x / base),
                                      'case': {'kind': 'parse-timed', 'text': deep, 'limit_s': 20}})
            return out
    out['sample'] = {'kind': case['kind'], 'steps_by_depth': steps}
    return out


def panic_site(ctx, p):
    st = ctx.fail_stack or []
    names = [s.split('::')[-1] for s in st if not s.startswith('bb')]
    # the deepest ucg function (role of the failing site)
    return '/'.join(names[-2:]) if names else 'unknown'


def judge(out):
    return bool(out.get('panic') or out.get('crash'))


def run(fw):
    cs = cases(fw.tier)
    fw.bounds.update({'programs': 'one statement with 1-3 symbolic i64/f64 leaves per arithmetic, comparison and cast operator; ranges with 0..3 (a:b) / 0..8 (a:s:b, step -1..4) iterations; '
                      'list selection with symbolic indices; format templates of 0..%d symbolic printable-ASCII bytes with 0..2 arguments in every argument form' % (3 if fw.tier == 'quick' else 4),
                      'outside': 'non-termination, stack exhaustion, arbitrary text up to 4 KiB, token-level mutations of corpus files, exit status of the binary'})
    fw.explore('vm-kernels', harness, cs, fuel=20_000_000)
    kc = kind_cases(fw.tier)
    fw.bounds['kinds'] = '%d statement forms x %d operand kinds + %d funcop forms x function arity 0..3 x target kind (%d programs; int and 1-byte string leaves symbolic)' % (len(FORMS_K) + len(STMTS_K), len(KINDS), len(FUNCOPS), len(kc))
    recs = fw.explore('kinds', harness, kc, fuel=50_000_000)
    fw.families['kinds']['programs_the_parser_rejects'] = sum(r.get('unparsed', 0) for r in recs)
    quick = fw.tier == 'quick'
    g = [{'stage': 'tokenize', 'ctx': c, 'n': n} for c in (CONTEXTS[:2] if quick else CONTEXTS[:5]) for n in ((1, 2) if quick else (1, 2, 3))]
    g += [{'stage': 'eval', 'ctx': c, 'n': 1} for c in CONTEXTS]
    if not quick:
        # two symbolic bytes through parser + evaluator cost ~30k paths per context: three contexts (file start, expression, between operands)
        g += [{'stage': 'eval', 'ctx': c, 'n': 2} for c in (CONTEXTS[0], CONTEXTS[1], CONTEXTS[4])]
    fw.bounds['garbage'] = '%d contexts with 1..%d (tokenizer) / 1 (parser + evaluator; 2 in three contexts in the thorough tier) fully symbolic ASCII bytes (0x01..0x7f) spliced in' % (len(CONTEXTS), 2 if quick else 3)
    fw.explore('garbage', harness_garbage, g, fuel=400_000_000)
    nest = [{'kind': k, 'depth': 5 if quick else 7} for k in NEST]
    fw.bounds['nesting_cost'] = 'parser steps for nesting depth 1..%d of %s: increments bounded by 4x the first increment (bounded execution; a proxy for termination, which symbolic execution cannot decide)' % (5 if quick else 7, ', '.join(NEST))
    fw.explore('nesting-cost', harness_nesting, nest, fuel=3_000_000_000)
    fw.bounds['recursive_constraints'] = '%d files with self-, mutually and structurally identical recursive constraints through FileBuilder::build (checker + VM) under a budget of 60M MIR steps (bounded execution; a proxy for termination)' % len(RECURSIVE)
    fw.explore('recursive-constraints', harness_recursive, [{'name': n} for n in RECURSIVE], fuel=60_000_000)
    fw.bounds['environment'] = 'real main() with one environment variable whose name / value is one fully symbolic byte (0x01..0xff)'
    fw.explore('environment', harness_environment, [{'where': 'value'}, {'where': 'name'}], fuel=200_000_000)
    for v in fw.violations:
        if v['case'].get('kind') == 'cli-env-bytes':
            import tempfile
            with tempfile.TemporaryDirectory(prefix='ucg-verif-c04-') as d:
                open(os.path.join(d, 'conf.ucg'), 'w').write('let a = 1;\n')
                bb = bytes([v['case']['byte']])
                envb = {b'HOME': d.encode(), (bb if v['case']['where'] == 'name' else b'AA'): (b'v' if v['case']['where'] == 'name' else bb)}
                r = fw.native().cli(['build', 'conf.ucg'], d, env=envb, clear_env=True)
            v['reproduced'] = r['rc'] == 101 or 'panicked' in r['stderr']
            v['native'] = {'rc': r['rc'], 'stderr': r['stderr'][-200:]}
            fw.replayed += 1
            continue
        if v['case'].get('kind') == 'build-timed':
            import subprocess, tempfile, time
            with tempfile.TemporaryDirectory(prefix='ucg-verif-c04-') as d:
                open(os.path.join(d, 'conf.ucg'), 'w').write(v['case']['text'])
                t0 = time.time()
                try:
                    r = fw.native().cli(['build', 'conf.ucg'], d, timeout=v['case']['limit_s'])
                    v['reproduced'] = r['rc'] not in (0, 1)        # killed by a signal (stack overflow -> SIGABRT) or a panic (101)
                    v['native'] = {'rc': r['rc'], 'stderr': r['stderr'][-200:]}
                except subprocess.TimeoutExpired:
                    v['reproduced'] = True
                    v['native'] = {'seconds': round(time.time() - t0, 1), 'limit_s': v['case']['limit_s']}
            fw.replayed += 1
            continue
        if v['key'].startswith('C04:nesting-cost'):
            import subprocess, tempfile, time
            with tempfile.TemporaryDirectory(prefix='ucg-verif-c04-') as d:
                open(os.path.join(d, 'n.ucg'), 'w').write(v['case']['text'])
                t0 = time.time()
                try:
                    fw.native().cli(['build', 'n.ucg'], d, timeout=v['case']['limit_s'])
                    v['reproduced'] = False
                except subprocess.TimeoutExpired:
                    v['reproduced'] = True
                v['native'] = {'seconds': round(time.time() - t0, 1), 'limit_s': v['case']['limit_s']}
            fw.replayed += 1
            continue
        v['judge'] = judge
    fw.assumptions += ['dev profile (overflow-checks on), as the native dev build and the test suite use; release builds wrap instead of panicking on overflow',
                       'std/alloc calls are abstract-datatype builtins (listed); Display of symbolic numbers is opaque']
    return fw.finish(technique='symbolic execution of rustc MIR (translator + VM) with symbolic i64/f64/byte leaves; every MIR assert/unwrap/panic is a reachability query decided by z3; models replayed natively under catch_unwind')


def replay(fw, case):
    out = fw.replay(case['case'])
    return {'native': out, 'violates': judge(out)}
