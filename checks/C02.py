"""C02 — operator chains group by the published precedence table, left to right.

Engine M. The real `parse_precedence`/`parse_op`/`parse_expression`/`parse_operator_element` and
`BinaryExprType::precedence_level` (MIR of the working tree) are executed on an Element slice
[E1, Op(k1), E2, ..., Op(kn), En+1] with every k_i a *symbolic* discriminant; on each path z3 decides
pc => tree == climb(k1..kn), where climb is the grouping defined by the table parsed from the reference docs."""
import os
import sys
import z3

sys.path.insert(0, os.path.join(os.path.dirname(os.path.abspath(__file__)), '..', 'oracle'))
import astb
import precedence_table as PT
from mirsym.vals import Agg, VecV, is_sym

_S = {}


def setup(prog):
    if 'b' not in _S:
        _S['b'] = astb.B(prog)
        _S['kinds'] = _S['b'].variants('ast::BinaryExprType')
        _S['levels'] = PT.load(prog.tree)
    return _S['b'], _S['kinds'], _S['levels']


def leaf(b, kind, i):
    p = b.pos(1, 10 * i + 1)
    if kind == 'int':
        return b.e_simple(b.v_int(i + 1, p))
    if kind == 'sym':
        return b.e_simple(b.v_sym('a%d' % (i + 1), p))
    if kind == 'grouped':
        return b.e_grouped(b.e_binary(b.binkind('Add'), b.e_simple(b.v_int(100 + i, p)), b.e_simple(b.v_int(7, p)), p), p)
    raise KeyError(kind)


def level_term(k, kinds, levels):
    t = z3.BitVecVal(0, 32)
    for idx, name in enumerate(kinds):
        t = z3.If(k == idx, z3.BitVecVal(levels[name], 32), t)
    return t


def harness(ctx, case):
    prog = ctx.prog
    b, kinds, levels = setup(prog)
    n = case['n']
    ks = []
    elems = []
    leaves = []
    for i in range(n + 1):
        lf = leaf(b, case['leaf'], i)
        leaves.append(lf)
        elems.append(b.enum('parse::precedence::Element', 'Expr', lf))
        if i < n:
            k = ctx.bv('k%d' % i, 64)
            ctx.assume(z3.ULT(k, len(kinds)))
            ks.append(k)
            elems.append(b.enum('parse::precedence::Element', 'Op', b.enum_sym('ast::BinaryExprType', k)))
    it = b.struct('abortable_parser::SliceIter', source=VecV(elems), offset=0)
    r = ctx.call('parse_precedence', [it])
    out = {'reached': True, 'asserts': 1, 'violations': []}
    res_variants = b.variants('abortable_parser::Result')
    vname = res_variants[r.variant]

    def model_kinds(extra=None):
        m = ctx.model(extra)
        return [kinds[m.eval(k, model_completion=True).as_long()] for k in ks]

    def report(key, what, extra=None):
        mk = model_kinds(extra)
        out['violations'].append({'key': key, 'what': what + ' for chain ' + ' '.join(mk), 'case': replay_case(mk),
                                  'expect': PT.sexpr(PT.climb(mk, levels)), 'kinds': mk})

    if vname != 'Complete':
        report('C02:chain-not-parsed:' + vname, 'parse_precedence returned %s' % vname)
        return out
    rest, tree = r.fields
    off = b.field(rest, 'abortable_parser::SliceIter', 'offset')
    if off != len(elems):
        report('C02:unconsumed-elements', 'parse_precedence stopped at element %s of %d' % (off, len(elems)))
        return out
    # walk the resulting tree: (node kind term, left, right); leaves are identified by identity with the inputs
    conds = []
    bad_shape = []

    def walk(e, lo):
        """returns (number of leaves, list of operator indices) ; lo = index of the first leaf in this subtree"""
        en = b.variant_name(e, 'ast::Expression')
        if en == 'Binary' and not any(e is l or e == l for l in leaves):
            d = e.fields[0]
            kind = b.field(d, 'ast::BinaryOpDef', 'kind')
            left = b.field(d, 'ast::BinaryOpDef', 'left')
            right = b.field(d, 'ast::BinaryOpDef', 'right')
            nl, opsl = walk(left, lo)
            j = lo + nl - 1           # operator index between the two sub-ranges
            nr, opsr = walk(right, lo + nl)
            kt = kind.variant if is_sym(kind.variant) else z3.BitVecVal(kind.variant, 64)
            if j >= len(ks):
                bad_shape.append('operator index out of range')
                return nl + nr, opsl + [j] + opsr
            conds.append(kt == ks[j])
            lj = level_term(ks[j], kinds, levels)
            for o in opsl:
                conds.append(z3.UGE(level_term(ks[o], kinds, levels), lj))
            for o in opsr:
                conds.append(z3.UGT(level_term(ks[o], kinds, levels), lj))
            return nl + nr, opsl + [j] + opsr
        # a leaf: must be the lo-th input operand
        if lo >= len(leaves) or not (e is leaves[lo] or e == leaves[lo]):
            bad_shape.append('leaf %d is not operand %d' % (lo, lo))
        return 1, []

    nleaves, ops = walk(tree, 0)
    if nleaves != n + 1 or sorted(ops) != list(range(n)):
        bad_shape.append('tree has %d leaves / operators %s' % (nleaves, ops))
    if bad_shape:
        report('C02:tree-shape', 'result tree does not contain the operands in order (%s)' % '; '.join(bad_shape))
        return out
    prop = z3.And(*conds) if conds else z3.BoolVal(True)
    if not ctx.valid(prop):
        report('C02:grouping-differs-from-table', 'grouping differs from the published precedence table', z3.Not(prop))
    else:
        mk = model_kinds()
        out['sample'] = {'kinds': mk, 'tree': PT.sexpr(PT.climb(mk, levels))}
    return out


# ---------------------------------------------------------------------------------------------------------------------
# family "tokens": the same question one layer up — the real tokenizer, `parse_operand_list` and the operator token
# recognisers on program *text* whose operator spellings are symbolic bytes and whose operands are compound forms.
FORMS = {
    'sym': 'a%d', 'int': '%d', 'str': '"s%d"', 'bool': 'true', 'grouped-sym': '(a%d)', 'grouped-bin': '(a%d + 1)',
    'grouped-bool': '(true)', 'list': '[a%d]', 'tuple': '{x = a%d}', 'call': 'f(a%d)', 'copy': 'a%d{x = 1}',
    'select': 'select (a%d, 1) => {a = 1}', 'format': '"@" %% (a%d)', 'range': '1:a%d', 'import': 'import "f%d"',
    'not-sym': 'not a%d', 'not-grouped': 'not (a%d)', 'not-grouped-bin': 'not (a%d && b)', 'not-bool': 'not true',
    'not-grouped-bool': 'not (true)', 'not-list': 'not [a%d]', 'not-call': 'not f(a%d)',
}


def plain_of(form):
    """the plain-symbol counterpart of an operand form (a leading `not` is part of the chain, not of the operand)"""
    return 'not-sym' if form.startswith('not-') else 'sym'


def chain_text(forms, ops):
    """-> (text with 2-byte operator slots filled from `ops` (str or None placeholders), [start column of operand i])"""
    text, cols = '', []
    for i, f in enumerate(forms):
        t = FORMS[f] % (i + 1) if '%d' in FORMS[f] else FORMS[f].replace('%%', '%')
        lead = 4 if f.startswith('not-') else 0
        cols.append(len(text) + 1 + lead)
        text += t
        if i < len(forms) - 1:
            text += ' ' + ops[i] + ' '
    return text + ';', cols


def two(sp):
    return sp if len(sp) == 2 else sp + ' '


CLASSES = {'p1': [sp for sp in PT.SPELLING.values() if len(sp) == 1], 'p2': [sp for sp in PT.SPELLING.values() if len(sp) == 2 and not sp.isalpha()],
           'w2': [sp for sp in PT.SPELLING.values() if sp.isalpha()]}
PLACEHOLDER = {'p1': '+ ', 'p2': '==', 'w2': 'in'}
_TOK = {}


def real_tokens(ctx, text):
    """tokens of a concrete text from the real tokenizer (memoised per worker process; the parser only reads them)"""
    from mirsym.vals import NONE
    if text not in _TOK:
        r = ctx.call('tokenizer::tokenize', [ctx.call('OffsetStrIter::new', [text]), NONE])
        if r.variant != 0:
            raise RuntimeError('template does not tokenize: %r' % text)
        _TOK[text] = r.fields[0]
    return _TOK[text]


def harness_tokens(ctx, case):
    """operator chains as *token lists*: the operands are tokenized by the real tokenizer, every operator token carries symbolic
    fragment bytes (constrained to the spellings of its class: 1-byte punctuation, 2-byte punctuation, word), and the real
    `statement` parser runs on the list."""
    from mirsym.vals import NONE, SymStr, Agg, VecV
    prog = ctx.prog
    b, kinds, levels = setup(prog)
    forms = case['forms']
    classes = case['classes']
    n = len(forms) - 1
    slots = []
    for i in range(n):
        w = 1 if classes[i] == 'p1' else 2
        bs = [ctx.bv('o%d%s' % (i, 'ab'[j]), 8) for j in range(w)]
        ctx.assume(z3.Or(*[z3.And(*[x == ord(c) for x, c in zip(bs, sp)]) for sp in CLASSES[classes[i]]]))
        slots.append(tuple(bs))

    def sym_tokens(fs):
        text, cols = chain_text(fs, [PLACEHOLDER[c] for c in classes])
        opcols = []
        for i in range(n):
            nxt = cols[i + 1] - (4 if fs[i + 1].startswith('not-') else 0)
            opcols.append(nxt - 3)
        toks = list(real_tokens(ctx, text).items)
        tf = prog.sources.struct_fields('tokenizer::Token') or prog.sources.struct_fields('ast::Token')
        for i, oc in enumerate(opcols):
            hit = [j for j, t in enumerate(toks) if b.field(b.field(t, 'ast::Token', 'pos'), 'ast::Position', 'column') == oc]
            if len(hit) != 1:
                raise RuntimeError('operator token %d not found at column %d of %r' % (i, oc, text))
            t = toks[hit[0]]
            fields = list(t.fields)
            fields[tf.index('fragment')] = SymStr(slots[i])
            toks[hit[0]] = Agg(t.ty, t.variant, tuple(fields))
        return VecV(toks), cols

    out = {'reached': True, 'asserts': 0, 'violations': []}

    def spelled(extra=None):
        m = ctx.model(extra)
        return [bytes(m.eval(x, model_completion=True).as_long() for x in s).decode().strip() for s in slots]

    res_variants = b.variants('abortable_parser::Result')

    def parse(fs):
        toks, cols = sym_tokens(fs)
        it = b.struct('abortable_parser::SliceIter', source=toks, offset=0)
        r = ctx.call('parse::statement', [it])
        if res_variants[r.variant] != 'Complete':
            return None, cols
        rest, stmt = r.fields
        # the whole list up to the END token must be consumed
        if b.field(rest, 'abortable_parser::SliceIter', 'offset') != len(toks.items) - 1:
            return None, cols
        if b.variant_name(stmt, 'ast::Statement') != 'Expression':
            return None, cols
        return stmt.fields[0], cols

    def shape(e, cols, ops):
        en = b.variant_name(e, 'ast::Expression')
        if en == 'Binary':
            d = e.fields[0]
            kind = b.field(d, 'ast::BinaryOpDef', 'kind')
            left = shape(b.field(d, 'ast::BinaryOpDef', 'left'), cols, ops)
            ops.append(kinds[kind.variant])
            right = shape(b.field(d, 'ast::BinaryOpDef', 'right'), cols, ops)
            return (kinds[kind.variant], left, right)
        if en == 'Not':
            return ('not', shape(b.field(e.fields[0], 'ast::NotDef', 'expr'), cols, ops))
        from mirsym.vals import deref_all
        from mirsym.vals import CellV, Ref
        pos = deref_all(ctx.call('Expression::pos', [Ref(CellV(e).slot, 0, ())]))
        col = b.field(pos, 'ast::Position', 'column')
        return cols.index(col) if col in cols else ('?', col)

    plain = [plain_of(f) for f in forms]
    tp, cp = parse(plain)
    if tp is None:
        out['sample'] = {'skipped': 'the chain over plain symbols does not parse', 'ops': spelled()}
        out['not_a_chain'] = 1
        return out
    ops_p = []
    sp = shape(tp, cp, ops_p)
    sp_txt = spelled()
    txt = lambda fs, ops: chain_text(fs, [two(o) for o in ops])[0]

    def report(key, what, **kw):
        v = {'key': key, 'what': what + ' for the chain %r' % chain_text(forms, [two(o) for o in sp_txt])[0],
             'case': {'kind': 'parse-pair', 'text': txt(forms, sp_txt), 'plain': txt(plain, sp_txt)}, 'cols': chain_text(forms, ['  '] * n)[1],
             'plain_cols': cp, 'family': 'tokens'}
        v.update(kw)
        out['violations'].append(v)

    # (1) each operator in the tree is the one spelled in its slot
    out['asserts'] += 1
    if len(ops_p) != n:
        report('C02:tokens:operator-count', 'the tree over plain symbols has %d operators, the text has %d' % (len(ops_p), n), expect_plain=None)
        return out
    conds = [z3.And(*[x == ord(c) for x, c in zip(s, PT.SPELLING[k])]) if len(s) == len(PT.SPELLING[k]) else z3.BoolVal(False) for s, k in zip(slots, ops_p)]
    if not ctx.valid(z3.And(*conds)):
        report('C02:tokens:operator-kind', 'an operator is recognised as a different kind than its spelling (tree has %s)' % ' '.join(ops_p))
        return out
    # (2) chains without `not`: the grouping over plain symbols is the table's
    if not any(f.startswith('not-') for f in forms):
        out['asserts'] += 1
        exp = PT.climb(ops_p, levels)
        if sp != exp:
            report('C02:tokens:grouping-differs-from-table', 'grouping of the plain chain differs from the table: %s, expected %s' % (PT.sexpr(sp), PT.sexpr(exp)),
                   expect_plain=PT.sexpr(exp, leaf=lambda i: '@%d' % cp[i]))
            return out
    # (3) the grouping does not depend on what the operands are
    if plain != forms:
        out['asserts'] += 1
        tf, cf = parse(forms)
        if tf is None:
            out['sample'] = {'skipped': 'the chain with these operand forms does not parse', 'ops': sp_txt, 'forms': forms}
            out['operand_rejected'] = 1
            return out
        ops_f = []
        sf = shape(tf, cf, ops_f)
        if sf != sp:
            report('C02:tokens:grouping-depends-on-operands', 'the grouping changes with the operand forms %s: %r, over plain symbols %r' % (forms, sf, sp))
            return out
    out['sample'] = {'ops': sp_txt, 'forms': forms, 'shape': repr(sp)}
    return out


def token_cases(tier):
    others = [f for f in FORMS if f not in ('sym', 'not-sym')]
    nots = [f for f in FORMS if f.startswith('not-')]
    cases = [{'forms': ['sym'] * (n + 1)} for n in (1, 2)]
    # every operand form in every slot of a one-operator chain
    for f in others:
        cases += [{'forms': [f, 'sym']}, {'forms': ['sym', f]}]
    # two operators: the grouped and `not` forms in every slot (quick); every form in every slot (thorough)
    two_ops = others if tier == 'thorough' else ['grouped-sym', 'not-grouped', 'not-grouped-bool', 'not-list']
    for f in two_ops:
        for i in range(3):
            fs = ['sym'] * 3
            fs[i] = f
            cases.append({'forms': fs})
    if tier == 'thorough':
        cases.append({'forms': ['sym'] * 4})
        for f in ['grouped-sym', 'not-sym', 'not-grouped', 'not-grouped-bool']:
            for i in range(4):
                fs = ['sym'] * 4
                fs[i] = f
                cases.append({'forms': fs})
        for f in nots:
            for g in ('grouped-sym', 'list', 'not-grouped'):
                cases += [{'forms': [f, g, 'sym']}, {'forms': ['sym', f, g]}, {'forms': [g, f, 'sym']}]
    return cases


def with_classes(cases):
    import itertools
    out = []
    for c in cases:
        for cl in itertools.product(('p1', 'p2', 'w2'), repeat=len(c['forms']) - 1):
            out.append({'forms': c['forms'], 'classes': list(cl)})
    return out


def judge_tokens(v):
    import re

    def norm(shape, cols):
        return re.sub(r'@(\d+)', lambda m: '#%d' % cols.index(int(m.group(1))) if int(m.group(1)) in cols else m.group(0), shape or '')

    def j(out):
        a, p = out['pair']
        if not (a.get('ok') and p.get('ok')):
            return False
        sa, sp = norm(a['stmts'][0].get('shape'), v['cols']), norm(p['stmts'][0].get('shape'), v['plain_cols'])
        if v['key'].endswith('grouping-depends-on-operands'):
            return sa != sp
        return True if 'expect_plain' not in v or v['expect_plain'] is None else p['stmts'][0].get('shape') != v['expect_plain']
    return j


def replay_case(kind_names):
    text = 'a1'
    for i, k in enumerate(kind_names):
        text += ' %s a%d' % (PT.SPELLING[k], i + 2)
    return {'kind': 'parse', 'text': text + ';'}


def judge_factory(levels):
    def judge(v):
        def j(out):
            # violation reproduces iff the natively parsed tree differs from the table's grouping
            if not out.get('ok'):
                return True
            return out['stmts'][0].get('sexpr') != v['expect']
        return j
    return judge


def run(fw):
    prog = fw.prog
    b, kinds, levels = setup(prog)
    fw.oracles.append('precedence table parsed from docsite/site/content/reference/expressions.md: %s' % levels)
    nmax = 3 if fw.tier == 'quick' else 4
    fw.bounds.update({'chain_length_max': nmax, 'operator_kinds': len(kinds), 'leaf_kinds': ['int', 'sym', 'grouped'],
                      'tokens_family': {'operators_per_chain': '1..2 (quick), 1..3 (thorough)', 'operand_forms': sorted(FORMS),
                                        'non_plain_operands_per_chain': '1 (quick), 1..2 (thorough)'},
                      'outside': 'chains longer than the bound; operand forms not listed; chains whose operand form the parser rejects (counted)'})
    cases = [{'n': n, 'leaf': 'int'} for n in range(1, nmax + 1)]
    cases += [{'n': n, 'leaf': lk} for lk in ('sym', 'grouped') for n in range(1, 3)]
    fw.explore('elements', harness, cases, fuel=2_000_000)
    mk = judge_factory(levels)
    for v in fw.violations:
        v['judge'] = mk(v)
    nel = len(fw.violations)
    recs = fw.explore('tokens', harness_tokens, with_classes(token_cases(fw.tier)), fuel=6_000_000)
    fw.families['tokens']['chain_over_plain_symbols_rejected'] = sum(r.get('not_a_chain', 0) for r in recs)
    fw.families['tokens']['operand_form_rejected_by_parser'] = sum(r.get('operand_rejected', 0) for r in recs)
    if fw.families['tokens']['chain_over_plain_symbols_rejected']:
        fw.inconclusive.append('tokens: %d operator chains over plain symbols were rejected by the parser' % fw.families['tokens']['chain_over_plain_symbols_rejected'])
    for v in fw.violations[nel:]:
        v['judge'] = judge_tokens(v)
    # witnesses validated natively: a few sampled chains must parse to the oracle tree in the real build
    import random
    rnd = random.Random(fw.seed)
    wit = []
    for _ in range(12):
        n = rnd.randint(1, nmax)
        ksel = [rnd.choice(kinds) for _ in range(n)]
        wit.append((ksel, replay_case(ksel)))
    outs = fw.native().run_many([c for _, c in wit])
    fw.replayed += len(wit)
    for (ksel, c), o in zip(wit, outs):
        exp = PT.sexpr(PT.climb(ksel, levels))
        got = o['stmts'][0].get('sexpr') if o.get('ok') else None
        if got != exp:
            fw.violations.append({'key': 'C02:native-witness-differs', 'what': 'native parse of %r gives %s, table says %s' % (c['text'], got, exp),
                                  'case': c, 'expect': exp, 'reproduced': True, 'family': 'elements'})
    fw.assumptions += ['std/alloc calls are abstract-datatype builtins (listed under builtins_used)',
                       'operands are opaque leaves (Simple int, Simple symbol, Grouped); the parser never inspects them',
                       'dev-profile MIR (overflow-checks on) of the working tree']
    return fw.finish(technique='symbolic execution of rustc MIR (mirsym) + z3 validity check per path against the docs table')


def replay(fw, case):
    b, kinds, levels = setup(fw.prog)
    out = fw.replay(case['case'])
    exp = case.get('expect')
    got = out['stmts'][0].get('sexpr') if out.get('ok') else None
    return {'native': got, 'expected': exp, 'violates': got != exp}
