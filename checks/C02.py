"""C02 — operator chains group by the published precedence table, left to right.

Engine M. The real `parse_precedence`/`parse_op`/`parse_expression`/`parse_operator_element` and
`BinaryExprType::precedence_level` (MIR of the working tree) are executed on an Element slice
[E1, Op(k1), E2, ..., Op(kn), En+1] with every k_i a *symbolic* discriminant; on each path z3 decides
pc => tree == climb(k1..kn), where climb is the grouping defined by the table parsed from the reference docs."""
import os
import sys
import z3

sys.path.insert(0, os.path.join(os.path.dirname(os.path.abspath(__file__)), '..', 'oracle'))
import astb
import precedence_table as PT
from mirsym.vals import Agg, VecV, is_sym

_S = {}


def setup(prog):
    if 'b' not in _S:
        _S['b'] = astb.B(prog)
        _S['kinds'] = _S['b'].variants('ast::BinaryExprType')
        _S['levels'] = PT.load(prog.tree)
    return _S['b'], _S['kinds'], _S['levels']


def leaf(b, kind, i):
    p = b.pos(1, 10 * i + 1)
    if kind == 'int':
        return b.e_simple(b.v_int(i + 1, p))
    if kind == 'sym':
        return b.e_simple(b.v_sym('a%d' % (i + 1), p))
    if kind == 'grouped':
        return b.e_grouped(b.e_binary(b.binkind('Add'), b.e_simple(b.v_int(100 + i, p)), b.e_simple(b.v_int(7, p)), p), p)
    raise KeyError(kind)


def level_term(k, kinds, levels):
    t = z3.BitVecVal(0, 32)
    for idx, name in enumerate(kinds):
        t = z3.If(k == idx, z3.BitVecVal(levels[name], 32), t)
    return t


def harness(ctx, case):
    prog = ctx.prog
    b, kinds, levels = setup(prog)
    n = case['n']
    ks = []
    elems = []
    leaves = []
    for i in range(n + 1):
        lf = leaf(b, case['leaf'], i)
        leaves.append(lf)
        elems.append(b.enum('parse::precedence::Element', 'Expr', lf))
        if i < n:
            k = ctx.bv('k%d' % i, 64)
            ctx.assume(z3.ULT(k, len(kinds)))
            ks.append(k)
            elems.append(b.enum('parse::precedence::Element', 'Op', b.enum_sym('ast::BinaryExprType', k)))
    it = b.struct('abortable_parser::SliceIter', source=VecV(elems), offset=0)
    r = ctx.call('parse_precedence', [it])
    out = {'reached': True, 'asserts': 1, 'violations': []}
    res_variants = b.variants('abortable_parser::Result')
    vname = res_variants[r.variant]

    def model_kinds(extra=None):
        m = ctx.model(extra)
        return [kinds[m.eval(k, model_completion=True).as_long()] for k in ks]

    def report(key, what, extra=None):
        mk = model_kinds(extra)
        out['violations'].append({'key': key, 'what': what + ' for chain ' + ' '.join(mk), 'case': replay_case(mk),
                                  'expect': PT.sexpr(PT.climb(mk, levels)), 'kinds': mk})

    if vname != 'Complete':
        report('C02:chain-not-parsed:' + vname, 'parse_precedence returned %s' % vname)
        return out
    rest, tree = r.fields
    off = b.field(rest, 'abortable_parser::SliceIter', 'offset')
    if off != len(elems):
        report('C02:unconsumed-elements', 'parse_precedence stopped at element %s of %d' % (off, len(elems)))
        return out
    # walk the resulting tree: (node kind term, left, right); leaves are identified by identity with the inputs
    conds = []
    bad_shape = []

    def walk(e, lo):
        """returns (number of leaves, list of operator indices) ; lo = index of the first leaf in this subtree"""
        en = b.variant_name(e, 'ast::Expression')
        if en == 'Binary' and not any(e is l or e == l for l in leaves):
            d = e.fields[0]
            kind = b.field(d, 'ast::BinaryOpDef', 'kind')
            left = b.field(d, 'ast::BinaryOpDef', 'left')
            right = b.field(d, 'ast::BinaryOpDef', 'right')
            nl, opsl = walk(left, lo)
            j = lo + nl - 1           # operator index between the two sub-ranges
            nr, opsr = walk(right, lo + nl)
            kt = kind.variant if is_sym(kind.variant) else z3.BitVecVal(kind.variant, 64)
            if j >= len(ks):
                bad_shape.append('operator index out of range')
                return nl + nr, opsl + [j] + opsr
            conds.append(kt == ks[j])
            lj = level_term(ks[j], kinds, levels)
            for o in opsl:
                conds.append(z3.UGE(level_term(ks[o], kinds, levels), lj))
            for o in opsr:
                conds.append(z3.UGT(level_term(ks[o], kinds, levels), lj))
            return nl + nr, opsl + [j] + opsr
        # a leaf: must be the lo-th input operand
        if lo >= len(leaves) or not (e is leaves[lo] or e == leaves[lo]):
            bad_shape.append('leaf %d is not operand %d' % (lo, lo))
        return 1, []

    nleaves, ops = walk(tree, 0)
    if nleaves != n + 1 or sorted(ops) != list(range(n)):
        bad_shape.append('tree has %d leaves / operators %s' % (nleaves, ops))
    if bad_shape:
        report('C02:tree-shape', 'result tree does not contain the operands in order (%s)' % '; '.join(bad_shape))
        return out
    prop = z3.And(*conds) if conds else z3.BoolVal(True)
    if not ctx.valid(prop):
        report('C02:grouping-differs-from-table', 'grouping differs from the published precedence table', z3.Not(prop))
    else:
        mk = model_kinds()
        out['sample'] = {'kinds': mk, 'tree': PT.sexpr(PT.climb(mk, levels))}
    return out


def replay_case(kind_names):
    text = 'a1'
    for i, k in enumerate(kind_names):
        text += ' %s a%d' % (PT.SPELLING[k], i + 2)
    return {'kind': 'parse', 'text': text + ';'}


def judge_factory(levels):
    def judge(v):
        def j(out):
            # violation reproduces iff the natively parsed tree differs from the table's grouping
            if not out.get('ok'):
                return True
            return out['stmts'][0].get('sexpr') != v['expect']
        return j
    return judge


def run(fw):
    prog = fw.prog
    b, kinds, levels = setup(prog)
    fw.oracles.append('precedence table parsed from docsite/site/content/reference/expressions.md: %s' % levels)
    nmax = 3 if fw.tier == 'quick' else 4
    fw.bounds.update({'chain_length_max': nmax, 'operator_kinds': len(kinds), 'leaf_kinds': ['int', 'sym', 'grouped'],
                      'outside': 'chains longer than the bound; operands that fail to parse; token-level spelling is family tokens'})
    cases = [{'n': n, 'leaf': 'int'} for n in range(1, nmax + 1)]
    cases += [{'n': n, 'leaf': lk} for lk in ('sym', 'grouped') for n in range(1, 3)]
    fw.explore('elements', harness, cases, fuel=2_000_000)
    mk = judge_factory(levels)
    for v in fw.violations:
        v['judge'] = mk(v)
    # witnesses validated natively: a few sampled chains must parse to the oracle tree in the real build
    import random
    rnd = random.Random(fw.seed)
    wit = []
    for _ in range(12):
        n = rnd.randint(1, nmax)
        ksel = [rnd.choice(kinds) for _ in range(n)]
        wit.append((ksel, replay_case(ksel)))
    outs = fw.native().run_many([c for _, c in wit])
    fw.replayed += len(wit)
    for (ksel, c), o in zip(wit, outs):
        exp = PT.sexpr(PT.climb(ksel, levels))
        got = o['stmts'][0].get('sexpr') if o.get('ok') else None
        if got != exp:
            fw.violations.append({'key': 'C02:native-witness-differs', 'what': 'native parse of %r gives %s, table says %s' % (c['text'], got, exp),
                                  'case': c, 'expect': exp, 'reproduced': True, 'family': 'elements'})
    fw.assumptions += ['std/alloc calls are abstract-datatype builtins (listed under builtins_used)',
                       'operands are opaque leaves (Simple int, Simple symbol, Grouped); the parser never inspects them',
                       'dev-profile MIR (overflow-checks on) of the working tree']
    return fw.finish(technique='symbolic execution of rustc MIR (mirsym) + z3 validity check per path against the docs table')


def replay(fw, case):
    b, kinds, levels = setup(fw.prog)
    out = fw.replay(case['case'])
    exp = case.get('expect')
    got = out['stmts'][0].get('sexpr') if out.get('ok') else None
    return {'native': got, 'expected': exp, 'violates': got != exp}
