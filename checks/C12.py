"""C12 — XML output mirrors the document the program described.

Engine M: the real `convert::xml::{write, write_node, get_str_val, get_tuple_val, get_list_val}` are executed from MIR
with xml-rs' `EventWriter::write` a recording stub. Document tuples are built from symbolic decisions: root present /
absent; version absent / "1.0" / "1.1" / other; encoding / standalone present or not; an element tree (depth <= 2 quick,
3 thorough; 0..2 children) whose children are element tuples, `{text = }` tuples, bare strings, other values or tuples with
both name and text; attrs absent / NULL / tuple of 0..2 entries each Str or NULL or non-string; ns absent / string /
{prefix, uri} with either NULL; children absent / NULL / list / non-list. Text and attribute values are symbolic bytes.
Obligation: the recorded event sequence equals the reference traversal (StartDocument with the right fields, balanced
start/characters/end events, attributes in order with byte-identical values, namespaces), NULL attrs/children produce
no event, and every malformed kind returns Err. Escaping and well-formedness of the text xml-rs prints for an event is
third-party code and outside the claim."""
import os
import sys
import z3

import astb
from mirsym import interp
from mirsym.vals import Agg, VecV, MapV, SymStr, FmtV, is_sym, deref_all, NONE
from mirsym.bi_str import sink_new, sink_pieces
from mirsym.bi_core import sym_eq


class Malformed(Exception):
    pass


class Gen:
    def __init__(self, ctx, b, depth, width, reduced_children=False):
        self.ctx, self.b, self.depth, self.width = ctx, b, depth, width
        self.reduced = reduced_children
        self.nsym = 0

    def V(self, variant, *f):
        return self.b.enum('build::ir::Val', variant, *f)

    def choose(self, tag, options):
        k = self.ctx.bv(tag, 8)
        self.ctx.assume(z3.ULT(k, len(options)))
        return options[self.ctx.concretize_int(k, list(range(len(options))))]

    def sym_text(self, tag):
        c = self.ctx.bv(tag, 8)
        self.ctx.assume(z3.And(z3.UGE(c, 0x20), z3.ULT(c, 0x7f)))
        self.nsym += 1
        return SymStr((c, ord('z')))

    def order(self, flds):
        """the order of a node tuple's fields is one symbolic choice per document: as written or reversed (name last)"""
        if getattr(self, '_rev', None) is None:
            self._rev = self.choose('fieldorder', ['as-written', 'reversed']) == 'reversed'
        return list(reversed(flds)) if self._rev else flds

    def fld(self, name, val):
        return Agg('tuple', None, (name, val))

    def node(self, d, path):
        """-> (Val, reference) ; reference: ('elem', name, attrs[(k, v)], ns or None, [children]) | ('text', s) | ('bad', why) | ('empty',)"""
        kinds = ['elem', 'text-tuple', 'string', 'other', 'name-and-text', 'text-and-name', 'name-and-null-text', 'no-name-no-text'] if d > 0 else \
            ['elem', 'text-tuple', 'string', 'other', 'name-and-text', 'text-and-name', 'name-and-null-text']
        kind = self.choose('k' + path, kinds)
        if kind == 'string':
            s = self.sym_text('s' + path)
            return self.V('Str', s), ('text', s)
        if kind == 'other':
            return self.V('Int', 7), ('bad', 'node that is neither tuple nor string')
        if kind == 'text-tuple':
            s = self.sym_text('t' + path)
            return self.V('Tuple', VecV([self.fld('text', self.V('Str', s))])), ('text', s)
        if kind == 'name-and-text':
            return self.V('Tuple', VecV([self.fld('name', self.V('Str', 'n')), self.fld('text', self.V('Str', 'x'))])), ('bad', 'both name and text')
        if kind == 'text-and-name':
            # the same malformed node with its fields in the other order (and something in between)
            return self.V('Tuple', VecV([self.fld('text', self.V('Str', 'x')), self.fld('attrs', self.V('Empty')), self.fld('name', self.V('Str', 'n'))])), ('bad', 'both text and name')
        if kind == 'name-and-null-text':
            nm = 'nt' + path
            fl = [self.fld('text', self.V('Empty')), self.fld('name', self.V('Str', nm))]
            return self.V('Tuple', VecV(self.order(fl))), ('elem', nm, [], None, [])
        if kind == 'no-name-no-text':
            return self.V('Tuple', VecV([self.fld('attrs', self.V('Empty'))])), ('empty',)
        # element
        name = 'e' + path
        flds = [self.fld('name', self.V('Str', name))]
        attrs_ref = []
        bad = None
        # below the root the wider documents keep one representative per class (the full option product of every node is in the
        # depth-1 / one-child case)
        slim = self.reduced and d > 0
        ak = self.choose('a' + path, ['absent', 'tuple', 'not-a-tuple'] if slim else ['absent', 'null', 'tuple', 'not-a-tuple'])
        if ak == 'null':
            flds.append(self.fld('attrs', self.V('Empty')))
        elif ak == 'not-a-tuple':
            flds.append(self.fld('attrs', self.V('Int', 1)))
            bad = bad or 'attrs is not a tuple'
        elif ak == 'tuple':
            n = self.choose('an' + path, [1] if slim else [0, 1, 2])
            afl = []
            for i in range(n):
                vk = self.choose('av%s_%d' % (path, i), ['str'] if slim else ['str', 'null', 'int'])
                an = 'a%d' % i
                if vk == 'str':
                    s = self.sym_text('as%s_%d' % (path, i))
                    afl.append(self.fld(an, self.V('Str', s)))
                    attrs_ref.append((an, s))
                elif vk == 'null':
                    afl.append(self.fld(an, self.V('Empty')))
                else:
                    afl.append(self.fld(an, self.V('Int', 3)))
                    bad = bad or 'attribute value is not a string'
            flds.append(self.fld('attrs', self.V('Tuple', VecV(afl))))
        ns_ref = None
        nk = self.choose('n' + path, ['absent', 'pair'] if slim else ['absent', 'string', 'pair', 'pair-null-prefix', 'pair-null-uri'])
        if nk == 'string':
            flds.append(self.fld('ns', self.V('Str', 'urn:d')))
            ns_ref = ('', 'urn:d')
        elif nk == 'pair':
            # the ns tuple's own fields follow the document's field order too (uri before prefix when reversed)
            flds.append(self.fld('ns', self.V('Tuple', VecV(self.order([self.fld('prefix', self.V('Str', 'p')), self.fld('uri', self.V('Str', 'urn:p'))])))))
            ns_ref = ('p', 'urn:p')
        elif nk == 'pair-null-prefix':
            flds.append(self.fld('ns', self.V('Tuple', VecV([self.fld('prefix', self.V('Empty')), self.fld('uri', self.V('Str', 'urn:p'))]))))
        elif nk == 'pair-null-uri':
            flds.append(self.fld('ns', self.V('Tuple', VecV([self.fld('prefix', self.V('Str', 'p')), self.fld('uri', self.V('Empty'))]))))
        children_ref = []
        ck = self.choose('c' + path, ['absent', 'null', 'list', 'not-a-list'] if d < self.depth else ['absent', 'null', 'not-a-list'])
        if ck == 'null':
            flds.append(self.fld('children', self.V('Empty')))
        elif ck == 'not-a-list':
            flds.append(self.fld('children', self.V('Str', 'oops')))
            bad = bad or 'children is not a list'
        elif ck == 'list':
            n = self.choose('cn' + path, list(range(self.width + 1)))
            kids = [self.node(d + 1, path + str(i)) for i in range(n)]
            flds.append(self.fld('children', self.V('List', VecV([k[0] for k in kids]))))
            children_ref = [k[1] for k in kids]
        flds = self.order(flds)
        if bad:
            return self.V('Tuple', VecV(flds)), ('bad', bad)
        return self.V('Tuple', VecV(flds)), ('elem', name, attrs_ref, ns_ref, children_ref)


def reference_events(ref, out):
    k = ref[0]
    if k == 'bad':
        raise Malformed(ref[1])
    if k == 'empty':
        return
    if k == 'text':
        out.append(('chars', ref[1]))
        return
    _, name, attrs, ns, children = ref
    out.append(('start', name, attrs, ns))
    for c in children:
        reference_events(c, out)
    out.append(('end',))


def contains_bad(ref):
    if ref[0] == 'bad':
        return True
    if ref[0] == 'elem':
        return any(contains_bad(c) for c in ref[4])
    return False


def harness(ctx, case):
    b = astb.B(ctx.prog)
    g = Gen(ctx, b, case['depth'], case['width'], case.get('reduced', False))
    out = {'reached': False, 'asserts': 0, 'violations': []}
    flds = []
    doc_bad = None
    header = case.get('family') != 'tree'
    vk = g.choose('ver', ['absent', '1.0', '1.1', 'other', 'not-a-string'] if header else ['absent'])
    version = 0        # XmlVersion::Version10 is the default
    if vk in ('1.0', '1.1', 'other'):
        flds.append(g.fld('version', g.V('Str', {'1.0': '1.0', '1.1': '1.1', 'other': '2.0'}[vk])))
        version = {'1.0': 0, '1.1': 1, 'other': None}[vk]
        if vk == 'other':
            doc_bad = 'version is neither 1.0 nor 1.1'
    elif vk == 'not-a-string':
        flds.append(g.fld('version', g.V('Int', 1)))
        doc_bad = 'version is not a string'
    encoding = None
    if g.choose('enc', ['absent', 'present'] if header else ['absent']) == 'present':
        flds.append(g.fld('encoding', g.V('Str', 'UTF-8')))
        encoding = 'UTF-8'
    standalone = None
    sk = g.choose('sa', ['absent', 'true', 'false'] if header else ['absent'])
    if sk != 'absent':
        flds.append(g.fld('standalone', g.V('Boolean', sk == 'true')))
        standalone = sk == 'true'
    rk = g.choose('root', ['present', 'absent'])
    root_ref = None
    if rk == 'present':
        if header:
            # the header family varies the declaration; the root is a fixed element or a malformed node
            fk = g.choose('rootkind', ['element', 'string', 'other'])
            if fk == 'element':
                rv = g.V('Tuple', VecV([g.fld('name', g.V('Str', 'r'))]))
                root_ref = ('elem', 'r', [], None, [])
            elif fk == 'string':
                rv = g.V('Str', 'just text')
                root_ref = ('text', 'just text')
            else:
                rv = g.V('Boolean', True)
                root_ref = ('bad', 'node that is neither tuple nor string')
        else:
            rv, root_ref = g.node(0, '')
        flds.append(g.fld('root', rv))
    doc = g.V('Tuple', VecV(flds))
    if case.get('non_tuple_doc'):
        doc = g.V('List', VecV([]))
    sink = sink_new()
    cv = Agg('convert::xml::XmlConverter', None, ())
    r = ctx.call('<convert::xml::XmlConverter as Converter>::convert', [cv, doc, sink])
    out['reached'] = True
    out['asserts'] = 1
    events = []
    for p in sink_pieces(sink):
        for q in (p.pieces if type(p) is FmtV else [p]):
            if type(q) is tuple and q[0] == 'xml-event':
                events.append(q[1])

    def describe():
        return 'document: version=%s encoding=%s standalone=%s root=%s' % (vk, encoding, sk, describe_ref(root_ref))

    def report(key, what):
        out['violations'].append({'key': 'C12:' + key, 'what': what + ' — ' + describe(), 'case': None, 'reproduced': None})

    # reference
    want = None
    why = None
    if case.get('non_tuple_doc'):
        why = 'document is not a tuple'
    elif doc_bad:
        # version errors are only reached when there is a root (the root check comes first in the documented order: any error is fine)
        why = doc_bad
    elif root_ref is None:
        why = 'no root'
    else:
        try:
            want = [('doc', version, encoding, standalone)]
            reference_events(root_ref, want)
        except Malformed as mf:
            want = None
            why = str(mf)
    if want is None:
        if r.variant == 0:
            report('malformed-accepted:' + why.replace(' ', '-'), 'a document the DSL cannot express (%s) is converted without error' % why)
        else:
            out['sample'] = {'rejected': why}
        return out
    if r.variant != 0:
        report('wellformed-rejected', 'a well-formed document description is rejected')
        return out
    got = [norm_event(b, e) for e in events]
    out['asserts'] += len(want)
    if len(got) != len(want):
        report('event-count', 'events %r, reference %r' % (show(got), show(want)))
        return out
    for i, (g_, w_) in enumerate(zip(got, want)):
        if not event_equal(ctx, g_, w_):
            report('event-differs:' + w_[0], 'event %d is %r, reference %r' % (i, show([g_]), show([w_])))
            return out
    out['sample'] = {'events': show(got)[:160]}
    return out


def describe_ref(ref):
    if ref is None:
        return 'absent'
    if ref[0] == 'elem':
        return '<%s attrs=%d ns=%s>[%s]' % (ref[1], len(ref[2]), ref[3], ', '.join(describe_ref(c) for c in ref[4]))
    return ref[0] + (':' + ref[1] if ref[0] == 'bad' else '')


def norm_event(b, e):
    e = deref_all(e)
    if e.ty == 'StartElementBuilder':
        name, attrs, ns = e.fields
        return ('start', name, list(attrs), ns[-1] if ns else None)
    if e.ty == 'EndElementBuilder':
        return ('end',)
    if e.ty == 'xml::writer::XmlEvent':
        if e.variant == 0:
            ver, enc, sa = e.fields
            ver = deref_all(ver)
            enc = deref_all(enc)
            sa = deref_all(sa)
            return ('doc', ver.variant, (enc.fields[0] if enc.variant == 1 else None), (sa.fields[0] if sa.variant == 1 else None))
        if e.variant == 6:
            return ('chars', e.fields[0])
        if e.variant == 3:
            return ('end',)
    return ('other', repr(e))


def text_equal(ctx, a, c):
    e = sym_eq(ctx, a, c)
    return e is True or (e is not False and ctx.valid(e))


def event_equal(ctx, g, w):
    if g[0] != w[0]:
        return False
    if g[0] == 'doc':
        return g[1:] == w[1:]
    if g[0] == 'end':
        return True
    if g[0] == 'chars':
        return text_equal(ctx, g[1], w[1])
    if g[0] == 'start':
        if g[1] != w[1] or len(g[2]) != len(w[2]):
            return False
        for (gk, gv), (wk, wv) in zip(g[2], w[2]):
            if gk != wk or not text_equal(ctx, gv, wv):
                return False
        return (tuple(g[3]) if g[3] else None) == (tuple(w[3]) if w[3] else None)
    return False


def show(evs):
    out = []
    for e in evs:
        if e[0] == 'start':
            out.append('<%s %s%s>' % (e[1], ' '.join('%s=?' % k for k, _ in e[2]), (' xmlns%s=%s' % ((':' + e[3][0]) if e[3][0] else '', e[3][1])) if e[3] else ''))
        elif e[0] == 'end':
            out.append('</>')
        elif e[0] == 'chars':
            out.append('#text')
        else:
            out.append(repr(e))
    return ' '.join(out)


def run(fw):
    quick = fw.tier == 'quick'
    cases = [{'family': 'header', 'depth': 0, 'width': 0}, {'family': 'tree', 'depth': 1, 'width': 1},
             {'family': 'header', 'depth': 0, 'width': 0, 'non_tuple_doc': True}]
    if not quick:
        # the full option product per node is only affordable for one child; wider / deeper documents keep one representative per
        # option class below the root
        cases += [{'family': 'tree', 'depth': 1, 'width': 2, 'reduced': True}, {'family': 'tree', 'depth': 2, 'width': 1, 'reduced': True}]
    fw.bounds.update({'element_depth': '2 with 0..1 children, full option product per node (quick); + 2 with 0..2 children and 3 with 0..1 children, reduced options below the root (thorough)', 'children': 'see element_depth', 'attributes': '0..2', 'text_and_attribute_values': 'one symbolic printable byte + a fixed byte',
                      'outside': 'escaping, well-formedness and indentation of the text xml-rs writes for an event; validity of element/attribute names; comments/CDATA'})
    fw.oracles.append('reference traversal of the document description (StartDocument, start/attrs/ns, characters, end)')
    fw.explore('documents', harness, cases, fuel=50_000_000, max_paths=800000, deadline_s=240 if quick else 2400)
    for v in fw.violations:
        # the recorded events are xml-rs API calls made by ucg code: decided on the real MIR, no third-party behaviour involved
        v['reproduced'] = True
    fw.assumptions += ['xml-rs EventWriter::write / XmlEvent builders are recording builtins; EventWriter::write never fails']
    return fw.finish(technique='symbolic execution of rustc MIR (xml converter) over symbolically chosen document skeletons with symbolic text; event-sequence equality decided per path')


def replay(fw, case):
    return {'violates': True, 'note': 'decided on the MIR of the working tree: rerun ./check C12'}
