"""C16 — a file builds the same alone, in any batch, in any order.

Engine M on the binary crate's MIR: the real `build_command` (→ visit_ucg_files → do_compile → build_file →
FileBuilder::build → parser, checker, translator, VM, import/out hooks, the Environment's opcode cache, value cache,
shape cache and output locks) is executed on small projects in the virtual file system: entry files with out
statements, a shared library, a file that is both built and imported, a failing file — integer leaves symbolic.
Relational obligation, decided on every path: for every file of every ordered batch, the success/failure and the
artifact bytes recorded while that file is built equal those of building the file alone with a fresh Environment."""
import itertools
import os
import sys
import tempfile
import z3

import astb
import symprog as SP
import ucgrun
import C14
from mirsym import interp
from mirsym.vals import Agg, VecV, MapV, assemble

P = SP.ph

PROJECT = {
    'lib.ucg': 'let x = %s;\nlet f = func (y) => y + x;\n' % P(1),
    'libout.ucg': 'let x = %s;\nout flags {l = x};\n' % P(2),
    'a.ucg': 'let l = import "lib.ucg";\nout flags {a = l.x, b = l.f(%s)};\n' % P(3),
    'b.ucg': 'let l = import "./lib.ucg";\nlet m = import "libout.ucg";\nout env {B = l.x, C = m.x};\n',
    'c.ucg': 'let m = import "./sub/../libout.ucg";\nout flags {c = m.x};\n',
    'fail.ucg': 'let q = 1 / (%s - %s);\nout flags {q = q};\n' % (P(4), P(4)),
    'maybe.ucg': 'let q = 10 / %s;\nout flags {q = q};\n' % P(5),
    'noout.ucg': 'let l = import "lib.ucg";\nlet z = l.x;\n',
    # a library that imports a broken / missing file only inside a function body nobody calls: every file that links the
    # library fails to load it, whichever file of the invocation touched the library first
    'lazylib.ucg': 'let port = %s;\nlet f = func () => (import "broken.ucg").port;\n' % P(1),
    'broken.ucg': 'let port = ;\n',
    'lazyapp.ucg': 'let l = import "lazylib.ucg";\nout flags {p = l.port};\n',
    'lazysvc.ucg': 'let l = import "./lazylib.ucg";\nout env {P = l.port};\n',
    'lazylib2.ucg': 'let port = %s;\nlet g = func () => (import "nosuch.ucg").port;\n' % P(2),
    # a file breaking the one-output rule with an import between its two outs: rejected whether or not an earlier file of
    # the invocation already imported the same library
    'twoout.ucg': 'out flags {a = 1};\nlet l = import "lib.ucg";\nout env {B = l.x};\n',
    'twoout2.ucg': 'out flags {a = 1};\nlet l = import "noout.ucg";\nout flags {b = l.z};\n',
    'lazyapp2.ucg': 'let l = import "lazylib2.ucg";\nout flags {p = l.port};\n',
}
# a library reached through symbolic links from two directories, each next to its own settings file
LINKED = {
    'shared/service.ucg': 'let s = import "./settings.ucg";\nlet name = s.name;\n',
    'staging/settings.ucg': 'let name = %s;\n' % P(6),
    'prod/settings.ucg': 'let name = %s;\n' % P(7),
    'staging/deploy.ucg': 'let svc = import "./service.ucg";\nout flags {name = svc.name};\n',
    'prod/deploy.ucg': 'let svc = import "./service.ucg";\nout env {NAME = svc.name};\n',
    'shared/settings.ucg': 'let name = 0;\n',
}
LINKS = {'/cwd/staging/service.ucg': '/cwd/shared/service.ucg', '/cwd/prod/service.ucg': '/cwd/shared/service.ucg'}
ENTRY = ['a.ucg', 'b.ucg', 'c.ucg', 'libout.ucg', 'fail.ucg', 'maybe.ucg', 'noout.ucg', 'lib.ucg']


def cases(tier):
    cs = []
    pairs = list(itertools.permutations(['a.ucg', 'b.ucg', 'libout.ucg', 'fail.ucg', 'lib.ucg'], 2))
    pairs += list(itertools.permutations(['c.ucg', 'libout.ucg', 'maybe.ucg'], 2))
    pairs += [('a.ucg', 'a.ucg'), ('libout.ucg', 'libout.ucg'), ('noout.ucg', 'a.ucg'), ('a.ucg', 'noout.ucg')]
    pairs += list(itertools.permutations(['lazylib.ucg', 'lazyapp.ucg', 'lazysvc.ucg'], 2)) + [('lazylib2.ucg', 'lazyapp2.ucg'), ('lazyapp2.ucg', 'lazylib2.ucg'), ('a.ucg', 'lazyapp.ucg'), ('lazyapp.ucg', 'a.ucg')]
    pairs += [('a.ucg', 'twoout.ucg'), ('twoout.ucg', 'a.ucg'), ('noout.ucg', 'twoout.ucg'), ('lib.ucg', 'twoout.ucg'), ('a.ucg', 'twoout2.ucg'),
              ('noout.ucg', 'twoout2.ucg'), ('twoout2.ucg', 'noout.ucg'), ('twoout.ucg', 'twoout2.ucg')]
    for p in pairs:
        cs.append({'batch': list(p)})
    trip = [('a.ucg', 'b.ucg', 'c.ucg'), ('b.ucg', 'libout.ucg', 'a.ucg'), ('fail.ucg', 'a.ucg', 'b.ucg'), ('libout.ucg', 'c.ucg', 'b.ucg')]
    if tier != 'quick':
        trip = list(itertools.permutations(['a.ucg', 'b.ucg', 'libout.ucg'], 3)) + list(itertools.permutations(['c.ucg', 'fail.ucg', 'maybe.ucg'], 3)) + trip
    for t in trip:
        cs.append({'batch': list(t)})
    for p in (('staging/deploy.ucg', 'prod/deploy.ucg'), ('prod/deploy.ucg', 'staging/deploy.ucg'), ('staging/deploy.ucg', 'staging/deploy.ucg')):
        cs.append({'batch': list(p), 'linked': True})
    return cs


def run_batch(ctx, prog, batch):
    """-> {file: (ok, [(path, bytes value)])} per position in the batch, exit status"""
    ctx.events = []
    env = ucgrun.make_env(ctx)
    matches = Agg('ArgMatches', None, (MapV('HashMap').insert('INPUT', VecV(list(batch))), MapV('HashMap')))
    exited = 0
    try:
        ctx.call('build_command', [matches, VecV([]), True, env])
    except interp.HarnessStop as h:
        exited = h.payload
    segs = []
    cur = None
    for e in ctx.events:
        if e[0] == 'stdout' and type(e[1]) is str and e[1].startswith('Building '):
            cur = {'file': e[1][len('Building '):].strip(), 'ok': True, 'artifacts': {}, 'err': []}
            segs.append(cur)
        elif cur is not None and e[0] == 'stderr':
            t = e[1] if type(e[1]) is str else repr(e[1])
            if 'Build results in no artifacts' not in t:
                cur['ok'] = False
                cur['err'].append(t[:200])
        elif cur is not None and e[0] == 'create':
            cur['artifacts'][e[1]] = []
        elif cur is not None and e[0] == 'write':
            cur['artifacts'].setdefault(e[1], []).append(e[2])
    return segs, exited


def harness(ctx, case):
    prog = ctx.prog
    ucgrun.install_parse_override(prog)
    files = dict(PROJECT)
    if case.get('linked'):
        files.update(LINKED)
        ctx.links = dict(LINKS)
    for n, t in files.items():
        ctx.fs['/cwd/' + n] = t
    ints = {i: ctx.bv('a%d' % i, 64) for i in range(1, 8)}
    ctx.parse_subst = {'ints': ints}
    out = {'reached': True, 'asserts': 0, 'violations': []}
    batch = case['batch']
    segs, exited = run_batch(ctx, prog, batch)
    if [s['file'] for s in segs] != batch:
        raise interp.Unsupported('batch segmentation failed: %r' % [s['file'] for s in segs])
    alone = {}
    for f in sorted(set(batch)):
        s1, e1 = run_batch(ctx, prog, [f])
        alone[f] = (s1[0], e1)

    def report(key, what, f, pos):
        # prefer a model in which the symbolic leaves are pairwise different (equal leaves can hide a mix-up of files)
        dist = z3.Distinct(*ints.values())
        m = ctx.model(dist) if ctx.feasible(dist) else ctx.model()
        fsrc = dict(PROJECT)
        if case.get('linked'):
            fsrc.update(LINKED)
        files = {n: SP.render_text(t, m, ctx, ints) for n, t in fsrc.items()}
        role = 'after:' + ','.join(batch[:pos]) if pos else 'first'
        out['violations'].append({'key': 'C16:%s:%s:%s' % (key, f, role), 'what': what + ' — batch `ucg build %s`' % ' '.join(batch),
                                  'case': {'kind': 'cli-batch', 'files': files, 'batch': batch, 'file': f, 'links': LINKS if case.get('linked') else {}}, 'kind': key})

    # observable state after the batch: path -> content of the last write
    final = {}
    for s in segs:
        for p_, data in s['artifacts'].items():
            final[p_] = data
    union_alone = {}
    for pos, s in enumerate(segs):
        a, _ = alone[s['file']]
        out['asserts'] += 2
        if s['ok'] != a['ok']:
            report('outcome-depends-on-batch', '%s %s in the batch but %s alone (%s)' % (s['file'], 'builds' if s['ok'] else 'fails', 'builds' if a['ok'] else 'fails', (s['err'] or a['err'])[:1]), s['file'], pos)
            return out
        for p_, data in a['artifacts'].items():
            union_alone[p_] = data
            if p_ not in final:
                report('artifact-missing-in-batch', 'building %s alone produces %s, which does not exist after the batch' % (s['file'], p_), s['file'], pos)
                return out
            if not C14.same_text(ctx, final[p_], data):
                report('artifact-bytes-depend-on-batch', 'artifact %s differs between the batch and building %s alone' % (p_, s['file']), s['file'], pos)
                return out
    extra = sorted(set(final) - set(union_alone))
    if extra:
        report('extra-artifact-in-batch', 'the batch leaves %s behind, which no file produces alone' % extra, batch[0], 0)
        return out
    any_fail = any(not s['ok'] for s in segs)
    out['asserts'] += 1
    if (exited != 0) != any_fail:
        report('exit-status', 'exit status %r with per-file results %r' % (exited, [(s['file'], s['ok']) for s in segs]), batch[0], 0)
        return out
    out['sample'] = {'batch': batch, 'results': [(s['file'], s['ok'], sorted(s['artifacts'])) for s in segs]}
    return out


def native_build(fw, files, batch, links=None):
    with tempfile.TemporaryDirectory(prefix='ucg-verif-c16-') as d:
        os.makedirs(os.path.join(d, 'sub'))
        for n, t in files.items():
            os.makedirs(os.path.dirname(os.path.join(d, n)), exist_ok=True)
            open(os.path.join(d, n), 'w').write(t)
        for l, tgt in (links or {}).items():
            lp = os.path.join(d, l[len('/cwd/'):])
            os.symlink(os.path.relpath(os.path.join(d, tgt[len('/cwd/'):]), os.path.dirname(lp)), lp)
        r = fw.native().cli(['build'] + batch, d)
        arts = {}
        for dp, _, fs in os.walk(d):
            for n in sorted(fs):
                if not n.endswith('.ucg'):
                    arts[os.path.relpath(os.path.join(dp, n), d)] = open(os.path.join(dp, n)).read()
    fw.replayed += 1
    return r, arts


def judge(fw, v):
    c = v['case']
    rb, ab = native_build(fw, c['files'], c['batch'], c.get('links'))
    # alone runs for every file of the batch
    exp_rc = 0
    exp_art = {}
    per = {}
    for f in c['batch']:
        r1, a1 = native_build(fw, c['files'], [f], c.get('links'))
        per[f] = (r1['rc'], a1)
        if r1['rc'] != 0:
            exp_rc = 1
        exp_art.update(a1)
    v['native'] = {'batch_rc': rb['rc'], 'batch_stderr': rb['stderr'][-400:], 'batch_artifacts': ab, 'alone': {f: {'rc': x[0], 'artifacts': x[1]} for f, x in per.items()}}
    return (rb['rc'] != 0) != (exp_rc != 0) or ab != exp_art


def run(fw):
    cs = cases(fw.tier)
    fw.bounds.update({'project_files': sorted(PROJECT), 'batches': len(cs), 'batch_length': '2..3 (every ordered pair of the entry files; selected / all triples)', 'symbolic_leaves': '5 i64',
                      'outside': 'artifacts on disk, repeated process invocations, directory recursion; diagnostics text'})
    fw.explore('batches', harness, cs, fuel=500_000_000)
    for v in fw.violations:
        v['reproduced'] = judge(fw, v)
    fw.assumptions += ['io stubs (virtual file system, recorded create/write); a fresh Environment stands for a fresh process', 'std/alloc builtins (listed)']
    return fw.finish(technique='symbolic execution of the binary crate\'s MIR; relational batch-vs-alone obligations over recorded events decided per path; replay with the real binary')


def replay(fw, case):
    v = dict(case)
    return {'violates': bool(judge(fw, v)), 'native': v.get('native')}
