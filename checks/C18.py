"""C18 — `env` exposes the process environment, nothing else, and cannot be shadowed.

Engine M (real parser, translator, VM from MIR). The environment map has 0..3 variables whose *values are symbolic byte
strings*; programs read set and unset names in strict and non-strict mode. z3 decides that a set variable evaluates to
exactly its value (byte for byte); an unset one is NULL (non-strict) or an error (strict) whose message names the
variable and — a reachability/taint question on the error value, whose `format!` arguments the engine keeps — contains
no byte of any *other* variable's value. `let env = ...` must be rejected; `{env = 1}.env` selects the field."""
import os
import sys
import z3

sys.path.insert(0, os.path.join(os.path.dirname(os.path.abspath(__file__)), '..', 'oracle'))
import astb
import symprog as SP
import ucgrun
from mirsym import interp
from mirsym.vals import Agg, VecV, SymStr, FmtV, MapV, is_sym, seq_items, deref_all
from mirsym.bi_core import sym_eq

NAMES = ['AA', 'BB', 'CC']


def cases(tier):
    cs = []
    L = 2 if tier == 'quick' else 3
    for nvars in range(0, 4):
        for strict in (True, False):
            for req in NAMES[:nvars] + ['ZZ']:
                cs.append({'nvars': nvars, 'strict': strict, 'req': req, 'L': L, 'text': 'let v = env.%s;' % req})
    # names the operating system allows but that are not UCG barewords are read with a quoted selector
    for names in (['_TOKEN', 'AA'], ['0DAY', '_'], ['A.B', 'a-b'], ['lower', 'MiXed_9'], ['BASH_FUNC_x%%', 'AA'], ['AA', 'A'], ['A B', 'AA']):
        for strict in (True, False):
            for req in names + ['_UNSET']:
                cs.append({'nvars': len(names), 'names': names, 'strict': strict, 'req': req, 'L': L, 'text': 'let v = env."%s";' % req})
    for strict in (True, False):
        cs.append({'nvars': 2, 'strict': strict, 'req': None, 'L': L, 'text': 'let t = {env = 1}; let v = t.env;'})
        cs.append({'nvars': 2, 'strict': strict, 'req': None, 'L': L, 'text': 'let env = 1;', 'expect_reject': True})
        cs.append({'nvars': 2, 'strict': strict, 'req': None, 'L': L, 'text': 'let f = func (env) => env; let v = f(1);', 'expect_reject_or': 1})
        cs.append({'nvars': 2, 'strict': strict, 'req': 'AA', 'L': L, 'text': 'let f = func () => env.AA; let v = f();'})
        cs.append({'nvars': 2, 'strict': strict, 'req': 'ZZ', 'L': L, 'text': 'let m = module {} => { let x = env.ZZ; }; let v = m{}.x;'})
    return cs


def contains_value(tree, secret_syms, depth=0):
    """does an error-message structure (FmtV pieces / debug payloads) contain any byte of a secret value?"""
    if depth > 40:
        return False
    t = type(tree)
    if t is SymStr:
        return any(any(x is s or (is_sym(x) and x.eq(s)) for s in secret_syms) for x in tree.bytes)
    if t is FmtV:
        return any(contains_value(p, secret_syms, depth + 1) for p in tree.pieces)
    if t in (tuple, list):
        return any(contains_value(p, secret_syms, depth + 1) for p in tree)
    if t is Agg:
        return any(contains_value(p, secret_syms, depth + 1) for p in tree.fields)
    if t is VecV:
        return any(contains_value(p, secret_syms, depth + 1) for p in tree.items)
    if t is MapV:
        return any(contains_value(k, secret_syms, depth + 1) or contains_value(v, secret_syms, depth + 1) for k, v in tree.items)
    if is_sym(tree):
        return any(tree.eq(s) for s in secret_syms)
    return False


def mentions(tree, text, depth=0):
    if depth > 40:
        return False
    t = type(tree)
    if t is str:
        return text in tree
    if t is FmtV:
        return any(mentions(p, text, depth + 1) for p in tree.pieces)
    if t in (tuple, list):
        return any(mentions(p, text, depth + 1) for p in tree)
    if t is Agg:
        return any(mentions(p, text, depth + 1) for p in tree.fields)
    if t is VecV:
        return any(mentions(p, text, depth + 1) for p in tree.items)
    return False


def harness(ctx, case):
    prog = ctx.prog
    b = astb.B(prog)
    ucgrun.install_parse_override(prog)
    out = {'reached': True, 'asserts': 1, 'violations': []}
    vals = {}
    names = case.get('names') or NAMES
    for i in range(case['nvars']):
        bs = []
        for j in range(case['L']):
            v = ctx.bv('v%d_%d' % (i, j), 8)
            ctx.assume(z3.And(z3.UGE(v, 0x21), z3.ULT(v, 0x7f), v != 0x22, v != 0x5c))
            bs.append(v)
        vals[names[i]] = SymStr(bs)
    r = ucgrun.parse_program(ctx, case['text'])
    if r.variant != 0:
        if not case.get('expect_reject'):
            raise interp.Unsupported('harness program does not parse: ' + case['text'])
        out['sample'] = {'text': case['text'], 'rejected_by': 'parser'}
        return out
    env = ucgrun.make_env(ctx, vals)
    res, vm, env = ucgrun.run_program(ctx, r.fields[0], strict=case['strict'], env=env)

    def concrete_env(m):
        return {k: bytes(m.eval(x, model_completion=True).as_long() for x in v.bytes).decode('latin-1') for k, v in vals.items()}

    def report(key, what):
        m = ctx.model()
        out['violations'].append({'key': key, 'what': what + ' — program `%s` (%s) with env %r' % (case['text'], 'strict' if case['strict'] else 'non-strict', concrete_env(m)),
                                  'case': {'kind': 'eval', 'text': case['text'], 'strict': case['strict'], 'env': concrete_env(m)},
                                  'req': case['req'], 'nvars': case['nvars']})
    if case.get('expect_reject'):
        if res.variant == 0:
            report('C18:env-bindable', '`env` can be bound by let')
        return out
    req = case['req']
    if req is None or case.get('expect_reject_or'):
        if res.variant == 0:
            v = SP.binding(ctx, vm, 'v')
            ok = v is not None and deref_all(v).fields[0].fields and deref_all(v).fields[0].fields[0] == 1
            if not ok:
                report('C18:field-named-env', 'a field or parameter named env does not refer to that field: got %r' % (v,))
        return out
    if req in vals:
        if res.variant != 0:
            report('C18:set-variable-fails', 'reading the set variable %s fails' % req)
            return out
        v = deref_all(SP.binding(ctx, vm, 'v'))
        good = False
        if b.variant_name(v, 'build::opcode::Value') == 'P' and b.variant_name(v.fields[0], 'build::opcode::Primitive') == 'Str':
            c = sym_eq(ctx, v.fields[0].fields[0], vals[req])
            good = c is True or (c is not False and ctx.valid(c))
        if not good:
            report('C18:value-altered', 'env.%s does not evaluate to the variable\'s value: %r' % (req, v))
        else:
            out['sample'] = {'text': case['text'], 'strict': case['strict'], 'value': 'byte-identical (z3 valid)'}
        return out
    # unset variable
    if not case['strict']:
        if res.variant != 0:
            report('C18:nostrict-unset-fails', 'non-strict build fails on the unset variable %s' % req)
            return out
        v = deref_all(SP.binding(ctx, vm, 'v'))
        if not (b.variant_name(v, 'build::opcode::Value') == 'P' and b.variant_name(v.fields[0], 'build::opcode::Primitive') == 'Empty'):
            report('C18:nostrict-unset-not-null', 'unset variable %s is not NULL in non-strict mode: %r' % (req, v))
        else:
            out['sample'] = {'text': case['text'], 'strict': False, 'value': 'NULL'}
        return out
    if res.variant == 0:
        report('C18:strict-unset-succeeds', 'strict build succeeds on the unset variable %s' % req)
        return out
    errv = res.fields[0]
    msg = b.field(errv, 'build::opcode::error::Error', 'message')
    out['asserts'] += 2
    if not mentions(msg, req):
        report('C18:error-does-not-name-variable', 'the diagnostic for the unset variable %s does not name it: %r' % (req, msg))
    secret = [x for k, v in vals.items() for x in v.bytes]
    if secret and contains_value(msg, secret):
        report('C18:error-discloses-other-values', 'the diagnostic for the unset variable %s contains the values of other variables' % req)
    else:
        out['sample'] = {'text': case['text'], 'strict': True, 'error_mentions': req}
    return out


def make_judge(v):
    def judge(out):
        key = v['key']
        envm = v['case'].get('env', {})
        if key == 'C18:error-discloses-other-values':
            if out.get('ok'):
                return False
            return any(val and val in out.get('err', '') for val in envm.values())
        if key == 'C18:error-does-not-name-variable':
            return (not out.get('ok')) and v['req'] not in out.get('err', '')
        if key == 'C18:env-bindable':
            return bool(out.get('ok'))
        if key in ('C18:set-variable-fails', 'C18:nostrict-unset-fails'):
            return not out.get('ok')
        if key == 'C18:strict-unset-succeeds':
            return bool(out.get('ok'))
        if key == 'C18:value-altered':
            if not out.get('ok'):
                return True
            got = dict((n, x) for n, x in out['val']['v']).get('v')
            return not (got and got.get('t') == 'str' and got.get('v') == envm.get(v['req']))
        if key == 'C18:nostrict-unset-not-null':
            got = dict((n, x) for n, x in out['val']['v']).get('v') if out.get('ok') else None
            return not (got and got.get('t') == 'null')
        return True
    return judge


def run(fw):
    cs = cases(fw.tier)
    fw.bounds.update({'variables': '0..3', 'value_bytes': cs[0]['L'], 'byte_domain': 'printable ASCII without quote and backslash, symbolic', 'modes': ['strict', 'non-strict'],
                      'outside': 'how the OS environment reaches the map (std::env::vars in main), non-UTF-8 values, names outside [A-Za-z0-9_]'})
    fw.explore('env', harness, cs, fuel=30_000_000)
    for v in fw.violations:
        v['judge'] = make_judge(v)
    fw.assumptions += ['std/alloc builtins (listed); format! keeps its argument values, so disclosure is decided on the error value itself']
    return fw.finish(technique='symbolic execution of rustc MIR with symbolic environment values; value equality by z3, disclosure by taint on the error value; natively replayed')


def replay(fw, case):
    out = fw.replay(case['case'])
    v = {'key': case['key'], 'case': case['case'], 'req': case.get('req')}
    import re
    if v['req'] is None:
        m = re.search(r'env\.(\w+)', case['case']['text'])
        v['req'] = m.group(1) if m else ''
    return {'native': out, 'violates': bool(make_judge(v)(out))}
