"""C18 — `env` exposes the process environment, nothing else, and cannot be shadowed.

Engine M (real parser, translator, VM from MIR). The environment map has 0..3 variables whose *values are symbolic byte
strings*; programs read set and unset names in strict and non-strict mode. z3 decides that a set variable evaluates to
exactly its value (byte for byte); an unset one is NULL (non-strict) or an error (strict) whose message names the
variable and — a reachability/taint question on the error value, whose `format!` arguments the engine keeps — contains
no byte of any *other* variable's value. `let env = ...` must be rejected; `{env = 1}.env` selects the field."""
import os
import sys
import z3

sys.path.insert(0, os.path.join(os.path.dirname(os.path.abspath(__file__)), '..', 'oracle'))
import astb
import symprog as SP
import ucgrun
from mirsym import interp
from mirsym.vals import Agg, VecV, SymStr, FmtV, MapV, is_sym, seq_items, deref_all
from mirsym.bi_core import sym_eq

NAMES = ['AA', 'BB', 'CC']


def cases(tier):
    cs = []
    L = 2 if tier == 'quick' else 3
    for nvars in range(0, 4):
        for strict in (True, False):
            for req in NAMES[:nvars] + ['ZZ']:
                cs.append({'nvars': nvars, 'strict': strict, 'req': req, 'L': L, 'text': 'let v = env.%s;' % req})
    # names the operating system allows but that are not UCG barewords are read with a quoted selector
    for names in (['_TOKEN', 'AA'], ['0DAY', '_'], ['A.B', 'a-b'], ['lower', 'MiXed_9'], ['BASH_FUNC_x%%', 'AA'], ['AA', 'A'], ['A B', 'AA']):
        for strict in (True, False):
            for req in names + ['_UNSET']:
                cs.append({'nvars': len(names), 'names': names, 'strict': strict, 'req': req, 'L': L, 'text': 'let v = env."%s";' % req})
    for strict in (True, False):
        cs.append({'nvars': 2, 'strict': strict, 'req': None, 'L': L, 'text': 'let t = {env = 1}; let v = t.env;'})
        cs.append({'nvars': 2, 'strict': strict, 'req': None, 'L': L, 'text': 'let env = 1;', 'expect_reject': True})
        cs.append({'nvars': 2, 'strict': strict, 'req': None, 'L': L, 'text': 'let f = func (env) => env; let v = f(1);', 'expect_reject_or': 1})
        cs.append({'nvars': 2, 'strict': strict, 'req': 'AA', 'L': L, 'text': 'let f = func () => env.AA; let v = f();'})
        cs.append({'nvars': 2, 'strict': strict, 'req': 'ZZ', 'L': L, 'text': 'let m = module {} => { let x = env.ZZ; }; let v = m{}.x;'})
    return cs


def contains_value(tree, secret_syms, depth=0):
    """does an error-message structure (FmtV pieces / debug payloads) contain any byte of a secret value?"""
    if depth > 40:
        return False
    t = type(tree)
    if t is SymStr:
        return any(any(x is s or (is_sym(x) and x.eq(s)) for s in secret_syms) for x in tree.bytes)
    if t is FmtV:
        return any(contains_value(p, secret_syms, depth + 1) for p in tree.pieces)
    if t in (tuple, list):
        return any(contains_value(p, secret_syms, depth + 1) for p in tree)
    if t is Agg:
        return any(contains_value(p, secret_syms, depth + 1) for p in tree.fields)
    if t is VecV:
        return any(contains_value(p, secret_syms, depth + 1) for p in tree.items)
    if t is MapV:
        return any(contains_value(k, secret_syms, depth + 1) or contains_value(v, secret_syms, depth + 1) for k, v in tree.items)
    if is_sym(tree):
        return any(tree.eq(s) for s in secret_syms)
    return False


def mentions(tree, text, depth=0):
    if depth > 40:
        return False
    t = type(tree)
    if t is str:
        return text in tree
    if t is FmtV:
        return any(mentions(p, text, depth + 1) for p in tree.pieces)
    if t in (tuple, list):
        return any(mentions(p, text, depth + 1) for p in tree)
    if t is Agg:
        return any(mentions(p, text, depth + 1) for p in tree.fields)
    if t is VecV:
        return any(mentions(p, text, depth + 1) for p in tree.items)
    return False


def harness(ctx, case):
    prog = ctx.prog
    b = astb.B(prog)
    ucgrun.install_parse_override(prog)
    out = {'reached': True, 'asserts': 1, 'violations': []}
    vals = {}
    names = case.get('names') or NAMES
    for i in range(case['nvars']):
        bs = []
        for j in range(case['L']):
            v = ctx.bv('v%d_%d' % (i, j), 8)
            ctx.assume(z3.And(z3.UGE(v, 0x21), z3.ULT(v, 0x7f), v != 0x22, v != 0x5c))
            bs.append(v)
        vals[names[i]] = SymStr(bs)
    r = ucgrun.parse_program(ctx, case['text'])
    if r.variant != 0:
        if not case.get('expect_reject'):
            raise interp.Unsupported('harness program does not parse: ' + case['text'])
        out['sample'] = {'text': case['text'], 'rejected_by': 'parser'}
        return out
    env = ucgrun.make_env(ctx, vals)
    res, vm, env = ucgrun.run_program(ctx, r.fields[0], strict=case['strict'], env=env)

    def concrete_env(m):
        return {k: bytes(m.eval(x, model_completion=True).as_long() for x in v.bytes).decode('latin-1') for k, v in vals.items()}

    def report(key, what):
        m = ctx.model()
        out['violations'].append({'key': key, 'what': what + ' — program `%s` (%s) with env %r' % (case['text'], 'strict' if case['strict'] else 'non-strict', concrete_env(m)),
                                  'case': {'kind': 'eval', 'text': case['text'], 'strict': case['strict'], 'env': concrete_env(m)},
                                  'req': case['req'], 'nvars': case['nvars']})
    if case.get('expect_reject'):
        if res.variant == 0:
            report('C18:env-bindable', '`env` can be bound by let')
        return out
    req = case['req']
    if req is None or case.get('expect_reject_or'):
        if res.variant == 0:
            v = SP.binding(ctx, vm, 'v')
            ok = v is not None and deref_all(v).fields[0].fields and deref_all(v).fields[0].fields[0] == 1
            if not ok:
                report('C18:field-named-env', 'a field or parameter named env does not refer to that field: got %r' % (v,))
        return out
    if req in vals:
        if res.variant != 0:
            report('C18:set-variable-fails', 'reading the set variable %s fails' % req)
            return out
        v = deref_all(SP.binding(ctx, vm, 'v'))
        good = False
        if b.variant_name(v, 'build::opcode::Value') == 'P' and b.variant_name(v.fields[0], 'build::opcode::Primitive') == 'Str':
            c = sym_eq(ctx, v.fields[0].fields[0], vals[req])
            good = c is True or (c is not False and ctx.valid(c))
        if not good:
            report('C18:value-altered', 'env.%s does not evaluate to the variable\'s value: %r' % (req, v))
        else:
            out['sample'] = {'text': case['text'], 'strict': case['strict'], 'value': 'byte-identical (z3 valid)'}
        return out
    # unset variable
    if not case['strict']:
        if res.variant != 0:
            report('C18:nostrict-unset-fails', 'non-strict build fails on the unset variable %s' % req)
            return out
        v = deref_all(SP.binding(ctx, vm, 'v'))
        if not (b.variant_name(v, 'build::opcode::Value') == 'P' and b.variant_name(v.fields[0], 'build::opcode::Primitive') == 'Empty'):
            report('C18:nostrict-unset-not-null', 'unset variable %s is not NULL in non-strict mode: %r' % (req, v))
        else:
            out['sample'] = {'text': case['text'], 'strict': False, 'value': 'NULL'}
        return out
    if res.variant == 0:
        report('C18:strict-unset-succeeds', 'strict build succeeds on the unset variable %s' % req)
        return out
    errv = res.fields[0]
    msg = b.field(errv, 'build::opcode::error::Error', 'message')
    out['asserts'] += 2
    if not mentions(msg, req):
        report('C18:error-does-not-name-variable', 'the diagnostic for the unset variable %s does not name it: %r' % (req, msg))
    secret = [x for k, v in vals.items() for x in v.bytes]
    if secret and contains_value(msg, secret):
        report('C18:error-discloses-other-values', 'the diagnostic for the unset variable %s contains the values of other variables' % req)
    else:
        out['sample'] = {'text': case['text'], 'strict': True, 'error_mentions': req}
    return out


def harness_main(ctx, case):
    """the real `main` of the binary: environment capture at start-up, flag handling, build of one file that writes
    `out env {V = env.NAME}`. clap and the home directory are stubs (listed); std::env::vars yields the harness's variables, whose
    values are symbolic byte strings of length 0..2."""
    from mirsym.vals import NONE, some, Opaque
    prog = ctx.prog
    ucgrun.install_parse_override(prog)
    out = {'reached': True, 'asserts': 1, 'violations': []}
    names = case['names']
    vals = {}
    for i, (n, L) in enumerate(zip(names, case['lens'])):
        bs = []
        for j in range(L):
            v = ctx.bv('m%d_%d' % (i, j), 8)
            ctx.assume(z3.And(z3.UGE(v, 0x21), z3.ULT(v, 0x7f), v != 0x22, v != 0x5c, v != 0x27))
            bs.append(v)
        vals[n] = SymStr(bs) if bs else ''
    ctx.process_env = [(n, vals[n]) for n in names]
    req = case['req']
    ctx.fs['/cwd/conf.ucg'] = 'out env {V = env.%s};\n' % req
    sub = Agg('ArgMatches', None, (MapV('HashMap').insert('INPUT', VecV(['conf.ucg'])), MapV('HashMap')))
    flags = MapV('HashMap')
    if not case['strict']:
        flags = flags.insert('nostrict', True)
    top = Agg('ArgMatches', None, (MapV('HashMap'), flags))
    # the stubs read the per-path context (call sites cache their resolved callee, so the stub functions themselves must not close
    # over per-case values)
    ctx.cli_top, ctx.cli_sub = top, sub
    if 'do_flags' not in prog.overrides:
        prog.overrides['do_flags'] = lambda c, a, callee: Opaque('clap::App')
        prog.overrides['<App as Clone>::clone'] = lambda c, a, callee: Opaque('clap::App')
        prog.overrides['App::get_matches'] = lambda c, a, callee: c.cli_top
        prog.overrides['ArgMatches::subcommand_matches'] = lambda c, a, callee: some(c.cli_sub) if deref_all(a[1]) == 'build' else NONE
        prog.overrides['home_dir'] = prog.overrides['dirs::home_dir'] = lambda c, a, callee: NONE
    prog.resolve_cache.clear()
    exited = 0
    try:
        ctx.call('main', [])
    except interp.HarnessStop as h:
        exited = h.payload

    def concrete_env(m):
        return {k: (bytes(m.eval(x, model_completion=True).as_long() for x in v.bytes).decode('latin-1') if type(v) is SymStr else v) for k, v in vals.items()}

    def report(key, what):
        m = ctx.model()
        e = concrete_env(m)
        out['violations'].append({'key': key, 'what': what + ' — `ucg %sbuild conf.ucg` with conf.ucg = `out env {V = env.%s};` and environment %r' % ('' if case['strict'] else '--no-strict ', req, e),
                                  'case': {'kind': 'cli-env', 'text': 'out env {V = env.%s};\n' % req, 'strict': case['strict'], 'env': e}, 'req': req, 'set': req in vals})
    writes = [e[2] for e in ctx.events if e[0] == 'write']
    if req in vals:
        if exited != 0:
            report('C18:main:set-variable-fails', 'the build fails although %s is set (to a value of %d bytes)' % (req, case['lens'][names.index(req)]))
            return out
        import C14
        out['asserts'] += 1
        if not C14.same_text(ctx, writes, ["V='", vals[req], "'\n"]):
            report('C18:main:value-altered', 'the artifact does not carry the value of %s: %r' % (req, writes))
            return out
        out['sample'] = {'req': req, 'lens': case['lens'], 'strict': case['strict'], 'artifact': 'V=<value> byte-identical'}
        return out
    if case['strict'] and exited == 0:
        report('C18:main:unset-builds-in-strict-mode', 'the build succeeds although %s is not set' % req)
    if not case['strict'] and exited != 0:
        report('C18:main:unset-fails-in-non-strict-mode', 'the build fails in non-strict mode for the unset variable %s' % req)
    out['sample'] = {'req': req, 'unset': True, 'strict': case['strict'], 'exit': exited}
    return out


def judge_main(fw, v):
    import tempfile
    c = v['case']
    with tempfile.TemporaryDirectory(prefix='ucg-verif-c18-') as d:
        open(os.path.join(d, 'conf.ucg'), 'w').write(c['text'])
        r = fw.native().cli((['--no-strict'] if not c['strict'] else []) + ['build', 'conf.ucg'], d, env=dict(c['env']), clear_env=True)
        art = open(os.path.join(d, 'conf.env')).read() if os.path.exists(os.path.join(d, 'conf.env')) else None
    fw.replayed += 1
    v['native'] = {'rc': r['rc'], 'stderr': r['stderr'][-300:], 'artifact': art}
    k = v['key']
    if k.endswith('set-variable-fails'):
        return r['rc'] != 0
    if k.endswith('value-altered'):
        return r['rc'] == 0 and art != "V='%s'\n" % c['env'][v['req']]
    if k.endswith('unset-builds-in-strict-mode'):
        return r['rc'] == 0
    if k.endswith('unset-fails-in-non-strict-mode'):
        return r['rc'] != 0
    return False


def make_judge(v):
    def judge(out):
        key = v['key']
        envm = v['case'].get('env', {})
        if key == 'C18:error-discloses-other-values':
            if out.get('ok'):
                return False
            return any(val and val in out.get('err', '') for val in envm.values())
        if key == 'C18:error-does-not-name-variable':
            return (not out.get('ok')) and v['req'] not in out.get('err', '')
        if key == 'C18:env-bindable':
            return bool(out.get('ok'))
        if key in ('C18:set-variable-fails', 'C18:nostrict-unset-fails'):
            return not out.get('ok')
        if key == 'C18:strict-unset-succeeds':
            return bool(out.get('ok'))
        if key == 'C18:value-altered':
            if not out.get('ok'):
                return True
            got = dict((n, x) for n, x in out['val']['v']).get('v')
            return not (got and got.get('t') == 'str' and got.get('v') == envm.get(v['req']))
        if key == 'C18:nostrict-unset-not-null':
            got = dict((n, x) for n, x in out['val']['v']).get('v') if out.get('ok') else None
            return not (got and got.get('t') == 'null')
        return True
    return judge


def run(fw):
    cs = cases(fw.tier)
    fw.bounds.update({'variables': '0..3', 'value_bytes': cs[0]['L'], 'byte_domain': 'printable ASCII without quote and backslash, symbolic', 'modes': ['strict', 'non-strict'],
                      'outside': 'non-UTF-8 names and values (std::env::vars panics on them: outside the property, which quantifies over Unicode values), names outside [A-Za-z0-9_] in family main'})
    fw.explore('env', harness, cs, fuel=30_000_000)
    for v in fw.violations:
        v['judge'] = make_judge(v)
    # the binary's own start-up: how the process environment reaches the map (value lengths 0..2, incl. set-but-empty variables)
    mc = []
    for strict in (True, False):
        for lens in ([0], [1], [2], [0, 2], [2, 0], [1, 1]):
            names = NAMES[:len(lens)]
            for req in names + ['ZZ']:
                mc.append({'names': names, 'lens': lens, 'req': req, 'strict': strict})
    fw.bounds['main_family'] = 'real main(): 1..2 variables with values of 0..2 symbolic bytes, strict and --no-strict, one set or unset name read by `out env {V = env.NAME}`'
    n0 = len(fw.violations)
    fw.explore('main', harness_main, mc, fuel=100_000_000)
    for v in fw.violations[n0:]:
        v['reproduced'] = judge_main(fw, v)
    fw.assumptions += ['std/alloc builtins (listed); format! keeps its argument values, so disclosure is decided on the error value itself',
                       'family main: clap (do_flags, get_matches, subcommand_matches) and dirs::home_dir are stubs; std::env::vars yields the harness environment; File::create/write are recording stubs']
    return fw.finish(technique='symbolic execution of rustc MIR with symbolic environment values; value equality by z3, disclosure by taint on the error value; natively replayed')


def replay(fw, case):
    out = fw.replay(case['case'])
    v = {'key': case['key'], 'case': case['case'], 'req': case.get('req')}
    import re
    if v['req'] is None:
        m = re.search(r'env\.(\w+)', case['case']['text'])
        v['req'] = m.group(1) if m else ''
    return {'native': out, 'violates': bool(make_judge(v)(out))}
