"""C07 — the static checker never rejects a program that evaluates successfully.

Engine M. Every program of the C01 skeleton set (no constraint annotations) plus ~45 skeletons of the constructs the
reference documents as valid (map/filter/reduce over let-bound lists, tuples and strings, calls through tuple fields,
nested selectors, modules, format, ranges, casts, polymorphic use of one function) is run twice from MIR with the *same*
symbolic integer leaves:
  A — `FileBuilder::eval_stmts` (translator + VM, no checker; the eval_string path),
  B — `FileBuilder::build` of the same text as a file on the virtual file system (parser, `Checker`, translator, VM).
Per path of A that evaluates to completion, z3-feasible under the path condition: B must succeed as well, and the tuple of
top-level bindings B leaves must equal A's (z3 validity over the symbolic leaves). A path where A fails says nothing."""
import hashlib
import os
import re
import sys
import tempfile
import z3

sys.path.insert(0, os.path.dirname(os.path.abspath(__file__)))
import astb
import symprog as SP
import ucgrun
from mirsym import interp
from mirsym.vals import Agg, VecV, MapV, CellV, Ref, NONE, some, deref_all

P = SP.ph

DOCUMENTED = [
    'let t = {a = %s, b = 2}; let r = map(func (k, v) => [k, v], t);' % P(1),
    'let t = {a = %s, b = 2}; let r = filter(func (k, v) => v > 1, t);' % P(1),
    'let t = {a = %s}; let r = reduce(func (acc, k, v) => acc + v, 0, t);' % P(1),
    'let s = "abc"; let r = map(func (c) => c + c, s);',
    'let s = "abc"; let r = filter(func (c) => c != "a", s);',
    'let s = "abc"; let r = reduce(func (acc, c) => acc + [c], [], s);',
    'let l = [%s, 2]; let r = reduce(func (acc, x) => acc + x, 0, l);' % P(1),
    'let l = [%s, 2]; let r = map(func (x) => x * 2, l); let q = filter(func (x) => x > 1, r);' % P(1),
    'let t = {f = func (x) => x + %s}; let r = t.f(1);' % P(1),
    'let t = {inner = {f = func (x) => x}}; let r = t.inner.f(%s);' % P(1),
    'let t = {a = {b = {c = [1, {d = %s}]}}}; let r = t.a.b.c.1.d;' % P(1),
    'let m = module {x = 1} => {let y = mod.x + %s;}; let r = m{x = 2}.y;' % P(1),
    'let m = module {x = 1} => (y) {let y = mod.x;}; let r = m{x = %s} + 1;' % P(1),
    'let m = module {x = NULL} => {let y = mod.x;}; let r = m{x = "s"}.y + "t";',
    'let r = "a @ b @" % (' + P(1) + ', "s");',
    'let t = {a = %s}; let r = "@{item.a}" %% t;' % P(1),
    'let r = 0:2:6; let r2 = 1:3; let n = r.1 + r2.0;',
    'let r = int("1") + %s;' % P(1),
    'let f = float(1) + 1.5; let s = str(%s) + "x"; let b = bool("true") && true;' % P(1),
    'let l = [1, "a", NULL]; let r = l.1 + "b";',
    'let t = {a = NULL}; let r = t{a = %s}; let q = r.a + 1;' % P(1),
    'let x = NULL; let r = x == NULL;',
    'let r = select ("a", 1) => {a = "str"};',
    'let f = func (x) => select (x is "int", "other") => {true = x + 1}; let r = f(%s); let r2 = f("s");' % P(1),
    'let l = [1, 2] + [%s]; let s = "a" + "b";' % P(1),
    'let t = {a = 1}; let r = "a" in t; let r2 = %s in [1];' % P(1),
    'let f = func (x, y) => x + y; let r = f(%s, 2); let r2 = f("a", "b");' % P(1),
    'let f = func (x) => x.a; let r = f({a = %s}) + 1;' % P(1),
    'let id = func (x) => x; let r = id(%s) + 1; let s = id("s") + "t";' % P(1),
    'let r = map(func (x) => x * 2, 1:3);',
    'let t = {a = 1}; let u = t{b = %s}; let r = u.b + 1;' % P(1),
    'let r = not (%s == 2);' % P(1),
    'let r = 1.5 + 2.0; let q = 2 * %s %%%% 4;' % P(1),
    'let r = [1, %s].0 + 1;' % P(1),
    'let r = {a = %s}.a + 1;' % P(1),
    'let r = select (true) => {true = 1, false = 2};',
    'let r = %s in [1] && "a" in {a = 1};' % P(1),
    'let r = "abc" ~ "a.c"; let r2 = "abc" !~ "x";',
    'let t = {a = 1, b = "s"}; let r = t.a + 1; let s = t.b + "t";',
    'let f = func (t) => t{c = 3}; let r = f({a = 1}).c + %s;' % P(1),
    'let f = func (l) => l.0; let r = f([%s]) + 1; let s = f(["s"]) + "t";' % P(1),
    'let mk = func (x) => {v = x}; let r = mk(%s).v + 1; let s = mk("s").v + "t";' % P(1),
    'let t = {a = 1}; let r = select (t.a == 1, "d") => {true = "one"}; let q = r + "!";',
    'let l = [[1, 2], [3]]; let r = map(func (x) => x.0, l); let n = r.0 + %s;' % P(1),
    'let f = func (x) => func (y) => x + y; let r = f(1)(%s);' % P(1),
    'let t = {"a b" = %s}; let r = t."a b" + 1;' % P(1),
    'let pairs = map(func (k, v) => [v, k], {a = "x"}); let r = pairs.x;',
    'let l = filter(func (x) => x != NULL, [1, NULL, %s]); let r = l.0 + 1;' % P(1),
    'let t = reduce(func (acc, x) => acc{n = acc.n + x}, {n = 0}, [1, %s]); let r = t.n + 1;' % P(1),
    'let e = []; let r = e + [1]; let t = {}; let u = t{a = 1};',
    'let a = 1; let b = a + %s; let c = [a, b]; let d = {x = c}; let r = d.x.1 - b;' % P(1),
    'let f = func (t) => t{c = 3}; let r = f({a = %s}).a + 1;' % P(1),
    'let f = func (m) => m{x = 2}; let mod1 = module {x = 1} => {let y = mod.x;}; let r = f(mod1).y + %s;' % P(1),
    'let f = func (l) => map(func (x) => x + 1, l); let r = f([%s]).0 + 1;' % P(1),
    'let f = func (t) => map(func (k, v) => [k, v], t); let r = f({a = %s}).a + 1;' % P(1),
    'let t = {f = func (x) => {c = x}}; let r = t.f(%s).c + 1;' % P(1),
    'let t = {a = %s}; let k = "a"; let r = t.(k) + 1;' % P(1),
    'let l = [1, %s]; let i = 1; let r = l.(i) + 1;' % P(1),
    'let s = select ("a", {x = 1}) => {a = {x = %s}}; let r = s.x + 1;' % P(1),
    'let s = select ("a") => {a = %s, b = "s"}; let r = s + 1;' % P(1),
    'let f = func (x) => select (x) => {a = 1, b = "s"}; let r = f("a") + %s; let q = f("b") + "t";' % P(1),
    'let r = [%s, "a"].0 + 1;' % P(1),
    'let n = NULL; let t = {a = n}; let r = t{a = %s}.a + 1;' % P(1),
    'let l = []; let r = l + ["s"]; let q = r.0 + "t";',
    'let x = %s; let r = x is "int" && x == 1;' % P(1),
    'let f = func (x) => x == NULL; let r = f(%s); let q = f(NULL);' % P(1),
    'let r = "a" + str(%s) + str(1.5) + str(true);' % P(1),
    'let t = {a = 1}; let r = t == {a = %s}; let q = [1] == [1]; let z = NULL == 1;' % P(1),
    'let l = 0:3; let r = l.2 + %s;' % P(1),
    'let r = reduce(func (acc, x) => acc + [x], [], [1, %s]).1 + 1;' % P(1),
    'let r = filter(func (x) => x > 1, [1, 2]).0 + %s;' % P(1),
    'let r = map(func (x) => str(x), [%s]).0 + "s";' % P(1),
    'let r = map(func (x) => {v = x}, [%s]).0.v + 1;' % P(1),
    'let m = module {x = 1} => (f) {let f = func (y) => y + mod.x;}; let g = m{}; let r = g(%s) + 1;' % P(1),
    'let t = {a = %s}; let r = t{a = 2, b = self.a}.b + 1;' % P(1),
    'let f = func (a, b) => a{x = b}; let r = f({x = 1}, %s).x + 1;' % P(1),
    'let compose = func (f, g) => func (x) => g(f(x)); let inc = func (x) => x + 1; let r = compose(inc, inc)(%s) + 1;' % P(1),
    'let apply = func (f, x) => f(x); let r = apply(func (y) => y + 1, %s) + 1; let s = apply(func (y) => y + "t", "s") + "u";' % P(1),
    'let t = {a = %s}; let has = "a" in t && t.a == 1;' % P(1),
    'let x = select (1 == 1, NULL) => {true = {a = %s}}; let r = x.a + 1;' % P(1),
    'let t = {a = {b = 1}}; let u = t{a = self.a{c = %s}}; let r = u.a.c + u.a.b;' % P(1),
    'let m = module {x = 1} => {let inner = module {y = mod.x} => {let z = mod.y + 1;}; let r = inner{}.z;}; let r = m{x = %s}.r + 1;' % P(1),
    'let l = [{a = 1}, {a = %s}]; let r = map(func (t) => t.a, l); let s = r.1 + 1;' % P(1),
    'let l = [{a = 1}, {a = %s}]; let r = filter(func (t) => t.a > 1, l);' % P(1),
    'let t = {a = 1, b = %s}; let r = reduce(func (acc, k, v) => acc + v, 0, t) + 1;' % P(1),
    'let s = "abc"; let r = reduce(func (acc, c) => acc + c, "", s) + "d";',
    'let s = "abc"; let r = map(func (c) => c, s) + "d";',
    'let s = "abc"; let r = filter(func (c) => c != "b", s) + "d";',
    'let t = {a = %s}; let r = filter(func (k, v) => v > 0, t); let q = map(func (k, v) => [k, v], r);' % P(1),
    # shapes that are unified with other shapes after a copy changed a field's structure (list concatenation, module arguments, select arms)
    'let t = {a = {x = 1}}; let u = t{a = {y = %s}}; let l = [u] + [{a = {y = 3}}]; let r = l.1.a.y + 1;' % P(1),
    'let t = {a = {x = 1}}; let u = t{a = {y = %s}}; let l = [u] + [u]; let r = l.0.a.y + 1;' % P(1),
    'let t = {a = [1]}; let u = t{a = ["s"]}; let l = [u] + [u]; let r = l.1.a.0 + "t";',
    'let m = module {cfg = {a = {y = 0}}} => {let v = mod.cfg.a.y;}; let t = {a = {x = 1}}; let u = t{a = {y = %s}}; let r = m{cfg = u}.v + 1;' % P(1),
    'let t = {a = {x = 1, z = 2}}; let u = t{a = {x = %s, y = 2}}; let l = [u, {a = {x = 1, y = 5}}]; let r = l.1.a.y + l.0.a.x;' % P(1),
    'let l = [{a = 1}] + [{b = "s"}]; let r = l.1.b + "t"; let q = l.0.a + %s;' % P(1),
    'let l = [{a = 1}, {a = "s"}]; let r = l.1.a + "t"; let q = l.0.a + %s;' % P(1),
    'let s = select ("k", {a = 1}) => {k = {b = %s}}; let r = s.b + 1;' % P(1),
    'let f = func (t) => t.a; let r = f({a = %s}) + 1; let s = f({a = "s", b = 2}) + "t";' % P(1),
    'let m = module {v = NULL} => {let out = mod.v;}; let r = m{v = {a = %s}}.out.a + 1; let s = m{v = [1]}.out.0 + 1;' % P(1),
    'let m = module {v = {a = 1}} => {let out = mod.v.a;}; let r = m{v = {a = %s, b = 2}}.out + 1;' % P(1),
    'let base = {a = 1, b = {c = 2}}; let c1 = base{b = {c = "s"}}; let c2 = c1{b = {d = %s}}; let r = [c1, c2, base]; let q = c2.b.d + 1;' % P(1),
    # parameters declared in non-alphabetical order whose shapes differ (arguments are positional)
    'let f = func (s, n) => {label = s + "!", total = n + %s}; let r = f("a", 1);' % P(1),
    'let f = func (zeta, alpha) => zeta + "x" + str(alpha + %s); let r = f("a", 1);' % P(1),
    'let t = {mk = func (name, age) => {n = name + "", a = age + 1}}; let r = t.mk("bob", %s);' % P(1),
    'let f = func (b, a, c) => [b + 1, a + "s", c && true]; let r = f(%s, "x", false);' % P(1),
    # a parameter that shadows an outer binding of another type
    'let x = "str"; let f = func (x) => x + 1; let r = f(%s);' % P(1),
    'let item = "s"; let f = func (item) => item + 1; let r = f(%s);' % P(1),
    # arithmetic on a select whose default has another type than the arm that is taken
    'let s = select ("k", "none") => {k = 1}; let r = s + %s;' % P(1),
    'let s = select ("k", NULL) => {k = %s}; let r = s + 1;' % P(1),
]


ENV_PROGRAMS = [
    'let a = env.FOO; let b = env.BAR; let r = a + b;',
    'let a = env.FOO; let f = func () => env.BAR; let r = a + f();',
    'let t = {x = env.FOO, y = env.BAR}; let r = t.x + t.y;',
    'let a = env.FOO + "!"; let n = int(env.NUM) + %s;' % P(1),
]


def programs(tier):
    import C01
    ps = []
    for t in ENV_PROGRAMS:
        ps.append({'fam': 'env', 'text': t, 'n': 3, 'env': {'FOO': 'foo', 'BAR': 'bar', 'NUM': '7'}})
    for p in C01.programs(tier):
        ps.append({'fam': 'c01-' + p['fam'], 'text': p['text'], 'n': p['n'], 'assume': p.get('assume')})
    for t in DOCUMENTED:
        ps.append({'fam': 'documented', 'text': t, 'n': 3})
    return ps


def new_builder(ctx, env):
    fb = ctx.call('FileBuilder::new', [ctx.prog.to_path('/cwd'), VecV([]), env])
    cell = CellV(fb)
    r = Ref(cell.slot, 0, ())
    ctx.call('FileBuilder::set_strict', [r, True])
    return cell, r


def harness(ctx, case):
    prog = ctx.prog
    b = astb.B(prog)
    ucgrun.install_parse_override(prog)
    out = {'reached': False, 'asserts': 0, 'violations': []}
    r0 = ucgrun.parse_program(ctx, case['text'])
    if r0.variant != 0:
        out['skipped'] = 'does not parse'
        return out
    ints = {i: ctx.bv('a%d' % i, 64) for i in range(1, case['n'] + 1) if P(i) in case['text']}
    if case.get('assume') == 'range2':
        A, E = ints[1], ints[2]
        ctx.assume(z3.And(z3.BVSubNoOverflow(E, A), z3.BVSubNoUnderflow(E, A, True), E - A <= 3, E - A >= -1))
    if case.get('assume') == 'range3':
        A, E, S = ints[1], ints[2], ints[3]
        ctx.assume(z3.And(S >= -1, S <= 3, z3.BVSubNoOverflow(E, A), z3.BVSubNoUnderflow(E, A, True), E - A <= 6, E - A >= -1))
    stmts = SP.subst(prog, r0.fields[0], ints)
    # A: no checker
    cellA, rA = new_builder(ctx, ucgrun.make_env(ctx, env_vars=case.get('env')))
    try:
        resA = ctx.call('FileBuilder::eval_stmts', [rA, stmts, NONE])
    except interp.Panic:
        ctx.fail_stack = None
        out['skipped'] = 'evaluation panics (C04)'
        return out
    if resA.variant != 0:
        out['sample'] = {'text': case['text'], 'evaluates': False}
        out['reached'] = True
        return out
    outA = b.field(cellA.slot[0], 'build::FileBuilder', 'out')
    # B: as a file
    ctx.fs['/cwd/conf.ucg'] = case['text']
    ctx.parse_subst = {'ints': ints}
    cellB, rB = new_builder(ctx, ucgrun.make_env(ctx, env_vars=case.get('env')))
    resB = ctx.call('FileBuilder::build', [rB, prog.to_path('/cwd/conf.ucg')])
    out['reached'] = True
    out['asserts'] = 1
    sk = hashlib.sha256(case['text'].encode()).hexdigest()[:8]

    def report(kind, what, extra=None):
        m = ctx.model(extra)
        text = SP.render_text(case['text'], m, ctx, ints)
        ident = 'sk=%s' % sk
        mm = re.match(r'^let r = \((.+)\) (&&|\|\|) (\S+);$', case['text'].strip())
        if kind == 'build-rejects' and mm and 'Expected boolean but got' in what and mm.group(3) not in ('true', 'false'):
            # one finding per operator, whatever the left operand is: the checker types an operand the evaluator skips
            ident = 'role=short-circuited-right-operand-of-%s' % mm.group(2)
        out['violations'].append({'key': 'C07:%s:%s' % (kind, ident), 'what': '%s — program: %s' % (what, text), 'case': {'kind': 'eval', 'text': text, 'strict': True, 'env': case.get('env') or {}}, 'check': kind})

    if resB.variant != 0:
        from mirsym.bi_str import render_value
        try:
            msg = str(deref_all(ctx.call('<SimpleError as Display>::to_string', [resB.fields[0]])))
        except Exception:
            msg = repr(resB.fields[0])[:300]
        report('build-rejects', 'evaluates without the checker, but building it as a file fails: %s' % msg[:300])
        return out
    outB = b.field(cellB.slot[0], 'build::FileBuilder', 'out')
    out['asserts'] += 1
    c = SP.struct_eq(outA, outB)
    if c is False or (c and not ctx.valid(z3.And(*c))):
        report('values-differ', 'the built file binds different values than plain evaluation: %r vs %r' % (repr(deref_all(outA))[:200], repr(deref_all(outB))[:200]),
               None if c is False else z3.Not(z3.And(*c)))
        return out
    out['sample'] = {'text': case['text'], 'evaluates': True, 'builds': True}
    return out


def judge(fw, v):
    ev = fw.replay(v['case'])
    with tempfile.TemporaryDirectory(prefix='ucg-verif-c07-') as d:
        open(os.path.join(d, 'conf.ucg'), 'w').write(v['case']['text'] + '\n')
        r = fw.native().cli(['build', 'conf.ucg'], d, env=v['case'].get('env') or None)
    v['native'] = {'eval_ok': ev.get('ok'), 'build_rc': r['rc'], 'stderr': r['stderr'][-300:]}
    if v['check'] == 'build-rejects':
        return bool(ev.get('ok')) and r['rc'] != 0
    return False


def run(fw):
    ps = programs(fw.tier)
    fw.bounds.update({'programs': len(ps), 'c01_skeletons': len(ps) - len(DOCUMENTED), 'documented_form_skeletons': len(DOCUMENTED), 'symbolic': 'integer literals (i64) of each skeleton',
                      'outside': 'programs beyond the skeletons; imports (std and user files) in this tier; constraint annotations (excluded by the property); the diagnostics text'})
    fw.oracles.append('relational: FileBuilder::eval_stmts (no checker) vs FileBuilder::build (checker first) on the same symbolic leaves')
    fw.explore('accepts-what-runs', harness, ps, fuel=400_000_000)
    for v in fw.violations:
        v['reproduced'] = judge(fw, v)
    fw.assumptions += ['virtual file system', 'std/alloc builtins (listed)']
    return fw.finish(technique='symbolic execution of rustc MIR (parser, Checker, translator, VM) — relational check eval_stmts vs build over symbolic integer leaves; z3 decides path feasibility and value equality; replay with the real binary')


def replay(fw, case):
    v = dict(case)
    return {'violates': bool(judge(fw, v)), 'native': v.get('native')}
