"""C11 — tokens carry their exact text and location; layout does not matter.

Engine M: the real `tokenizer::{tokenize, token, escapequoted, ...}` over the real `OffsetStrIter` and
abortable_parser's `StrIter` (its generic MIR), three families:
  operators — inputs of 2..3 *symbolic bytes* drawn from the operator characters `= > < ! & | % . : ~ + - * /`: on every
              path all byte assignments satisfying the path condition are enumerated with z3 (blocking clauses) and the
              token boundaries must be those of the maximal-munch oracle over the documented operator vocabulary;
  strings   — a string literal of 1..3 symbolic ASCII bytes (any value incl. backslash, quote, control characters): the
              token's value must equal the reference decoding of the documented escapes; plus concrete literals with
              2-, 3- and 4-byte UTF-8 scalars, which must be preserved byte for byte;
  layout    — two tokens from the vocabulary with a separator (nothing / space / tab / LF / CRLF / comment): every
              separator that keeps the two apart yields the same non-whitespace token sequence, and every token's
              (line, column, offset) equals the position computed from the prefix (LF increments the line, CR does not)."""
import os
import re
import sys
import z3

import astb
from mirsym import interp
from mirsym.vals import Agg, VecV, SymStr, is_sym, seq_items, deref_all, NONE

OPCHARS = '=><!&|%.:~+-*/'
OPS = ['..', '.', '&&', '||', '|', '+', '-', '*', '/', '%%', '%', '==', '!=', '~', '!~', '>=', '<=', '>', '<', '=>', '=', '::', ':']
VOCAB = ['"s"', 'NULL', '12', '1.5', ',', '{', '}', '(', ')', '[', ']', ';', 'true', 'false', 'in', 'is', 'not', 'let', 'out', 'constraint', 'convert', 'select', 'assert', 'fail',
         'TRACE', 'func', 'module', 'import', 'include', 'as', 'map', 'filter', 'reduce', 'foo', 'foo-bar', 'x_1'] + OPS
QUICK_VOCAB = ['"s"', 'NULL', '12', '{', ')', ';', 'true', 'in', 'let', 'foo', 'foo-bar', '..', '.', '&&', '|', '%%', '==', '!~', '>=', '=>', '=', '::', '-', '/']
SEPS = {'none': '', 'space': ' ', 'tab': '\t', 'lf': '\n', 'crlf': '\r\n', 'two-lf': '\n\n', 'comment': ' // c\n', 'comment-crlf': '// c\r\n'}


def munch(text):
    """maximal munch over the operator vocabulary -> list of fragments, or None (tokenizer must fail)"""
    out = []
    i = 0
    while i < len(text):
        if text.startswith('//', i):
            return out, 'comment'
        m = None
        for op in sorted(OPS, key=len, reverse=True):
            if text.startswith(op, i):
                m = op
                break
        if m is None:
            return None, 'error'
        out.append(m)
        i += len(m)
    return out, 'ok'


def tok_list(b, r):
    """Result<Vec<Token>, _> -> [(type name, fragment value, line, col, offset)] or None on Err"""
    if r.variant != 0:
        return None
    toks = []
    for t in r.fields[0].items:
        typ = b.variant_name(b.field(t, 'ast::Token', 'typ'), 'ast::TokenType')
        pos = b.field(t, 'ast::Token', 'pos')
        toks.append((typ, b.field(t, 'ast::Token', 'fragment'), b.field(pos, 'ast::Position', 'line'), b.field(pos, 'ast::Position', 'column'), b.field(pos, 'ast::Position', 'offset')))
    return toks


def enumerate_models(ctx, syms, cap=4096):
    """all assignments of `syms` consistent with the path condition (z3 blocking loop)"""
    out = []
    extra = []
    while len(out) < cap:
        m = ctx.model(z3.And(*extra) if extra else None)
        if m is None:
            return out, True
        vals = [m.eval(s, model_completion=True).as_long() for s in syms]
        out.append(vals)
        extra.append(z3.Or(*[s != v for s, v in zip(syms, vals)]))
    return out, False


def harness_ops(ctx, case):
    b = astb.B(ctx.prog)
    n = case['n']
    syms = []
    for i in range(n):
        c = ctx.bv('c%d' % i, 8)
        ctx.assume(z3.Or(*[c == ord(x) for x in OPCHARS]))
        syms.append(c)
    text = SymStr(tuple(syms))
    it = ctx.call('OffsetStrIter::new', [text])
    r = ctx.call('tokenizer::tokenize', [it, NONE])
    toks = tok_list(b, r)
    out = {'reached': True, 'asserts': 0, 'violations': []}
    models, complete = enumerate_models(ctx, syms)
    if not complete:
        raise interp.Unsupported('more than 4096 byte assignments on one path')
    for vals in models:
        s = ''.join(chr(v) for v in vals)
        want, status = munch(s)
        out['asserts'] += 1
        if toks is None:
            got = None
        else:
            got = [len(seq_items(deref_all(t[1]))) for t in toks if t[0] not in ('END',)]
        if want is None:
            if got is not None:
                out['violations'].append({'key': 'C11:operators:invalid-sequence-accepted', 'what': 'operator characters %r are tokenised although no operator matches' % s,
                                          'case': {'kind': 'tokenize', 'text': s}, 'expect': None})
                return out
            continue
        if status == 'comment':
            continue        # a comment swallows the rest: covered by the layout family
        if got != [len(w) for w in want]:
            out['violations'].append({'key': 'C11:operators:not-longest-match', 'what': 'operator characters %r are split into token lengths %r, the longest-operator rule gives %r' % (s, got, want),
                                      'case': {'kind': 'tokenize', 'text': s}, 'expect': want})
            return out
        for t, w, off in zip(toks, want, offsets(want)):
            if (t[2], t[3], t[4]) != (1, off + 1, off):
                out['violations'].append({'key': 'C11:operators:position', 'what': 'token %r of %r reports (line %s, column %s, offset %s), it starts at column %d offset %d' % (w, s, t[2], t[3], t[4], off + 1, off),
                                          'case': {'kind': 'tokenize', 'text': s}, 'expect': want})
                return out
    if models:
        out['sample'] = {'text': ''.join(chr(v) for v in models[0]), 'tokens': munch(''.join(chr(v) for v in models[0]))[0], 'assignments_on_path': len(models)}
    return out


def offsets(frags):
    o = 0
    out = []
    for f in frags:
        out.append(o)
        o += len(f)
    return out


def decode_ref(bs):
    """reference string-literal scanner: -> (decoded bytes, number of input bytes consumed incl. the closing quote) or None"""
    out = bytearray()
    esc = False
    for i, c in enumerate(bs):
        if esc:
            out.extend({ord('n'): b'\n', ord('r'): b'\r', ord('t'): b'\t'}.get(c, bytes([c])))
            esc = False
        elif c == 0x5c:
            esc = True
        elif c == 0x22:
            return bytes(out), i + 1
        else:
            out.append(c)
    return None


KEYWORDS = ['in', 'is', 'not', 'let', 'out', 'constraint', 'convert', 'select', 'assert', 'fail', 'TRACE', 'func', 'module', 'import', 'include', 'as', 'map', 'filter', 'reduce', 'true', 'false', 'NULL']


def harness_kwboundary(ctx, case):
    """<keyword><one symbolic symbol character><tail>: a name that merely starts like a keyword is one bareword with its exact text"""
    b = astb.B(ctx.prog)
    kw, tail = case['kw'], case['tail']
    c = ctx.bv('c', 8)
    # the characters a symbol may contain (reference: ascii letter, digit, `_`, `-`)
    ctx.assume(z3.Or(z3.And(z3.UGE(c, 0x30), z3.ULE(c, 0x39)), z3.And(z3.UGE(c, 0x41), z3.ULE(c, 0x5a)), z3.And(z3.UGE(c, 0x61), z3.ULE(c, 0x7a)), c == 0x5f, c == 0x2d))
    text = SymStr(tuple(kw.encode()) + (c,) + tuple(tail.encode()) + (0x20, 0x3b))
    out = {'reached': True, 'asserts': 1, 'violations': []}
    r = ctx.call('tokenizer::tokenize', [ctx.call('OffsetStrIter::new', [text]), NONE])
    toks = tok_list(b, r)
    m = ctx.model()
    cv = chr(m.eval(c, model_completion=True).as_long())
    word = kw + cv + tail
    concrete = word + ' ;'
    if toks is None:
        out['violations'].append({'key': 'C11:keyword-boundary:rejected', 'what': 'the name %r is rejected by the tokenizer' % word, 'case': {'kind': 'tokenize', 'text': concrete}, 'expect': [word, ';']})
        return out
    frs = [deref_all(t[1]) for t in toks if t[0] != 'END']
    good = len(frs) == 2 and toks[0][0] in ('BAREWORD', 'BOOLEAN', 'EMPTY') and (toks[0][2], toks[0][3], toks[0][4]) == (1, 1, 0)
    if good:
        fb = seq_items(frs[0]) if type(frs[0]) is not str else tuple(frs[0].encode())
        wb = tuple(kw.encode()) + (c,) + tuple(tail.encode())
        good = len(fb) == len(wb) and ctx.valid(z3.And(*[(x if is_sym(x) else z3.BitVecVal(x, 8)) == (y if is_sym(y) else z3.BitVecVal(y, 8)) for x, y in zip(fb, wb)]))
    if not good:
        out['violations'].append({'key': 'C11:keyword-boundary:split', 'what': 'the name %r is not one token with its exact text: %r' % (word, [(t[0], str(deref_all(t[1]))) for t in toks]),
                                  'case': {'kind': 'tokenize', 'text': concrete}, 'expect': [word, ';']})
    else:
        out['sample'] = {'name': word, 'token': toks[0][0]}
    return out


def harness_str(ctx, case):
    b = astb.B(ctx.prog)
    out = {'reached': True, 'asserts': 0, 'violations': []}
    if 'concrete' in case:
        body = case['concrete']
        text = '"' + body + '";'
        it = ctx.call('OffsetStrIter::new', [text])
        r = ctx.call('tokenizer::tokenize', [it, NONE])
        toks = tok_list(b, r)
        out['asserts'] = 1
        want = decode_ref(body.encode('utf-8') + b'"')[0].decode('utf-8')
        got = deref_all(toks[0][1]) if toks else None
        if got != want:
            out['violations'].append({'key': 'C11:strings:non-ascii-altered' if not body.isascii() else 'C11:strings:value-altered',
                                      'what': 'the literal %s has the value %r, its text is %r' % (text, got, want), 'case': {'kind': 'tokenize', 'text': text}, 'expect': want})
        else:
            out['sample'] = {'literal': text, 'value': got}
        return out
    n = case['n']
    syms = []
    for i in range(n):
        c = ctx.bv('c%d' % i, 8)
        ctx.assume(z3.And(c != 0, z3.ULT(c, 0x80)))
        syms.append(c)
    text = SymStr((0x22,) + tuple(syms) + (0x22, ord(';')))
    it = ctx.call('OffsetStrIter::new', [text])
    r = ctx.call('tokenizer::tokenize', [it, NONE])
    toks = tok_list(b, r)
    # one witness model per path + validity of the decoded value under the path condition
    m = ctx.model()
    vals = [m.eval(s, model_completion=True).as_long() for s in syms]
    ref = decode_ref(bytes(vals) + b'";')
    out['asserts'] = 1
    lit = '"' + bytes(vals).decode('latin-1') + '";'
    if ref is None:
        if toks is not None:
            out['violations'].append({'key': 'C11:strings:unterminated-accepted', 'what': 'unterminated literal %r is tokenised' % lit, 'case': {'kind': 'tokenize', 'text': lit}, 'expect': None})
        return out
    if toks is None:
        # the literal closes early (an unescaped quote inside) and what follows need not be valid: only the first token matters
        return out
    got = deref_all(toks[0][1])
    gb = seq_items(got) if type(got) is not str else tuple(got.encode('utf-8'))
    want_bytes, consumed = ref
    # the decoded value as a function of the *symbolic* bytes: rebuild it along the reference scanner's (concrete) control flow
    sym_all = list(syms) + [0x22, ord(';')]
    exp = []
    esc = False
    for i in range(consumed - 1):
        c = sym_all[i]
        cv = vals[i] if i < len(vals) else sym_all[i]
        if esc:
            exp.append({ord('n'): 0x0a, ord('r'): 0x0d, ord('t'): 0x09}.get(cv, c))
            esc = False
        elif cv == 0x5c:
            esc = True
        else:
            exp.append(c)
    ok_ = len(gb) == len(exp) and toks[0][0] == 'QUOTED'
    if ok_:
        conds = []
        for g_, e_ in zip(gb, exp):
            ga = g_ if is_sym(g_) else z3.BitVecVal(g_, 8)
            ea = e_ if is_sym(e_) else z3.BitVecVal(e_, 8)
            conds.append(ga == ea)
        ok_ = ctx.valid(z3.And(*conds)) if conds else True
    if not ok_:
        out['violations'].append({'key': 'C11:strings:value-altered', 'what': 'the literal %r has the value %r, the documented escapes give %r' % (lit, got, want_bytes),
                                  'case': {'kind': 'tokenize', 'text': lit}, 'expect': want_bytes.decode('latin-1')})
    else:
        out['sample'] = {'literal': lit, 'value': want_bytes.decode('latin-1')}
    return out


def ref_positions(text, frags):
    """(line, col, offset) of each fragment when scanning `text` left to right"""
    res = []
    i = 0
    line, col = 1, 1
    for f in frags:
        j = i
        while True:
            if text[j] in ' \t\r\n':
                j += 1
            elif text.startswith('//', j):
                j = text.index('\n', j) + 1
            else:
                break
        assert text.startswith(f, j), (text, f, j)
        for ch in text[i:j]:
            if ch == '\n':
                line += 1
                col = 1
            else:
                col += 1
        res.append((line, col, j))
        for ch in f:
            if ch == '\n':
                line += 1
                col = 1
            else:
                col += 1
        i = j + len(f)
    return res


def would_merge(a, c):
    """do two tokens written without separator read as something else?"""
    both = a + c
    if a[0].isalnum() or a[0] == '"' or a[0] == '_':
        if c[0].isalnum() or c[0] in '_-.' or a.replace('.', '').isdigit():
            return True
    if all(ch in OPCHARS for ch in a) and all(ch in OPCHARS for ch in c):
        w, st = munch(both)
        return w != [a, c]
    if a.replace('.', '').isdigit() and c[0] == '.':
        return True
    if a == '.' and c[0].isdigit():
        return True
    return False


def harness_layout(ctx, case):
    b = astb.B(ctx.prog)
    a, c = case['a'], case['b']
    out = {'reached': True, 'asserts': 0, 'violations': []}
    base = None
    for sname, sep in SEPS.items():
        if sname == 'none' and would_merge(a, c):
            continue
        if sname == 'none' and (a in ('in', 'is', 'not', 'let', 'out', 'constraint', 'convert', 'select', 'assert', 'fail', 'TRACE', 'func', 'module', 'import', 'include', 'as', 'map', 'filter', 'reduce')):
            continue        # keywords need following whitespace to be keywords; still barewords otherwise (same fragment)
        if sep.startswith('/') and a.endswith('/'):
            continue        # `/` directly followed by `//` is itself a comment start
        text = a + sep + c + ' ;'
        it = ctx.call('OffsetStrIter::new', [text])
        r = ctx.call('tokenizer::tokenize', [it, NONE])
        toks = tok_list(b, r)
        out['asserts'] += 2
        if toks is None:
            out['violations'].append({'key': 'C11:layout:rejected:%s' % sname, 'what': 'tokens %r %r separated by %s are rejected' % (a, c, sname), 'case': {'kind': 'tokenize', 'text': text}, 'expect': [a, c, ';']})
            return out
        seq = [(t[0], deref_all(t[1])) for t in toks if t[0] != 'END']
        if base is None:
            base = (sname, seq)
        elif seq != base[1]:
            out['violations'].append({'key': 'C11:layout:sequence-depends-on-separator:%s' % sname,
                                      'what': 'tokens %r %r give %r with separator %s but %r with %s' % (a, c, seq, sname, base[1], base[0]), 'case': {'kind': 'tokenize', 'text': text}, 'expect': None})
            return out
        # a float literal is three tokens (digits, dot, digits): the parser, not the tokenizer, assembles it
        frags = [x for w in (a, c) for x in (re.split(r'(\.)', w) if re.fullmatch(r'\d+\.\d+', w) else [w])] + [';']
        want = ref_positions(text, frags)
        got = [(t[2], t[3], t[4]) for t in toks if t[0] != 'END']
        if got != want:
            out['violations'].append({'key': 'C11:layout:position:%s' % sname, 'what': 'in %r the tokens report positions %r, they start at %r (line, column, offset)' % (text, got, want),
                                      'case': {'kind': 'tokenize', 'text': text}, 'expect': want})
            return out
    out['sample'] = {'tokens': [a, c], 'separators': list(SEPS), 'sequence': [str(x[1]) for x in (base[1] if base else [])]}
    return out


def make_judge(v):
    def judge(out):
        key = v['key']
        if key.startswith('C11:strings'):
            if not out.get('ok'):
                return v.get('expect') is not None
            return out['tokens'][0]['fragment'] != v.get('expect')
        if key.startswith('C11:keyword-boundary'):
            if not out.get('ok'):
                return True
            return [t['fragment'] for t in out['tokens'] if t['typ'] != 'END'] != v['expect']
        if key.startswith('C11:operators'):
            if v.get('expect') is None:
                return bool(out.get('ok'))
            if not out.get('ok'):
                return True
            return [t['fragment'] for t in out['tokens'] if t['typ'] != 'END'] != v['expect'] or key.endswith('position')
        if key.startswith('C11:layout:position'):
            if not out.get('ok'):
                return True
            got = [[t['line'], t['column'], t['offset']] for t in out['tokens'] if t['typ'] != 'END']
            return got != [list(x) for x in v['expect']]
        if key.startswith('C11:layout:rejected'):
            return not out.get('ok')
        return True
    return judge


def run(fw):
    quick = fw.tier == 'quick'
    ops = [{'n': 2}] + ([{'n': 3}] if True else [])
    strs = [{'n': 1}, {'n': 2}] + ([] if quick else [{'n': 3}])
    for body in ['é', 'héllo', '日本語', '😀', 'a\\"é', 'tab\\there', 'nl\\n', 'q\\"q', 'back\\\\slash', '\\x', 'Ünï', 'ascii']:
        strs.append({'concrete': body})
    vocab = QUICK_VOCAB if quick else VOCAB
    lay = [{'a': a, 'b': c} for a in vocab for c in vocab]
    fw.bounds.update({'operator_bytes': '2..3 symbolic bytes over %r' % OPCHARS, 'string_bytes': '1..%d symbolic ASCII bytes (0x01..0x7f)' % (2 if quick else 3), 'non_ascii_literals': 'concrete 2/3/4-byte scalars',
                      'layout_vocabulary': len(vocab), 'separators': list(SEPS),
                      'outside': 'sequences of 40 tokens; arbitrary Unicode beyond the listed scalars (the byte-wise defect class is length-independent); the parser on the token stream (C02/C05)'})
    fw.oracles.append('maximal-munch lexer over the documented operator vocabulary; reference string-escape decoder; position = (line, column, offset) computed from the prefix')
    fw.explore('operators', harness_ops, ops, fuel=200_000_000)
    fw.explore('strings', harness_str, strs, fuel=200_000_000)
    fw.explore('layout', harness_layout, lay, fuel=500_000_000)
    kwb = [{'kw': k, 'tail': t} for k in KEYWORDS for t in (['x', ''] if quick else ['x', '', 'flight', '1', '-x', '_'])]
    fw.bounds['keyword_boundary'] = '%d keywords followed by one symbolic symbol character (letter, digit, _, -) and %d tails' % (len(KEYWORDS), len(kwb) // len(KEYWORDS))
    fw.explore('keyword-boundary', harness_kwboundary, kwb, fuel=200_000_000)
    for v in fw.violations:
        v['judge'] = make_judge(v)
    fw.assumptions += ['std/alloc builtins (listed); abortable_parser is executed from its own MIR']
    return fw.finish(technique='symbolic execution of rustc MIR (tokenizer + abortable_parser StrIter) on symbolic bytes; per path all consistent byte assignments enumerated by z3 and compared with the maximal-munch / escape-decoding oracles; native replay')


def replay(fw, case):
    out = fw.replay(case['case'])
    return {'native': out, 'violates': bool(make_judge(case)(out))}
