"""C13 — `ucg test` reports a file as passing exactly when all its assertions hold.

Engine M on the *binary crate's* MIR: the real `main::test_command` → `visit_ucg_files` → `do_validate` → `build_file`
→ `FileBuilder::build` → parser, type checker, translator, VM, `Builtins::assert`, `AssertCollector` are executed for
1..3 files read through the virtual file system stub; the `ok` conditions of the assertions are symbolic
(`assert {ok = <sym> > 0, ...}`), so each path stands for all operand values with that pattern of outcomes. stdout and
`process::exit` are recording stubs. z3 decides per path that each file's verdict line is Pass iff the file builds and
all *its own* assertions hold, that each assertion appears exactly once in that file's log, and that exit(1) happens
iff some file failed — for every outcome of the files tested before it."""
import os
import re
import sys
import z3

import astb
import symprog as SP
import ucgrun
from mirsym import interp
from mirsym.vals import Agg, VecV, MapV, SymStr, FmtV, is_sym

P = SP.ph

# assertion forms: (text template using placeholder index, kind)
GOOD = 'assert {ok = %s > 0, desc = "%s"};'
FORMS = {
    'sym': GOOD,                                                # outcome symbolic
    'not-bool': 'assert {ok = "yes", desc = "%s"};',            # malformed: ok is not a boolean
    'no-desc': 'assert {ok = %s > 0};',                         # malformed: no desc
    'not-tuple': 'assert %s > 0;',                              # malformed: not a tuple
    'build-error': 'let x%s = nosuchname;',                     # build error found statically (before any assertion runs)
    'runtime-error': 'let z%s = fail "stop";',                  # build error at run time (assertions before it have run)
}


def file_text(fi, forms):
    lines = []
    k = 0
    for ai, form in enumerate(forms):
        ph = P(fi * 10 + ai + 1)
        label = 'f%da%d' % (fi, ai)
        if form == 'sym':
            lines.append(GOOD % (ph, label))
        elif form == 'sym-desc-first':
            lines.append('assert {desc = "%s", ok = %s > 0};' % (label, ph))
        elif form == 'sym-extra-fields':
            lines.append('assert {note = 1, desc = "%s", more = [1], ok = %s > 0, last = NULL};' % (label, ph))
        elif form == 'sym-by-copy':
            lines.append('let base%d = {desc = "%s"};\nassert base%d{ok = %s > 0};' % (ai, label, ai, ph))
        elif form == 'not-bool':
            lines.append(FORMS[form] % label)
        elif form == 'no-desc':
            lines.append(FORMS[form] % ph)
        elif form == 'not-tuple':
            lines.append(FORMS[form] % ph)
        elif form in ('build-error', 'runtime-error'):
            lines.append(FORMS[form] % ai)
    return '\n'.join(lines) + '\n'


def cases(tier):
    cs = []
    single = [['sym'], ['sym', 'sym'], [], ['not-bool'], ['no-desc'], ['not-tuple'], ['build-error'], ['sym', 'build-error'], ['build-error', 'sym'],
              ['sym', 'not-bool', 'sym'], ['runtime-error'], ['sym', 'runtime-error'], ['runtime-error', 'sym'], ['sym', 'runtime-error', 'sym']]
    # well-formed assertions whose tuple is not written as {ok = ..., desc = ...}: field order, extra fields, built by copy
    single += [['sym-desc-first'], ['sym-extra-fields'], ['sym-by-copy'], ['sym', 'sym-desc-first', 'sym-extra-fields'], ['sym-by-copy', 'sym-desc-first']]
    for f in single:
        cs.append({'files': [f]})
    # directory trees tested recursively: a failing file below the top directory must still make the run fail
    for lay in (['t0_test.ucg', 'sub/t1_test.ucg'], ['sub/t0_test.ucg', 't1_test.ucg'], ['a/t0_test.ucg', 'b/deep/t1_test.ucg']):
        for fs_ in ([['sym'], ['sym']], [['sym'], ['sym', 'runtime-error']], [['not-bool'], ['sym']]):
            cs.append({'files': fs_, 'layout': lay})
    # three entries in one directory (the listing order is a symbolic permutation): the run fails iff some file fails, wherever it is listed
    cs.append({'files': [['sym'], ['sym'], ['sym']], 'layout': ['a/t0_test.ucg', 'b/t1_test.ucg', 'c/t2_test.ucg']})
    cs.append({'files': [['sym'], ['sym'], ['sym']], 'layout': ['a/t0_test.ucg', 't1_test.ucg', 'c/x/t2_test.ucg']})
    cs.append({'files': [['sym-desc-first'], ['sym']]})
    cs.append({'files': [['sym'], ['sym-extra-fields', 'sym-by-copy']]})
    pairs = [['sym'], ['sym', 'sym'], ['not-bool'], ['build-error'], [], ['sym', 'runtime-error'], ['runtime-error']]
    for a in pairs:
        for b_ in pairs:
            cs.append({'files': [a, b_]})
    trip = [['sym'], ['sym', 'runtime-error'], ['not-tuple']] if tier == 'quick' else [['sym'], ['sym', 'sym'], ['build-error'], ['sym', 'runtime-error'], ['not-tuple'], []]
    for a in trip:
        for b_ in trip:
            for c in trip:
                cs.append({'files': [a, b_, c]})
    return cs


def text_of(v):
    if type(v) is str:
        return v
    raise interp.Unsupported('non-concrete stdout text %r' % (v,))


def harness(ctx, case):
    prog = ctx.prog
    ucgrun.install_parse_override(prog)
    files = case['files']
    names = ['t%d_test.ucg' % i for i in range(len(files))]
    if case.get('layout'):
        # the files live in a directory tree that is tested with `ucg test -r proj`
        names = ['proj/' + rel for rel in case['layout']]
    ints = {}
    for fi, forms in enumerate(files):
        ctx.fs['/cwd/' + names[fi]] = file_text(fi, forms)
        for ai, form in enumerate(forms):
            if form.startswith('sym') or form in ('no-desc', 'not-tuple'):
                ints[fi * 10 + ai + 1] = ctx.bv('c%d_%d' % (fi, ai), 64)
    ctx.parse_subst = {'ints': ints}
    env = ucgrun.make_env(ctx)
    matches = Agg('ArgMatches', None, (MapV('HashMap').insert('INPUT', VecV(names)), MapV('HashMap')))
    if case.get('layout'):
        matches = Agg('ArgMatches', None, (MapV('HashMap').insert('INPUT', VecV(['proj'])), MapV('HashMap').insert('recurse', True)))
    exited = None
    try:
        ctx.call('test_command', [matches, VecV([]), True, env])
    except interp.HarnessStop as h:
        exited = h.payload
    out = {'reached': True, 'asserts': 0, 'violations': []}
    stdout = ''.join(text_of(e[1]) for e in ctx.events if e[0] == 'stdout')
    # reference verdicts under this path's condition
    expected = []
    for fi, forms in enumerate(files):
        builds = True
        all_ok = True
        own = []
        malformed = False
        for ai, form in enumerate(forms):
            if form in ('build-error', 'runtime-error') or malformed:
                builds = False
                break
            if form.startswith('sym'):
                c = ints[fi * 10 + ai + 1] > 0
                if ctx.valid(c):
                    own.append(('f%da%d' % (fi, ai), True))
                elif ctx.valid(z3.Not(c)):
                    own.append(('f%da%d' % (fi, ai), False))
                    all_ok = False
                else:
                    # not evaluated on this path (the file stopped building before it): allowed only if it does not build
                    own.append(('f%da%d' % (fi, ai), None))
                    if not any(f in ('build-error', 'runtime-error', 'not-bool', 'no-desc', 'not-tuple') for f in forms):
                        raise interp.Unsupported('assertion outcome not determined on this path')
                    builds = False
            else:
                # malformed assertion: counts as a failure (recorded by the collector, or rejected earlier by the
                # static checker, in which case the file does not build and later assertions are not evaluated)
                own.append((None, False))
                all_ok = False
                malformed = True
        expected.append({'name': names[fi], 'pass': builds and all_ok, 'builds': builds, 'own': own, 'malformed': malformed})

    def report(key, what):
        m = ctx.model()
        progs = {}
        for fi, forms in enumerate(files):
            progs[names[fi]] = SP.render_text(file_text(fi, forms), m, ctx, {k: v for k, v in ints.items() if k // 10 == fi})
        role = 'after-failing-file' if any(not e['pass'] for e in expected[:-1]) else 'first-or-after-passing'
        out['violations'].append({'key': key + ':' + role, 'what': what + ' — files: %r' % (progs,), 'case': {'kind': 'cli-test', 'files': progs, 'order': names, 'recurse': bool(case.get('layout'))},
                                  'expected': [{'name': e['name'], 'pass': e['pass']} for e in expected]})

    # per-file section of stdout
    sections = re.split(r'(?m)^Validating (\S+)\n', stdout)
    got = {}
    for i in range(1, len(sections), 2):
        got[sections[i]] = sections[i + 1]
    for e in expected:
        out['asserts'] += 3
        sec = got.get(e['name'])
        if sec is None:
            report('C13:file-not-validated', 'no "Validating" section for %s' % e['name'])
            return out
        verdict_pass = ('File %s Pass' % e['name']) in sec
        verdict_fail = ('File %s Fail' % e['name']) in sec
        # the RESULTS block of a directory is printed when the directory has been listed completely, i.e. possibly inside the
        # section of a file validated later: look for the summary line in the whole output (file names are unique)
        summary_pass = re.search(r'(?m)^%s - PASS$' % re.escape(e['name']), stdout) is not None
        if (verdict_pass and verdict_fail) or (e['builds'] and not e['malformed'] and not (verdict_pass or verdict_fail)):
            report('C13:no-single-verdict', 'file %s has no single Pass/Fail verdict line' % e['name'])
            return out
        if verdict_pass != e['pass'] or summary_pass != e['pass']:
            report('C13:wrong-verdict', 'file %s is reported %s but %s' % (e['name'], 'Pass' if verdict_pass else 'Fail',
                                                                              'all its assertions hold' if e['pass'] else 'it has a failing assertion or does not build'))
            return out
        if e['builds'] and (verdict_pass or verdict_fail):
            # every own assertion exactly once in this file's log, and no foreign ones
            lines = re.findall(r'(?m)^\d+ - (OK|NOT OK): (.*)$', sec)
            labels = [l[1] for l in lines if re.fullmatch(r'f\d+a\d+', l[1])]
            own_labels = [l for l, _ in e['own'] if l]
            if sorted(labels) != sorted(own_labels) or len(lines) != len(e['own']):
                report('C13:log-not-own-assertions', 'the log of %s lists assertions %r but the file contains %r' % (e['name'], [l[1][:20] for l in lines], own_labels))
                return out
    any_fail = any(not e['pass'] for e in expected)
    out['asserts'] += 1
    if (exited is not None and exited != 0) != any_fail:
        report('C13:exit-status', 'exit status %r but %s' % (exited, 'some file failed' if any_fail else 'all files passed'))
        return out
    out['sample'] = {'files': [''.join(f) for f in [file_text(i, f).splitlines() for i, f in enumerate(files)]], 'verdicts': [e['pass'] for e in expected], 'exit': exited}
    return out


def harness_shared_lib(ctx, case):
    """order independence with a shared import: two test files import the same library, whose own assertion has a symbolic outcome;
    the verdict of the second file in `ucg test t0 t1` must be the verdict it gets from `ucg test t1` alone (relational, no
    reference verdict needed)."""
    prog = ctx.prog
    ucgrun.install_parse_override(prog)
    c = ctx.bv('lib_c', 64)
    files = {'lib.ucg': 'assert {ok = %s > 0, desc = "lib"};\nlet v = 1;\n' % SP.ph(1),
             't0_test.ucg': 'let l = import "lib.ucg";\nassert {ok = l.v == 1, desc = "f0a0"};\n',
             't1_test.ucg': 'let l = import "./lib.ucg";\nassert {ok = l.v == 1, desc = "f1a0"};\n'}
    for n, t in files.items():
        ctx.fs['/cwd/' + n] = t
    ctx.parse_subst = {'ints': {1: c}}
    out = {'reached': True, 'asserts': 1, 'violations': []}

    def run(names):
        ctx.events = []
        env = ucgrun.make_env(ctx)
        matches = Agg('ArgMatches', None, (MapV('HashMap').insert('INPUT', VecV(list(names))), MapV('HashMap')))
        exited = None
        try:
            ctx.call('test_command', [matches, VecV([]), True, env])
        except interp.HarnessStop as h:
            exited = h.payload
        stdout = ''.join(text_of(e[1]) for e in ctx.events if e[0] == 'stdout')
        return stdout, exited
    both, e_both = run(case['order'])
    last = case['order'][-1]
    alone, e_alone = run([last])
    v_both = ('File %s Pass' % last) in both
    v_alone = ('File %s Pass' % last) in alone
    if v_both != v_alone:
        m = ctx.model()
        progs = {n: SP.render_text(t, m, ctx, {1: c}) for n, t in files.items()}
        out['violations'].append({'key': 'C13:verdict-depends-on-earlier-files:shared-import', 'what': '%s is reported %s after %s but %s when tested alone — files: %r' % (last, 'Pass' if v_both else 'Fail', case['order'][0], 'Pass' if v_alone else 'Fail', progs),
                                  'case': {'kind': 'cli-test-shared', 'files': progs, 'order': case['order']}, 'expected': []})
    else:
        out['sample'] = {'order': case['order'], 'verdict_of_last': 'Pass' if v_both else 'Fail', 'same_alone': True}
    return out


def judge_shared(fw, v):
    import tempfile
    c = v['case']
    last = c['order'][-1]
    res = []
    for args in (c['order'], [last]):
        with tempfile.TemporaryDirectory(prefix='ucg-verif-c13-') as d:
            for n, t in c['files'].items():
                open(os.path.join(d, n), 'w').write(t)
            r = fw.native().cli(['test'] + list(args), d)
        res.append(('File %s Pass' % last) in r['stdout'])
        fw.replayed += 1
    v['native'] = {'verdict_in_batch': res[0], 'verdict_alone': res[1]}
    return res[0] != res[1]


def judge_cli(fw, v):
    """replay through the real binary: `ucg test f1 f2 ...` in a temp dir. For directory trees the order in which the real file
    system lists a directory depends on the entry names, so the tree is replayed under several consistent renamings of its
    directories and file-name prefixes; the violation is reproduced if any of them shows it."""
    import itertools
    import tempfile
    c = v['case']
    renamings = [{}]
    if c.get('recurse'):
        comps = sorted({p for n in c['files'] for p in n.split('/')[1:-1]})
        pool = ['a', 'b', 'c', 'd', 'e', 'k', 'm', 'q', 'x', 'z']
        for perm in itertools.islice(itertools.permutations(pool, len(comps)), 0, 400, 37):
            renamings.append(dict(zip(comps, perm)))
        renamings = renamings[:12]
    for ren in renamings:
        def rn(path):
            parts = path.split('/')
            return '/'.join([parts[0]] + [ren.get(x, x) for x in parts[1:-1]] + [parts[-1]]) if len(parts) > 1 else path
        with tempfile.TemporaryDirectory(prefix='ucg-verif-c13-') as d:
            for n, t in c['files'].items():
                os.makedirs(os.path.dirname(os.path.join(d, rn(n))), exist_ok=True)
                open(os.path.join(d, rn(n)), 'w').write(t)
            args = ['test', '-r', 'proj'] if c.get('recurse') else ['test'] + c['order']
            r = fw.native().cli(args, d)
        fw.replayed += 1
        bad = False
        for e in v['expected']:
            p = ('File %s Pass' % rn(e['name'])) in r['stdout']
            if p != e['pass']:
                bad = True
        if (r['rc'] != 0) != any(not e['pass'] for e in v['expected']):
            bad = True
        if v['key'].startswith('C13:log-not-own'):
            bad = True if re.search(r'(?s)Validating t1_test.ucg.*f0a\d', r['stdout']) else bad
        if bad or not c.get('recurse'):
            v['native'] = dict(r, renaming=ren)
            return bad
    v['native'] = dict(r, renamings_tried=len(renamings))
    return False


def run(fw):
    cs = cases(fw.tier)
    fw.bounds.update({'files_per_invocation': '1..3', 'assertions_per_file': '0..3', 'assertion_forms': list(FORMS), 'outcomes': 'symbolic (i64 operand > 0)',
                      'directory_trees': '5 layouts tested with -r (files at depth 0..2, 2..3 entries per directory, listing order symbolic)', 'shared_import': 'two test files importing one library whose assertion has a symbolic outcome, both orders, compared with the last file tested alone', 'outside': 'stdout layout beyond verdict/summary/log lines'})
    fw.explore('test-command', harness, cs, fuel=200_000_000)
    fw.explore('shared-import', harness_shared_lib, [{'order': ['t0_test.ucg', 't1_test.ucg']}, {'order': ['t1_test.ucg', 't0_test.ucg']}], fuel=200_000_000)
    for v in fw.violations:
        v['reproduced'] = judge_shared(fw, v) if v['case'].get('kind') == 'cli-test-shared' else judge_cli(fw, v)
    fw.assumptions += ['file system, stdout and process::exit are recording stubs; clap::ArgMatches is a harness-built value (values_of/is_present builtins)',
                       'std/alloc builtins (listed)']
    return fw.finish(technique='symbolic execution of the binary crate\'s MIR (test_command down to the VM) with symbolic assertion outcomes; verdict/log/exit obligations decided per path by z3; replay with the real binary')


def replay(fw, case):
    v = {'case': case['case'], 'expected': case.get('expected') or [], 'key': case['key']}
    return {'violates': bool(judge_cli(fw, v)), 'native': v.get('native')}
