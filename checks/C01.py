"""C01 — compiled evaluation equals the language's definitional semantics.

Engine M, translation validation at the level the property is stated: each program skeleton is parsed by the real parser,
its integer literals replaced by symbolic i64 values, then compiled by the real `AST::translate` and executed by the real
`VM::run` (both from the working tree's MIR). On every path the bindings left in the VM's symbol table (or the failure)
are compared, under the path condition, with the value the definitional evaluator (oracle/ucg_semantics.py, written from
the reference documentation) gives for the same skeleton and leaves: z3 decides pc => vm_value == reference_value."""
import os
import sys
import z3

sys.path.insert(0, os.path.join(os.path.dirname(os.path.abspath(__file__)), '..', 'oracle'))
import astb
import symprog as SP
import ucgrun
import ucg_semantics as SEM
from mirsym import interp
from mirsym.vals import is_sym

P = SP.ph


def programs(tier):
    ps = []

    def add(fam, text, n, assume=None):
        ps.append({'fam': fam, 'text': text, 'n': n, 'assume': assume})
    ops = ['+', '-', '*', '/', '%%', '==', '!=', '>', '<', '>=', '<=']
    for op in ops:
        add('F1-binary', 'let r = %s %s %s;' % (P(1), op, P(2)), 2)
    # two symbolic f64 leaves (finite, non-negative: the language has no negative or exponent literals) under every operator, and a
    # float against an int (a type error for every operator but == and !=)
    for op in ops:
        if op != '%%':
            add('F1-float', 'let r = %s.5 %s %s.5;' % (P(1), op, P(2)), 2)
        add('F1-float', 'let r = %s.5 %s %s;' % (P(1), op, P(2)), 2)
    for t in ['let r = select (%s.5 >= %s.5, 0) => {true = 1};', 'let r = filter(func (v) => v >= %s.5, [0.5, %s.5]);', 'let r = (%s.5 <= %s.5) && (%s.5 >= %s.5);' % (P(1), P(2), P(1), P(2))]:
        add('F1-float', t if t.count('%s') == 0 else t % (P(1), P(2)), 2)
    for t in ['let r = %s + 1.5;' % P(1), 'let r = "a" + "b";', 'let r = [%s] + [%s, 3];' % (P(1), P(2)), 'let r = "a" + %s;' % P(1),
              'let r = %s == "x";' % P(1), 'let r = %s == NULL;' % P(1), 'let r = NULL == NULL;', 'let r = 1.5 + 2.25;', 'let r = 1.5 > %s;' % P(1),
              'let r = [%s, 2] == [%s, 2];' % (P(1), P(2)), 'let r = {a = %s} == {a = %s};' % (P(1), P(2)), 'let r = {a = 1, b = 2} == {a = 1};',
              'let r = "x" > "y";', 'let r = true == (%s > %s);' % (P(1), P(2))]:
        add('F1-mixed', t, 2)
    for t in ['let r = %s - (%s - %s);', 'let r = (%s - %s) - %s;', 'let r = %s - %s * %s;', 'let r = %s / %s %%%% %s;', 'let r = %s * %s + %s;',
              'let r = %s - %s - %s;', 'let r = %s / %s / %s;', 'let r = (%s > %s) == (%s > 0);']:
        add('F2-nesting', t % (P(1), P(2), P(3)), 3)
    for t in ['let r = (%s > %s) && (%s > %s);' % (P(1), P(2), P(2), P(3)), 'let r = (%s > %s) || (%s > %s);' % (P(1), P(2), P(2), P(3)),
              'let r = (%s > %s) || (1 / (%s - %s) == 1);' % (P(1), P(2), P(3), P(3)), 'let r = (%s > %s) && (1 / (%s - %s) == 1);' % (P(1), P(2), P(3), P(3)),
              'let r = %s && true;' % P(1), 'let r = (%s > %s) && %s;' % (P(1), P(2), P(3)), 'let r = (%s > %s) || %s;' % (P(1), P(2), P(3)),
              'let r = not (%s > %s);' % (P(1), P(2)), 'let r = not %s;' % P(1),
              'let r = ((%s > 1) && (%s > 2)) || ((%s > 3) && (%s > 4));' % (P(1), P(2), P(3), P(1)),
              'let r = (%s > 1) || (%s > 2) || (%s > 3);' % (P(1), P(2), P(3)), 'let r = (%s > 1) && (%s > 2) && (%s > 3);' % (P(1), P(2), P(3))]:
        add('F3-shortcircuit', t, 3)
    for t in ['let r = select (%s > %s, 0) => { true = %s, false = %s };' % (P(1), P(2), P(1), P(2)),
              'let r = select (%s > %s) => { true = %s + 1, false = %s - 1 };' % (P(1), P(2), P(1), P(2)),
              'let k = select (%s == %s) => {true = "a", false = "b"}; let r = select (k, 7) => {a = %s, c = 3};' % (P(1), P(2), P(3)),
              'let r = select ("zz") => {a = 1};', 'let r = select ("zz", %s) => {a = 1};' % P(1), 'let r = select (%s, 1) => {a = 1};' % P(1),
              'let r = select (%s > %s) => { true = 1 };' % (P(1), P(2)),
              'let r = select (%s > %s, select (%s > 0, 5) => {true = 6}) => { true = select (%s > 1) => {true = 1, false = 2} };' % (P(1), P(2), P(3), P(3)),
              'let r = select ("b", 0) => {a = 1 / (%s - %s), b = %s};' % (P(1), P(1), P(2)),
              # boolean scrutinee with arms that are named neither true nor false
              'let r = select (%s > %s, "d") => {other = "O", false = "F"};' % (P(1), P(2)),
              'let r = select (%s > %s, "d") => {other = "O"};' % (P(1), P(2)),
              'let r = select (%s > %s) => {other = %s};' % (P(1), P(2), P(3)),
              'let r = select (%s > %s, 0) => {zz = 1, true = %s, yy = 2};' % (P(1), P(2), P(3)),
              'let r = select (%s == %s, 0) => {"True" = 1, "FALSE" = 2, "" = 3};' % (P(1), P(2)),
              # string scrutinee with arms named like booleans and numbers
              'let k = select (%s > %s) => {true = "true", false = "false"}; let r = select (k, 0) => {true = %s, false = 2};' % (P(1), P(2), P(3)),
              'let r = select ("1", 0) => {"1" = %s, "2" = 2};' % P(1)]:
        add('F4-select', t, 3)
    for t in ['let t = {a = %s, b = [%s, %s]}; let r = t.b.1 + t.a;' % (P(1), P(2), P(3)), 'let t = {a = %s}; let r = t.c;' % P(1),
              'let t = [%s, %s]; let r = t.5;' % (P(1), P(2)), 'let r = %s in [%s, 3];' % (P(1), P(2)), 'let r = "a" in {a = %s};' % P(1), 'let r = a in {a = 1};',
              'let r = b in {a = 1};', 'let r = %s is "int";' % P(1), 'let r = %s is "str";' % P(1), 'let r = {a = 1} is "tuple";', 'let r = [1] is "list";',
              'let r = {a = 1, b = 2} == {b = 2, a = 1};', 'let r = {a = %s, b = {c = [%s]}}.b.c.0;' % (P(1), P(2)), 'let t = {"a b" = %s}; let r = t."a b";' % P(1),
              'let l = [[%s, 2], [3, %s]]; let r = l.1.1 - l.0.0;' % (P(1), P(2)), 'let r = {a = 1} in [{a = %s}];' % P(1), 'let r = %s.a;' % P(1),
              'let t = {a = %s, a = %s}; let r = t.a;' % (P(1), P(2)), 'let r = NULL is "null";', 'let r = (func (x) => x) is "func";']:
        add('F5-data', t, 3)
    for t in ['let y = %s; let f = func (x) => x + y; let r = f(%s);' % (P(1), P(2)),
              'let y = %s; let f = func (x) => x - y; let r = f(%s); let x = 5;' % (P(1), P(2)),
              'let f = func (x, y) => x - y; let r = f(%s, %s);' % (P(1), P(2)), 'let f = func (x, y) => x - y; let r = f(%s);' % P(1),
              'let t = {f = func (x) => x * %s}; let r = t.f(%s);' % (P(1), P(2)), 'let f = func () => %s; let r = f();' % P(1),
              'let x = %s; let f = func (x) => x + 1; let r = f(%s) + x;' % (P(1), P(2)),
              'let f = func (x) => func (y) => x - y; let g = f(%s); let r = g(%s);' % (P(1), P(2)),
              'let f = func (x) => select (x > %s, 0) => {true = x}; let r = f(%s) + f(%s);' % (P(1), P(2), P(3)),
              'let f = func (x) => x / %s; let r = f(%s);' % (P(1), P(2)), 'let g = %s; let r = g(1);' % P(1)]:
        add('F6-func', t, 3)
    for t in ['let base = {a = %s, b = 2}; let r = base{a = self.b + %s, c = self.a};' % (P(1), P(2)), 'let base = {a = %s}; let r = base{a = "s"};' % P(1),
              'let base = {a = %s, i = {b = %s}}; let r = base{i = self.i{b = self.b + 1, c = 3}};' % (P(1), P(2)), 'let base = {a = NULL}; let r = base{a = %s};' % P(1),
              'let base = %s; let r = base{a = 1};' % P(1), 'let base = {a = 1}; let r = base{};', 'let base = {a = %s}; let r = base{b = self.a, a = self.a + 1};' % P(1)]:
        add('F7-copy', t, 2)
    for t in ['let m = module {x = %s} => { let y = mod.x + 1; }; let r = m{x = %s}; let r2 = m{};' % (P(1), P(2)),
              'let m = module {x = 1} => (y) { let y = mod.x * %s; }; let r = m{x = %s};' % (P(1), P(2)),
              'let z = %s; let m = module {x = 1} => { let y = z; }; let r = m{};' % P(1),
              'let m = module {x = 1} => { let y = mod.x; }; let r = m{x = "s"};',
              'let m = module {x = %s} => (mod.x - %s) { let q = 1; }; let r = m{};' % (P(1), P(2)),
              'let m = module {x = %s} => { let a = mod.x; let b = a + %s; }; let r = m{}.b;' % (P(1), P(2))]:
        add('F8-module', t, 2)
    for t in ['let r = map(func (x) => x + %s, [%s, %s]);' % (P(1), P(2), P(3)), 'let r = filter(func (x) => x > %s, [%s, %s]);' % (P(1), P(2), P(3)),
              'let r = reduce(func (acc, x) => acc - x, %s, [%s, %s]);' % (P(1), P(2), P(3)), 'let r = map(func (k, v) => [k, v + %s], {a = %s, b = %s});' % (P(1), P(2), P(3)),
              'let r = filter(func (k, v) => v > %s, {a = %s, b = %s});' % (P(1), P(2), P(3)),
              'let r = reduce(func (acc, k, v) => acc{s = self.s + v}, {s = %s}, {a = %s, b = %s});' % (P(1), P(2), P(3)),
              # a tuple mapper whose result is not a [name, value] list (the reference: "the result should be a two item list")
              'let r = map(func (k, v) => v + %s, {a = %s});' % (P(1), P(2)), 'let r = map(func (k, v) => [k], {a = %s});' % P(1), 'let r = map(func (k, v) => [v, k], {a = %s});' % P(1),
              'let r = map(func (k, v) => select (v > %s, [k, v]) => {true = v}, {a = %s, b = %s});' % (P(1), P(2), P(3)),
              'let r = map(func (c) => c + c, "ab");', 'let r = filter(func (c) => c != "a", "aba");', 'let r = reduce(func (acc, c) => acc + [c], [], "ab");',
              'let r = map(func (x) => x, %s);' % P(1), 'let r = filter(func (x) => select (x > %s, NULL) => {true = x}, [%s, %s]);' % (P(1), P(2), P(3)),
              'let r = map(func (x) => x + 1, []);', 'let f = func (x) => x * %s; let r = map(f, [%s]);' % (P(1), P(2))]:
        add('F9-funcop', t, 3)
    if tier != 'quick':
        # systematic widening: every ordered pair of operators, nested both ways, over three symbolic integers
        allops = ops + ['&&', '||']
        for o1 in allops:
            for o2 in allops:
                add('F2-nesting-all', 'let r = (%s %s %s) %s %s;' % (P(1), o1, P(2), o2, P(3)), 3)
                add('F2-nesting-all', 'let r = %s %s (%s %s %s);' % (P(1), o1, P(2), o2, P(3)), 3)
        # every operator applied to every pair of literal kinds (type errors must agree with the reference as well)
        lits = [P(1), '1.5', '"s"', 'true', 'NULL', '[%s]' % P(2), '{a = %s}' % P(2)]
        for o in ops:
            for l1 in lits:
                for l2 in lits:
                    add('F1-kinds-all', 'let r = %s %s %s;' % (l1, o, l2.replace(P(1), P(3))), 3)
    add('F11-range', 'let r = %s:%s;' % (P(1), P(2)), 2, 'range2')
    add('F11-range', 'let r = %s:%s:%s;' % (P(1), P(3), P(2)), 3, 'range3')
    add('F11-range', 'let r = 1:"a";', 0)
    for t in ['let a = %s; let b = a + %s; let r = a - b;' % (P(1), P(2)), 'let a = %s; let a = %s;' % (P(1), P(2)), 'let a = %s; let r = b;' % P(1),
              'let a = %s; %s + a; let r = a * 2;' % (P(1), P(2))]:
        add('F12-statements', t, 2)
    return ps


def harness(ctx, case):
    prog = ctx.prog
    b = astb.B(prog)
    ucgrun.install_parse_override(prog)
    stmts = ucgrun.parse_ok(ctx, case['text'])
    ints = {i: ctx.bv('a%d' % i, 64) for i in range(1, case['n'] + 1)}
    floats = {}
    for i in range(1, case['n'] + 1):
        if P(i) + '.5' in case['text']:
            f = ctx.fp('f%d' % i)
            ctx.assume(z3.And(z3.Not(z3.fpIsNaN(f)), z3.Not(z3.fpIsInf(f)), z3.Not(z3.fpIsNegative(f)), z3.fpLEQ(f, z3.FPVal(1e15, z3.Float64()))))
            floats[i] = f
    if case.get('assume') == 'range2':
        A, E = ints[1], ints[2]
        ctx.assume(z3.And(z3.BVSubNoOverflow(E, A), z3.BVSubNoUnderflow(E, A, True), E - A <= 3, E - A >= -1))
    if case.get('assume') == 'range3':
        A, E, S = ints[1], ints[2], ints[3]
        ctx.assume(z3.And(S >= -1, S <= 3, z3.BVSubNoOverflow(E, A), z3.BVSubNoUnderflow(E, A, True), E - A <= 6, E - A >= -1))
    stmts2 = SP.subst(prog, stmts, ints, floats)
    out = {'reached': False, 'asserts': 0, 'violations': []}
    vm_panic = None
    try:
        res, vm, env = ucgrun.run_program(ctx, stmts2, env=ucgrun.make_env(ctx))
    except interp.Panic as p:
        vm_panic = p
        ctx.fail_stack = None
    ev = SEM.Ev(ctx, b)
    try:
        oenv, _ = ev.run(stmts2)
        ofail = None
    except SEM.EvalError as ee:
        oenv, ofail = None, ee
    except SEM.OracleUnsupported as u:
        out['skipped'] = str(u)
        return out
    out['reached'] = True

    import hashlib
    sk = hashlib.sha256(case['text'].encode()).hexdigest()[:8]

    def report(key, what, extra=None, expect=None):
        key = key + ':sk=' + sk          # the skeleton that fails: another skeleton failing the same way is a new violation
        m = ctx.model(extra)
        text = SP.render_text(case['text'], m, ctx, ints, floats=floats)
        exp = None
        if expect is not None:
            exp = expect(m)
        out['violations'].append({'key': key, 'what': '%s — program: %s' % (what, text), 'case': {'kind': 'eval', 'text': text, 'strict': True},
                                  'expect': exp, 'fam': case['fam']})

    if vm_panic is not None:
        report('C01:%s:vm-panics' % case['fam'], 'the VM panics (%s) where the reference %s' % (vm_panic.msg[:60], 'fails' if ofail else 'evaluates'),
               expect=lambda m: {'ok': False} if ofail else {'ok': True})
        return out
    vm_ok = res.variant == 0
    out['asserts'] = 1
    if vm_ok != (ofail is None):
        report('C01:%s:outcome-differs:%s' % (case['fam'], ('vm-ok-ref-fails:' + ofail.kind) if vm_ok else 'vm-fails-ref-ok'),
               'compiled evaluation %s but the reference semantics %s' % ('succeeds' if vm_ok else 'fails', 'fails (%s)' % ofail.msg if ofail else 'evaluates'),
               expect=lambda m: {'ok': ofail is None})
        return out
    if not vm_ok:
        out['sample'] = {'text': case['text'], 'both': 'fail'}
        return out
    for name, oval in oenv.items():
        vmv = SP.binding(ctx, vm, name)
        out['asserts'] += 1
        if vmv is None:
            report('C01:%s:binding-missing' % case['fam'], 'binding %s is missing after compiled evaluation' % name, expect=lambda m: {'ok': True})
            return out
        c = SEM.match_vm(ev, oval, vmv)
        if c is True:
            continue
        if c is False or not ctx.valid(c):
            extra = None if c is False else z3.Not(c)

            def expect(m, _o=oval, _n=name):
                return {'ok': True, 'name': _n, 'val': concretize(_o, m)}
            report('C01:%s:value-differs' % case['fam'], 'binding %s: compiled evaluation gives %s, the reference gives %s' % (name, repr(vmv)[:120], SEM.show(oval)[:120]),
                   extra, expect)
            return out
    out['sample'] = {'text': case['text'], 'bindings': {k: SEM.show(v)[:80] for k, v in oenv.items()}}
    return out


def concretize(oval, m):
    """oracle value under a model -> the JSON shape the native driver prints (replay/src/main.rs val_to_json)"""
    k = oval[0]
    if k == 'int':
        v = oval[1]
        return {'t': 'int', 'v': str(m.eval(v, model_completion=True).as_signed_long() if is_sym(v) else v)}
    if k == 'bool':
        v = oval[1]
        return {'t': 'bool', 'v': bool(z3.is_true(m.eval(v, model_completion=True))) if is_sym(v) else bool(v)}
    if k == 'float':
        return {'t': 'float', 'v': None if is_sym(oval[1]) else repr(float(oval[1]))}
    if k == 'str':
        return {'t': 'str', 'v': oval[1] if type(oval[1]) is str else None}
    if k == 'null':
        return {'t': 'null'}
    if k == 'list':
        return {'t': 'list', 'v': [concretize(x, m) for x in oval[1]]}
    if k == 'tuple':
        return {'t': 'tuple', 'v': [[n, concretize(x, m)] for n, x in oval[1]]}
    return {'t': 'other'}


def json_equal(exp, got):
    if exp is None:
        return True
    if exp.get('t') != got.get('t'):
        return False
    if exp['t'] in ('int', 'bool', 'str'):
        return exp.get('v') is None or exp['v'] == got.get('v')
    if exp['t'] == 'float':
        return exp.get('v') is None or float(exp['v']) == float(got['v'])
    if exp['t'] == 'list':
        return len(exp['v']) == len(got['v']) and all(json_equal(a, c) for a, c in zip(exp['v'], got['v']))
    if exp['t'] == 'tuple':
        return len(exp['v']) == len(got['v']) and all(a[0] == c[0] and json_equal(a[1], c[1]) for a, c in zip(exp['v'], got['v']))
    return True


def make_judge(v):
    def judge(out):
        exp = v.get('expect') or {}
        if out.get('panic') or out.get('crash'):
            return True
        if 'ok' in exp and bool(out.get('ok')) != bool(exp['ok']):
            return True
        if exp.get('name') and out.get('ok'):
            for n, val in out['val']['v']:
                if n == exp['name']:
                    return not json_equal(exp['val'], val)
            return True
        return False
    return judge


def run(fw):
    ps = programs(fw.tier)
    fams = sorted({p['fam'] for p in ps})
    fw.bounds.update({'skeletons': len(ps), 'families': fams, 'symbolic_leaves_per_program': '1-3 i64 (BitVec 64); family F1-float: 2 f64 (finite, non-negative, <= 1e15)',
                      'ranges': '0..3 (a:b) / 0..6 (a:s:b) span', 'lists/tuples/strings': '<= 3 elements (structure is the bound)',
                      'outside': 'programs deeper or longer than the skeletons; the parser (C02/C11); regex operators; casts, format strings (C04 kernels only), '
                                 'import/include/out/convert (C09/C14/C15); float text rendering'})
    fw.oracles.append('definitional evaluator oracle/ucg_semantics.py written from docsite/site/content/reference/expressions.md')
    fw.explore('programs', harness, ps, fuel=30_000_000)
    for v in fw.violations:
        v['judge'] = make_judge(v)
    skipped = 0
    fw.assumptions += ['std/alloc calls are abstract-datatype builtins (listed)', 'symbolic leaves are integers (and f64 in family F1-float); strings and booleans in the skeletons are concrete or derived from comparisons',
                       'Environment assembled with real registries and assert collector but without the standard library (no skeleton imports it)']
    return fw.finish(level='translation_validation', technique='symbolic execution of rustc MIR (translator + VM) vs a definitional evaluator; z3 validity query per binding per path',
                     extra={'programs': len(ps), 'disagreements_checked': len(fw.violations)})


def replay(fw, case):
    out = fw.replay(case['case'])
    j = make_judge({'expect': case.get('expect')})(out)
    return {'native': out, 'expected': case.get('expect'), 'violates': bool(j)}
