"""C09 — imports resolve against the importing file, run once, and cycles are errors.

Engine M, three families, all on the real code from MIR:
  positions — the real `AST::translate` (Rewriter driven by the real Walker) on programs that place a relative
              `import` / `include` at every syntactic position (statement kinds × expression slots, incl. functional-op
              callbacks and accumulators, fail messages, module defaults / bodies / out-expressions, select parts,
              ranges, format arguments, constraints). Obligation: no relative spelling of the path survives in the
              compiled form — every occurrence is `<dir of the importing file>/<path>`; `std/...` stays untouched.
  normalize — the real `path::normalize` on absolute paths of up to 5 components whose kinds (name a / name b / `.` /
              `..`) are chosen by symbolic decisions: result = the reference stack machine's, hence idempotent and
              equal for equivalent spellings.
  hook      — the real import hook, value cache, import stack and opcode cache, through `FileBuilder`-level builds on
              the virtual file system: the same file imported under different spellings is read and evaluated once
              and yields one value; a chain leading back to a file being imported ends in an import-cycle error."""
import os
import sys
import tempfile
import z3

import astb
import symprog as SP
import ucgrun
from mirsym import interp
from mirsym.vals import Agg, VecV, MapV, PathV, is_sym

REL = 'rel/x.ucg'
RELI = 'rel/x.txt'
IMP = '(import "%s")' % REL
INC = '(include str "%s")' % RELI

# (name, program, number of path occurrences). The imported file binds: a=1 b=3 c=5 k="a" d=0 l=[1] m="msg" t=true
POSITIONS = [
    ('let', 'let r = {I};', 1), ('expr-stmt', '{I};', 1), ('assert', 'assert {ok = {I}.a == 1, desc = "d"};', 1), ('out', 'out flags {I};', 1),
    ('binary-left', 'let r = {I}.a + 1;', 1), ('binary-right', 'let r = 1 + {I}.a;', 1), ('call-arg', 'let f = func (x) => x; let r = f({I});', 1),
    ('cast-target', 'let r = str({I}.a);', 1), ('copy-field', 'let t = {z = 0}; let r = t{y = {I}};', 1), ('format-list-arg', 'let r = "@" % ({I}.a);', 1),
    ('format-single', 'let r = "@{item}" % {I}.a;', 1), ('func-body', 'let f = func (x) => {I}.a + x; let r = f(1);', 1),
    ('funcop-callback', 'let r = map(func (x) => {I}.a + x, [1]);', 1), ('funcop-callback-filter', 'let r = filter(func (x) => {I}.t, [1]);', 1),
    ('funcop-callback-reduce', 'let r = reduce(func (acc, x) => acc + {I}.a, 0, [1]);', 1), ('funcop-accumulator', 'let r = reduce(func (acc, x) => acc + x, {I}.a, [1]);', 1),
    ('funcop-target', 'let r = map(func (x) => x, {I}.l);', 1), ('grouped', 'let r = ({I});', 1), ('module-default', 'let m = module {d = {I}} => { let q = mod.d; }; let r = m{};', 1),
    ('module-statement', 'let m = module {d = 1} => { let q = {I}; }; let r = m{};', 1), ('module-out-expr', 'let m = module {d = 1} => ({I}.a) { let q = 1; }; let r = m{};', 1),
    ('range-start', 'let r = {I}.a:3;', 1), ('range-step', 'let r = 1:{I}.a:3;', 1), ('range-end', 'let r = 1:{I}.b;', 1),
    ('select-value', 'let r = select ({I}.k, 0) => {a = 1};', 1), ('select-default', 'let r = select ("z", {I}.a) => {a = 1};', 1),
    ('select-arm', 'let r = select ("a", 0) => {a = {I}.a};', 1), ('list-element', 'let r = [{I}];', 1), ('tuple-field', 'let r = {f = {I}};', 1),
    ('nested-tuple-in-list', 'let r = [{f = [{I}]}];', 1), ('fail-message', 'let r = select ({I}.t, 0) => {true = fail "no " + {I}.m};', 2), ('not', 'let r = not {I}.t;', 1),
    ('trace', 'let r = TRACE {I}.a;', 1), ('convert', 'let r = convert flags {I};', 1), ('let-constraint', 'let r :: {I}.a = 2;', 1),
    ('call-in-binary-in-list', 'let f = func (x) => x; let r = [1 + f({I}.a)];', 1), ('copy-in-func-in-map', 'let t = {z = 0}; let r = map(func (x) => t{y = {I}.a}, [1]);', 1),
    # expressions inside a format template are parsed when the format expression is compiled ({J} = {I} with its quotes escaped)
    ('format-template-expr', 'let r = "@{({J}).a + item}" % 1;', 1), ('format-template-expr-in-func', 'let f = func (x) => "v=@{({J}).a + x}" % x; let r = f(1);', 1),
    ('double', 'let r = {I}.a + {I}.b;', 2), ('std-untouched', 'let r = import "std/lists.ucg";', 0),
]
# names that merely *start like* the standard library prefix are ordinary relative paths
STD_LOOKALIKES = ['stdvals.ucg', 'std_env/x.ucg', 'stdlib/x.ucg', 'std.ucg', './std/x.ucg', 'sub/std/x.ucg']


def strings_in(v, acc, depth=0):
    t = type(v)
    if t is str:
        acc.append(v)
    elif t is Agg:
        for f in v.fields:
            strings_in(f, acc, depth + 1)
    elif t is VecV:
        for f in v.items:
            strings_in(f, acc, depth + 1)
    elif t is MapV:
        for k, x in v.items:
            strings_in(k, acc, depth + 1)
            strings_in(x, acc, depth + 1)
    elif t is PathV:
        acc.append(v.to_str())


def harness_positions(ctx, case):
    prog = ctx.prog
    out = {'reached': True, 'asserts': 1, 'violations': []}
    kind = case['kind']
    if case['name'].startswith('std-lookalike'):
        rel = case['rel']
        text = 'let r = import "%s";' % rel
        r = ucgrun.parse_program(ctx, text)
        ops = ucgrun.translate(ctx, r.fields[0], '/wd/base')
        acc = []
        strings_in(ops, acc)
        hits = [s for s in acc if rel.lstrip('./') in s]
        import posixpath
        if not hits or any(not s.startswith('/wd/base/') for s in hits):
            out['violations'].append({'key': 'C09:positions:import-not-rewritten:std-lookalike', 'what': 'the relative import path %r is not resolved against the importing file: compiled form contains %r' % (rel, hits),
                                      'case': {'kind': 'cli-cwd', 'text': text, 'which': 'import', 'rel': rel}})
        else:
            out['sample'] = {'position': 'std-lookalike', 'path': rel, 'compiled_paths': hits}
        return out
    rel = REL if kind == 'import' else RELI
    text = case['text'].replace('{J}', '{I}').replace('{I}', IMP if kind == 'import' else INC + '')
    if '{J}' in case['text']:
        text = case['text'].replace('({J}).a', '(' + IMP.replace('"', '\\"') + ').a' if kind == 'import' else 'int(' + INC.replace('"', '\\"') + ')')
    if kind == 'include' and '{J}' not in case['text']:
        # an include yields a string: adapt the member accesses of the templates
        text = case['text'].replace('{I}.a', 'int({I})').replace('{I}.b', 'int({I})').replace('{I}.t', '({I} == "1")').replace('{I}.k', '{I}') \
            .replace('{I}.m', '{I}').replace('{I}.l', '[{I}]').replace('{I}', INC)
    r = ucgrun.parse_program(ctx, text)
    if r.variant != 0:
        raise interp.Unsupported('position template does not parse: %s -> %r' % (text, r))
    ops = ucgrun.translate(ctx, r.fields[0], '/wd/base')
    acc = []
    strings_in(ops, acc)
    hits = [s for s in acc if rel in s]
    want_abs = '/wd/base/' + rel
    bad = [s for s in hits if want_abs not in s]
    n = case['n']
    if case['name'] == 'std-untouched':
        std = [s for s in acc if 'std/lists.ucg' in s]
        if any(s != 'std/lists.ucg' for s in std) or not std:
            out['violations'].append({'key': 'C09:positions:std-path-rewritten', 'what': 'a std/ import path was rewritten: %r' % std})
        return out
    if bad or len([s for s in hits if want_abs in s]) < n:
        out['violations'].append({'key': 'C09:positions:%s-not-rewritten:%s' % (kind, case['name']),
                                  'what': 'relative %s path at position `%s` is not resolved against the importing file: compiled form contains %r (program: %s)' % (kind, case['name'], sorted(set(hits)), text),
                                  'case': {'kind': 'cli-cwd', 'text': text, 'which': kind}})
    else:
        out['sample'] = {'position': case['name'], 'kind': kind, 'compiled_paths': sorted(set(hits))}
    return out


# ------------------------------------------------------------------ normalize
KINDS = ['a', 'b', '.', '..', '']          # '' = a doubled slash


def ref_normalize(comps):
    st = []
    for c in comps:
        if c == '..':
            if st:
                st.pop()
        elif c in ('.', ''):
            continue
        else:
            st.append(c)
    return st


def harness_normalize(ctx, case):
    n = case['n']
    comps = []
    for i in range(n):
        k = ctx.bv('k%d' % i, 8)
        ctx.assume(z3.ULT(k, len(KINDS)))
        comps.append(KINDS[ctx.concretize_int(k, list(range(len(KINDS))))])
    p = PathV(True, comps)
    out = {'reached': True, 'asserts': 3, 'violations': []}
    r1 = ctx.call('path::normalize', [p])
    r2 = ctx.call('path::normalize', [r1])
    want = PathV(True, ref_normalize(comps))
    spelled = '/' + '/'.join(comps)
    # the *spelling* matters: the run-time import cache and import stack are keyed by the normalised path's string
    if r1 != want or r1.to_str() != want.to_str():
        out['violations'].append({'key': 'C09:normalize:wrong-result', 'what': 'normalize(%s) = %s, reference %s' % (spelled, r1.to_str(), want.to_str()), 'case': {'kind': 'normalize', 'path': spelled}})
    elif r2 != r1 or r2.to_str() != r1.to_str():
        out['violations'].append({'key': 'C09:normalize:not-idempotent', 'what': 'normalize is not idempotent on %s' % spelled, 'case': {'kind': 'normalize', 'path': spelled}})
    else:
        out['sample'] = {'path': spelled, 'normalized': r1.to_str()}
    return out


# ------------------------------------------------------------------ hook: once, cached, cycles
HOOK_PROJECTS = {
    'same-file-three-spellings': ({'main.ucg': 'let a = import "lib/x.ucg";\nlet b = import "./lib/x.ucg";\nlet c = import "lib/../lib/./x.ucg";\nlet r = [a.v, b.v, c.v];\n',
                                   'lib/x.ucg': 'let v = TRACE %s;\n' % SP.ph(1)}, 'ok', {'/cwd/lib/x.ucg': 1}),
    'diamond': ({'main.ucg': 'let l = import "l.ucg";\nlet r = import "r.ucg";\nlet s = [l.s.v, r.s.v];\n', 'l.ucg': 'let s = import "shared.ucg";\n',
                 'r.ucg': 'let s = import "./sub/../shared.ucg";\n', 'shared.ucg': 'let v = TRACE %s;\n' % SP.ph(1)}, 'ok', {'/cwd/shared.ucg': 1}),
    'import-in-func-called-twice': ({'main.ucg': 'let f = func (x) => [(import "lib/x.ucg").v, x];\nlet r = [f(1), f(2)];\n', 'lib/x.ucg': 'let v = TRACE %s;\n' % SP.ph(1)}, 'ok', {'/cwd/lib/x.ucg': 1}),
    'nested-dirs': ({'main.ucg': 'let a = import "d1/a.ucg";\nlet r = a.b.v;\n', 'd1/a.ucg': 'let b = import "../d2/b.ucg";\n', 'd2/b.ucg': 'let v = TRACE %s;\n' % SP.ph(1)}, 'ok', {'/cwd/d2/b.ucg': 1}),
    'nested-dot-spelling': ({'main.ucg': 'let m = import "lib/mid.ucg";\nlet a = import "lib/x.ucg";\nlet r = [m.l.v, a.v];\n', 'lib/mid.ucg': 'let l = import "./x.ucg";\n',
                             'lib/x.ucg': 'let v = TRACE %s;\n' % SP.ph(1)}, 'ok', {'/cwd/lib/x.ucg': 1}),
    'doubled-slash-spelling': ({'main.ucg': 'let a = import "lib//x.ucg";\nlet b = import "lib/x.ucg";\nlet r = [a.v, b.v];\n', 'lib/x.ucg': 'let v = TRACE %s;\n' % SP.ph(1)}, 'ok', {'/cwd/lib/x.ucg': 1}),
    'cycle-closing-through-dot': ({'main.ucg': 'let a = (import "a.ucg").x;\n', 'a.ucg': 'let x = (import "b.ucg").y;\n', 'b.ucg': 'let y = (import "./a.ucg").x;\n'}, 'cycle', {}),
    'cycle-2': ({'main.ucg': 'let a = import "a.ucg";\n', 'a.ucg': 'let b = import "b.ucg";\n', 'b.ucg': 'let a = import "./a.ucg";\n'}, 'cycle', {}),
    'cycle-self': ({'main.ucg': 'let a = import "./main.ucg";\n'}, 'cycle', {}),
    'cycle-3-respelled': ({'main.ucg': 'let a = import "a.ucg";\n', 'a.ucg': 'let b = import "d/b.ucg";\n', 'd/b.ucg': 'let c = import "../c.ucg";\n', 'c.ucg': 'let a = import "d/../a.ucg";\n'}, 'cycle', {}),
    'cycle-via-selector': ({'main.ucg': 'let a = (import "a.ucg").x;\n', 'a.ucg': 'let x = (import "b.ucg").y;\n', 'b.ucg': 'let y = (import "./a.ucg").x;\n'}, 'cycle', {}),
    # the import graph a <-> b is cyclic, but no file is still being imported when the other is read (the imports sit in function
    # bodies that run after both files are complete): this is mutual recursion with a base case and must simply evaluate
    'lazy-mutual-imports-in-func-bodies': ({'main.ucg': 'let a = import "a.ucg";\nlet r = a.f(2);\n',
                                            'a.ucg': 'let v = TRACE %s;\nlet f = func (x) => select (x > 0, v) => {true = (import "b.ucg").g(x - 1)};\n' % SP.ph(1),
                                            'b.ucg': 'let g = func (x) => (import "a.ucg").f(x);\n'}, 'ok', {'/cwd/a.ucg': 1}),
    'cycle-in-tuple-field': ({'main.ucg': 'let a = import "a.ucg";\n', 'a.ucg': 'let t = {b = import "b.ucg"};\n', 'b.ucg': 'let t = [import "a.ucg"];\n'}, 'cycle', {}),
    # a cycle one of whose imports sits in a module body (evaluated by the VM that instantiates the module)
    'cycle-through-module-body': ({'main.ucg': 'let a = import "a.ucg";\n', 'a.ucg': 'let m = module {x = 1} => { let b = import "b.ucg"; };\nlet r = m{};\n', 'b.ucg': 'let a = import "./a.ucg";\n'}, 'cycle', {}),
    'cycle-through-module-out-expr': ({'main.ucg': 'let a = import "a.ucg";\n', 'a.ucg': 'let m = module {x = 1} => ((import "b.ucg").y) { let q = 1; };\nlet r = m{};\n', 'b.ucg': 'let y = (import "a.ucg").r;\n'}, 'cycle', {}),
    'module-body-import-acyclic': ({'main.ucg': 'let m = module {x = 1} => { let l = import "lib/x.ucg"; let v = l.v; };\nlet r = [m{}.v, m{x = 2}.v];\n', 'lib/x.ucg': 'let v = TRACE %s;\n' % SP.ph(1)}, 'ok', {'/cwd/lib/x.ucg': 1}),
    'cycle-non-let-import-through-dotdot': ({'main.ucg': 'let f = func (x) => (import "./sub/b.ucg").v + x;\nlet r = f(1);\n', 'sub/b.ucg': 'let v = (import "../main.ucg").r;\n'}, 'cycle', {}),
    'missing-file': ({'main.ucg': 'let a = import "nosuch.ucg";\n'}, 'error', {}),
}


def harness_hook(ctx, case):
    prog = ctx.prog
    ucgrun.install_parse_override(prog)
    files, expect, once = HOOK_PROJECTS[case['project']]
    for n, t in files.items():
        ctx.fs['/cwd/' + n] = t
    ints = {1: ctx.bv('a1', 64)}
    ctx.parse_subst = {'ints': ints}
    env = ucgrun.make_env(ctx)
    matches = Agg('ArgMatches', None, (MapV('HashMap').insert('INPUT', VecV(['main.ucg'])), MapV('HashMap')))
    exited = 0
    out = {'reached': True, 'asserts': 2, 'violations': []}
    ctx.fuel = min(ctx.fuel, 60_000_000)        # the projects need < 10M steps; a run that is still going after 60M is reported (and judged natively)
    try:
        ctx.call('build_command', [matches, VecV([]), True, env])
    except interp.HarnessStop as h:
        exited = h.payload
    except interp.BoundHit as bh:
        # recursion that does not end within the call-depth bound: a candidate for unbounded recursion along the import
        # chain — confirmed (or refuted) by the native replay, which crashes with a stack overflow if it is real
        where = ctx.where()
        ctx.fail_stack = None
        out['violations'].append({'key': 'C09:hook:unbounded-import-recursion:%s' % case['project'],
                                  'what': 'evaluation of project %s does not terminate within the call-depth bound (%s): unbounded recursion along the import chain' % (case['project'], where),
                                  'case': {'kind': 'cli-project', 'files': dict(files), 'expect': expect, 'traces': sum(once.values())}})
        return out
    stderr = ''.join(e[1] if type(e[1]) is str else repr(e[1]) for e in ctx.events if e[0] == 'stderr')
    from mirsym.bi_str import sink_pieces
    b = astb.B(prog)
    traces = [p for p in sink_pieces(b.field(env.slot[0], 'build::opcode::environment::Environment', 'stderr')) if 'TRACE' in (p if type(p) is str else repr(p))]

    def report(key, what):
        m = ctx.model()
        fs = {n: SP.render_text(t, m, ctx, ints) for n, t in files.items()}
        out['violations'].append({'key': 'C09:hook:%s:%s' % (key, case['project']), 'what': what, 'case': {'kind': 'cli-project', 'files': fs, 'expect': expect, 'traces': sum(once.values())}})
    if expect == 'ok':
        if exited != 0:
            report('build-fails', 'project %s fails to build: %s' % (case['project'], stderr[-200:]))
            return out
        if len(traces) != sum(once.values()):
            report('evaluated-more-than-once', 'the shared file was evaluated %d times (TRACE lines), expected %d' % (len(traces), sum(once.values())))
            return out
        out['sample'] = {'project': case['project'], 'evaluations_of_shared_file': len(traces)}
    elif expect == 'cycle':
        if exited == 0:
            report('cycle-not-detected', 'an import cycle builds successfully')
        elif 'cycle' not in stderr.lower():
            report('cycle-without-diagnostic', 'an import cycle fails without an import-cycle diagnostic: %s' % stderr[-200:])
        else:
            out['sample'] = {'project': case['project'], 'diagnostic': stderr[-120:]}
    elif expect == 'cycle-or-ok-no-crash':
        out['sample'] = {'project': case['project'], 'exit': exited}
    else:
        if exited == 0:
            report('missing-import-builds', 'importing a missing file builds')
    return out


# ------------------------------------------------------------------ native judges
XFILE = 'let a = 1;\nlet b = 3;\nlet c = 5;\nlet k = "a";\nlet d = 0;\nlet l = [1];\nlet m = "msg";\nlet t = true;\n'


def judge_positions(fw, v):
    """build the program as base/main.ucg from the *parent* directory and from inside base/: a path that was not
    rewritten resolves against the process cwd, so the two builds differ"""
    c = v['case']
    res = {}
    with tempfile.TemporaryDirectory(prefix='ucg-verif-c09-') as d:
        os.makedirs(os.path.join(d, 'base', 'rel'))
        if c.get('rel'):
            tgt = os.path.normpath(os.path.join(d, 'base', c['rel']))
            os.makedirs(os.path.dirname(tgt), exist_ok=True)
            open(tgt, 'w').write(XFILE)
        open(os.path.join(d, 'base', 'main.ucg'), 'w').write(c['text'])
        open(os.path.join(d, 'base', 'rel', 'x.ucg'), 'w').write(XFILE)
        open(os.path.join(d, 'base', 'rel', 'x.txt'), 'w').write('1')
        res['inside'] = fw.native().cli(['build', 'main.ucg'], os.path.join(d, 'base'))
        res['parent'] = fw.native().cli(['build', 'base/main.ucg'], d)
    fw.replayed += 2
    v['native'] = {k: {'rc': r['rc'], 'stderr': r['stderr'][-300:]} for k, r in res.items()}
    def nf(r):
        t = r['stderr'].lower()
        return 'not found' in t or 'no such file' in t
    return nf(res['parent']) and not nf(res['inside'])


def judge_project(fw, v):
    c = v['case']
    with tempfile.TemporaryDirectory(prefix='ucg-verif-c09-') as d:
        for n, t in c['files'].items():
            os.makedirs(os.path.dirname(os.path.join(d, n)), exist_ok=True)
            open(os.path.join(d, n), 'w').write(t)
        os.makedirs(os.path.join(d, 'sub'), exist_ok=True)
        r = fw.native().cli(['build', 'main.ucg'], d)
    fw.replayed += 1
    v['native'] = {'rc': r['rc'], 'stderr': r['stderr'][-400:]}
    if c['expect'] == 'ok':
        return r['rc'] != 0 or r['stderr'].count('TRACE') != c['traces']
    if c['expect'] == 'cycle':
        return r['rc'] == 0 or 'cycle' not in r['stderr'].lower()
    if c['expect'] == 'cycle-or-ok-no-crash':
        return r['rc'] not in (0, 1)
    return r['rc'] == 0


def run(fw):
    pos_cases = []
    for kind in ('import', 'include'):
        for name, text, n in POSITIONS:
            if kind == 'include' and name in ('std-untouched', 'out', 'convert', 'let', 'expr-stmt', 'module-default', 'module-statement', 'list-element', 'tuple-field',
                                              'nested-tuple-in-list', 'grouped', 'call-arg', 'copy-field'):
                if name in ('std-untouched', 'out', 'convert'):
                    continue
            if kind == 'include' and name.startswith('range-'):
                continue        # the grammar does not accept a cast as a range bound
            if kind == 'import' and name == 'let-constraint':
                continue        # the grammar does not accept a selector in a constraint
            pos_cases.append({'kind': kind, 'name': name, 'text': text, 'n': n})
    for rel in STD_LOOKALIKES:
        pos_cases.append({'kind': 'import', 'name': 'std-lookalike:' + rel, 'rel': rel, 'text': '', 'n': 1})
    fw.explore('positions', harness_positions, pos_cases, fuel=50_000_000)
    nmax = 4 if fw.tier == 'quick' else 5
    fw.explore('normalize', harness_normalize, [{'n': n} for n in range(0, nmax + 1)], fuel=5_000_000)
    fw.explore('hook', harness_hook, [{'project': p} for p in HOOK_PROJECTS], fuel=500_000_000)
    for v in fw.violations:
        k = v.get('case', {}).get('kind')
        if k == 'cli-cwd':
            v['reproduced'] = judge_positions(fw, v)
        elif k == 'cli-project':
            v['reproduced'] = judge_project(fw, v)
        elif k == 'normalize':
            v['reproduced'] = True      # pure function of the components; decided on the real MIR, no environment involved
    fw.bounds.update({'positions': len(POSITIONS), 'kinds': ['import', 'include'], 'normalize_components': '0..%d, kinds %s after the root' % (nmax, KINDS),
                      'hook_projects': sorted(HOOK_PROJECTS), 'outside': 'the process working directory and real directory trees beyond the replay; symlinks'})
    fw.oracles.append('path normalisation reference = stack machine (.. at the root stays at the root)')
    fw.assumptions += ['virtual file system stub (open/read), recorded stderr', 'std/alloc and std::path builtins over a component-list representation (listed)']
    return fw.finish(technique='symbolic execution of rustc MIR: Rewriter+Walker over position templates, path::normalize over symbolically chosen component kinds, import hook through real builds on a virtual file system; native replay from two working directories')


def replay(fw, case):
    v = dict(case)
    k = case['case']['kind']
    if k == 'cli-cwd':
        return {'violates': bool(judge_positions(fw, v)), 'native': v.get('native')}
    if k == 'cli-project':
        return {'violates': bool(judge_project(fw, v)), 'native': v.get('native')}
    return {'violates': True}
