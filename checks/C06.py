"""C06 — a `::` constraint on a binding admits exactly the conforming values.

Engine M on the binary crate's MIR: files are built by the real `build_command` → ... → parser (`constraint_expression`),
static checker (`Checker::visit_statement`, `Shape::narrow*`), translator (`CheckConstraint` / `BuildConstraint`) and
VM (`op_build_constraint`, `op_check_constraint`, `ConstraintVal::check`), from the virtual file system.
  ranges       — bounds and the bound value are *symbolic i64*: z3 decides on every path that the build succeeds iff
                 lo <= v <= hi (inclusive; half-open forms; alternations of 1..4 exact values and ranges; the same
                 constraint behind a `constraint` name) — the solver finds lo-1, lo, hi, hi+1 itself;
  float-ranges — concrete boundary values around float bounds;
  exemplars    — constraint/value pairs from a grammar of primitive, tuple and list exemplars (nesting <= 2), also behind a
                 let-bound name, against the three documented compatibility rules."""
import itertools
import os
import sys
import tempfile
import z3

import astb
import symprog as SP
import ucgrun
from mirsym import interp
from mirsym.vals import Agg, VecV, MapV

P = SP.ph


def I(i):
    return ('i', i)


def range_cases():
    """(name, text, reference predicate over symbolic ints a[1..])"""
    cs = []

    def add(name, text, pred, n):
        cs.append({'fam': 'ranges', 'name': name, 'text': text, 'pred': pred, 'n': n})
    add('closed', 'let x :: in %s..%s = %s;\n' % (P(1), P(2), P(3)), 'closed', 3)
    add('open-end', 'let x :: in %s.. = %s;\n' % (P(1), P(3)), 'lo', 3)
    add('open-start', 'let x :: in ..%s = %s;\n' % (P(2), P(3)), 'hi', 3)
    add('single-literal-is-an-exemplar', 'let x :: %s = %s;\n' % (P(1), P(3)), 'true', 3)
    add('alt-2', 'let x :: %s | %s = %s;\n' % (P(1), P(2), P(3)), 'alt2', 3)
    add('alt-3', 'let x :: %s | %s | %s = %s;\n' % (P(1), P(2), P(4), P(3)), 'alt3', 4)
    add('alt-4', 'let x :: %s | %s | %s | %s = %s;\n' % (P(1), P(2), P(4), P(5), P(3)), 'alt4', 5)
    add('range-or-exact', 'let x :: in %s..%s | %s = %s;\n' % (P(1), P(2), P(4), P(3)), 'closed|4', 4)
    add('exact-or-range', 'let x :: %s | in %s..%s = %s;\n' % (P(4), P(1), P(2), P(3)), 'closed|4', 4)
    add('two-ranges', 'let x :: in %s..%s | in %s..%s = %s;\n' % (P(1), P(2), P(4), P(5), P(3)), 'closed|45', 5)
    add('named-closed', 'constraint c = in %s..%s;\nlet x :: c = %s;\n' % (P(1), P(2), P(3)), 'closed', 3)
    add('named-alt', 'constraint c = %s | %s | in %s..;\nlet x :: c = %s;\n' % (P(1), P(2), P(4), P(3)), 'alt2|lo4', 4)
    add('named-used-twice', 'constraint c = in %s..%s;\nlet x :: c = %s;\nlet y :: c = %s;\n' % (P(1), P(2), P(3), P(4)), 'closed&closed4', 4)
    # alternations whose arms have different types: an arm of another type than the value must simply not match
    add('mixed-str-then-range', 'let x :: "auto" | in %s..%s = %s;\n' % (P(1), P(2), P(3)), 'closed', 3)
    add('mixed-range-then-str', 'let x :: in %s..%s | "auto" = %s;\n' % (P(1), P(2), P(3)), 'closed', 3)
    add('mixed-str-int-bool', 'let x :: "x" | %s | true = %s;\n' % (P(1), P(3)), 'eq1', 3)
    add('mixed-bool-float-int', 'let x :: false | 1.5 | %s | %s = %s;\n' % (P(1), P(2), P(3)), 'alt2', 3)
    add('mixed-named', 'constraint c = "auto" | in %s..%s;\nlet x :: c = %s;\n' % (P(1), P(2), P(3)), 'closed', 3)
    add('mixed-str-then-range-computed', 'let x :: "auto" | in %s..%s = %s + 0;\n' % (P(1), P(2), P(3)), 'closed', 3)
    # a named constraint used inside another constraint behaves like its text written inline
    add('named-range-as-arm', 'constraint a = in %s..%s;\nconstraint b = a | %s;\nlet x :: b = %s;\n' % (P(1), P(2), P(4), P(3)), 'closed|4', 4)
    add('named-range-as-last-arm', 'constraint a = in %s..%s;\nconstraint b = %s | a;\nlet x :: b = %s;\n' % (P(1), P(2), P(4), P(3)), 'closed|4', 4)
    add('named-alt-as-arm', 'constraint a = %s | %s;\nconstraint b = a | %s;\nlet x :: b = %s;\n' % (P(1), P(2), P(4), P(3)), 'alt3', 4)
    add('named-range-as-arm-inline-use', 'constraint a = in %s..%s;\nlet x :: a | %s = %s;\n' % (P(1), P(2), P(4), P(3)), 'closed|4', 4)
    add('two-named-ranges', 'constraint a = in %s..%s;\nconstraint b = in %s..%s;\nlet x :: a | b = %s;\n' % (P(1), P(2), P(4), P(5), P(3)), 'closed|45', 5)
    add('named-alias', 'constraint a = in %s..%s;\nconstraint b = a;\nlet x :: b = %s;\n' % (P(1), P(2), P(3)), 'closed', 3)
    add('computed-value', 'let v = %s + 1;\nlet x :: in %s..%s = v;\n' % (P(3), P(1), P(2)), 'closed+1', 3)
    return cs


def predicate(name, a):
    closed = z3.And(a[1] <= a[3], a[3] <= a[2])
    if name == 'closed':
        return closed
    if name == 'lo':
        return a[1] <= a[3]
    if name == 'hi':
        return a[3] <= a[2]
    if name == 'true':
        return z3.BoolVal(True)       # a single literal is a zero-value exemplar: any integer conforms
    if name == 'alt2':
        return z3.Or(a[3] == a[1], a[3] == a[2])
    if name == 'eq1':
        return a[3] == a[1]
    if name == 'alt3':
        return z3.Or(a[3] == a[1], a[3] == a[2], a[3] == a[4])
    if name == 'alt4':
        return z3.Or(a[3] == a[1], a[3] == a[2], a[3] == a[4], a[3] == a[5])
    if name == 'closed|4':
        return z3.Or(closed, a[3] == a[4])
    if name == 'closed|45':
        return z3.Or(closed, z3.And(a[4] <= a[3], a[3] <= a[5]))
    if name == 'alt2|lo4':
        return z3.Or(a[3] == a[1], a[3] == a[2], a[4] <= a[3])
    if name == 'closed&closed4':
        return z3.And(closed, a[1] <= a[4], a[4] <= a[2])
    if name == 'closed&lohi':
        return z3.And(closed, a[1] <= a[2])
    if name == 'closed+1':
        return z3.And(a[3] != z3.BitVecVal((1 << 63) - 1, 64), a[1] <= a[3] + 1, a[3] + 1 <= a[2])
    raise KeyError(name)


FLOAT_CASES = [('let x :: in 0.5..1.5 = %s;\n', [('0.5', True), ('1.5', True), ('1.0', True), ('0.4999', False), ('1.5001', False), ('2.0', False)]),
               ('let x :: in 0.5.. = %s;\n', [('0.5', True), ('0.25', False), ('100.0', True)]),
               ('let x :: in ..1.5 = %s;\n', [('1.5', True), ('1.75', False), ('0.0', True)]),
               ('let x :: 1.5 | 2.5 = %s;\n', [('1.5', True), ('2.5', True), ('2.0', False)]),
               ('let x :: "a" | "b" = %s;\n', [('"a"', True), ('"b"', True), ('"c"', False), ('"ab"', False)]),
               ('let x :: true = %s;\n', [('true', True), ('false', True)]),
               ('let x :: 0 | "none" = %s;\n', [('"none"', True), ('0', True), ('"other"', False), ('1', False)]),
               ('let x :: false | in 0.0..1.0 = %s;\n', [('0.5', True), ('false', True), ('1.5', False), ('true', False)]),
               ('let x :: "a" | 1.5 | in 3..4 = %s;\n', [('1.5', True), ('3', True), ('"a"', True), ('2.5', False), ('5', False)]),
               ('let x :: in 1..5 = %s;\n', [('"s"', False), ('1.5', False), ('true', False)]),
               ('let x :: in 0.5..1.5 = %s;\n', [('1', False), ('"s"', False)])]

# exemplar grammar: shapes as python trees: 'i','f','s','b','n'(NULL) | ('t', ((name, shape),...)) | ('l', (shape,...))
PRIMS = ['i', 'f', 's', 'b']
LIT = {'i': '7', 'f': '1.5', 's': '"x"', 'b': 'true', 'n': 'NULL'}
ZERO = {'i': '0', 'f': '0.0', 's': '""', 'b': 'false', 'n': 'NULL'}


def render(shape, table):
    if isinstance(shape, str):
        return table[shape]
    if shape[0] == 't':
        return '{' + ', '.join('%s = %s' % (n, render(s, table)) for n, s in shape[1]) + '}'
    return '[' + ', '.join(render(s, table) for s in shape[1]) + ']'


def admits(c, v):
    """the three documented rules (property C06 statement / typechecking.md)"""
    if v == 'n' or c == 'n':
        return True                      # NULL is compatible with any constraint
    if isinstance(c, str) or isinstance(v, str):
        return c == v
    if c[0] != v[0]:
        return False
    if c[0] == 't':
        dc, dv = dict(c[1]), dict(v[1])
        if not (set(dc) <= set(dv) or set(dv) <= set(dc)):
            return False
        return all(admits(dc[k], dv[k]) for k in set(dc) & set(dv))
    # lists: every element type of one side is admitted by the other
    ce, ve = c[1], v[1]
    if not ce or not ve:
        return True
    return all(any(admits(x, y) for x in ce) for y in ve) or all(any(admits(x, y) for y in ve) for x in ce)


def exemplar_cases(tier):
    shapes = list(PRIMS)
    tuples = [('t', ()), ('t', (('a', 'i'),)), ('t', (('a', 's'),)), ('t', (('a', 'i'), ('b', 's'))), ('t', (('b', 's'),)), ('t', (('a', 'i'), ('c', 'b')))]
    lists = [('l', ())] + [('l', (a,)) for a in PRIMS] + [('l', (a, c)) for a in PRIMS for c in PRIMS]
    lists3 = [('l', ('i', 'i', 'b')), ('l', ('i', 's', 'b')), ('l', ('b', 'i', 's')), ('l', ('s', 's', 's'))]
    nested = [('t', (('a', ('t', (('x', 'i'),))),)), ('t', (('a', ('t', (('x', 's'),))),)), ('t', (('a', ('l', ('i',))),)), ('l', (('t', (('a', 'i'),)),)), ('l', (('t', (('a', 's'),)),)),
              ('l', (('l', ('i',)),))]
    nested += [('t', (('xs', ('l', ('i', 's'))),)), ('t', (('xs', ('l', ('i', 'b'))),)), ('l', (('l', ('i', 's')),)), ('l', (('l', ('i', 'b')),))]
    small = shapes + tuples + lists[:5] + nested
    cs = []
    for c in small:
        for v in small + ['n']:
            cs.append({'fam': 'exemplars', 'c': c, 'v': v, 'named': False})
    # every pair of list exemplar / list value over the four primitive element types, 0..2 (+ selected 3) element types
    for c in lists + (lists3 if tier != 'quick' else lists3[:2]):
        for v in lists + lists3:
            cs.append({'fam': 'exemplars', 'c': c, 'v': v, 'named': False})
    for c in tuples[1:4] + [('l', ('i', 's')), ('l', ('i',)), ('l', ('s', 'b'))]:
        for v in tuples[:5] + [('l', ('i', 'b')), ('l', ('b', 'i')), ('l', ('i', 's')), ('l', ('s',)), ('l', ())] + ['i']:
            cs.append({'fam': 'exemplars', 'c': c, 'v': v, 'named': True})
    return cs


def build(ctx, text, ints):
    prog = ctx.prog
    ucgrun.install_parse_override(prog)
    ctx.fs['/cwd/conf.ucg'] = text
    ctx.parse_subst = {'ints': ints}
    env = ucgrun.make_env(ctx)
    matches = Agg('ArgMatches', None, (MapV('HashMap').insert('INPUT', VecV(['conf.ucg'])), MapV('HashMap')))
    exited = 0
    try:
        ctx.call('build_command', [matches, VecV([]), True, env])
    except interp.HarnessStop as h:
        exited = h.payload
    stderr = ''.join(e[1] if type(e[1]) is str else repr(e[1]) for e in ctx.events if e[0] == 'stderr')
    return exited == 0, stderr


def harness(ctx, case):
    out = {'reached': True, 'asserts': 1, 'violations': []}
    fam = case['fam']
    if fam == 'ranges':
        ints = {i: ctx.bv('a%d' % i, 64) for i in range(1, case['n'] + 1) if P(i) in case['text']}
        a = {i: ints.get(i, z3.BitVecVal(0, 64)) for i in range(1, 6)}
        ok, stderr = build(ctx, case['text'], ints)
        want = predicate(case['pred'], a)
        good = ctx.valid(want) if ok else ctx.valid(z3.Not(want))
        if not good:
            m = ctx.model(z3.Not(want) if ok else want)
            text = SP.render_text(case['text'], m, ctx, ints)
            out['violations'].append({'key': 'C06:ranges:%s:%s' % ('admits-nonconforming' if ok else 'rejects-conforming', case['name']),
                                      'what': 'the build %s although the value %s — conf.ucg: %r (%s)' % ('succeeds' if ok else 'fails', 'does not conform' if ok else 'conforms', text, stderr[-160:]),
                                      'case': {'kind': 'cli-build', 'text': text}, 'expect_ok': not ok})
        else:
            m = ctx.model()
            out['sample'] = {'form': case['name'], 'builds': ok, 'witness': SP.render_text(case['text'], m, ctx, ints).strip()}
        return out
    if fam == 'floats':
        ok, stderr = build(ctx, case['text'], {})
        if ok != case['ok']:
            out['violations'].append({'key': 'C06:floats:%s' % ('admits-nonconforming' if ok else 'rejects-conforming'),
                                      'what': 'the build %s but should %s — conf.ucg: %r (%s)' % ('succeeds' if ok else 'fails', 'succeed' if case['ok'] else 'fail', case['text'], stderr[-160:]),
                                      'case': {'kind': 'cli-build', 'text': case['text']}, 'expect_ok': case['ok']})
        else:
            out['sample'] = {'text': case['text'].strip(), 'builds': ok}
        return out
    # exemplars
    c, v = case['c'], case['v']
    ctext = render(c, ZERO)
    vtext = render(v, LIT)
    if case['named']:
        text = 'let Shape = %s;\nlet x :: Shape = %s;\n' % (ctext, vtext)
    else:
        text = 'let x :: %s = %s;\n' % (ctext, vtext)
    ok, stderr = build(ctx, text, {})
    want = admits(c, v)
    if ok != want:
        out['violations'].append({'key': 'C06:exemplars:%s:%s' % ('admits-nonconforming' if ok else 'rejects-conforming', shape_class(c, v)),
                                  'what': 'exemplar %s %s value %s but the documented rules say it %s — conf.ucg: %r (%s)' % (ctext, 'admits' if ok else 'rejects', vtext, 'does' if want else 'does not', text, stderr[-200:]),
                                  'case': {'kind': 'cli-build', 'text': text}, 'expect_ok': want})
    else:
        out['sample'] = {'constraint': ctext, 'value': vtext, 'admitted': ok}
    return out


def shape_class(c, v):
    def k(s):
        if isinstance(s, str):
            return s
        if s[0] == 't':
            return 't{' + ','.join(n + ':' + k(x) for n, x in s[1]) + '}'
        return 'l[' + ','.join(k(x) for x in s[1]) + ']'
    return k(c) + '~' + k(v)


def judge(fw, v):
    with tempfile.TemporaryDirectory(prefix='ucg-verif-c06-') as d:
        open(os.path.join(d, 'conf.ucg'), 'w').write(v['case']['text'])
        r = fw.native().cli(['build', 'conf.ucg'], d)
    fw.replayed += 1
    v['native'] = {'rc': r['rc'], 'stderr': r['stderr'][-300:]}
    return (r['rc'] == 0) != bool(v['expect_ok'])


def run(fw):
    cs = range_cases()
    fl = []
    for tmpl, vals in FLOAT_CASES:
        for lit, ok in vals:
            fl.append({'fam': 'floats', 'text': tmpl % lit, 'ok': ok})
    ex = exemplar_cases(fw.tier)
    fw.bounds.update({'range_forms': [c['name'] for c in cs], 'symbolic': 'up to 5 i64 per form (bounds, alternatives, value)', 'float_cases': len(fl), 'exemplar_pairs': len(ex),
                      'exemplar_grammar': 'primitives, NULL, tuples of 0-2 fields (names a,b,c), lists of 0-2 element shapes, nesting <= 2, inline and behind a let-bound name',
                      'outside': 'recursive constraints, func/module shapes as exemplars, symbolic float bounds'})
    fw.oracles.append('inclusive-bounds / any-arm predicate over the symbolic operands; exemplar rules of typechecking.md + property statement (oracle `admits`)')
    fw.explore('ranges', harness, cs, fuel=300_000_000)
    fw.explore('floats', harness, fl, fuel=300_000_000)
    fw.explore('exemplars', harness, ex, fuel=300_000_000)
    for v in fw.violations:
        v['reproduced'] = judge(fw, v)
    fw.assumptions += ['virtual file system / stderr / exit stubs', 'std/alloc builtins (listed)']
    return fw.finish(technique='symbolic execution of the binary crate\'s MIR (parser, checker, translator, VM) with symbolic bounds and values; z3 decides build-succeeds <=> conforms per path; replay with the real binary')


def replay(fw, case):
    v = dict(case)
    return {'violates': bool(judge(fw, v)), 'native': v.get('native')}
