"""C10 — bindings are immutable and lexically scoped.

Engine M on the real parser + translator + VM (MIR). Three families:
  scoping   — skeletons whose function parameters, format `item`, module bodies and later top-level bindings collide
              with outer names; compiled evaluation vs the definitional evaluator (same oracle as C01), symbolic leaves;
  prefix    — every skeleton is also run cut at every statement boundary: each binding made by a prefix must have, under
              the path condition, the same value in the full run (z3 validity per binding) — immutability;
  reserved  — `let <w> = 1;` for every word the reference lists as reserved (list parsed at run time from
              docsite/site/content/reference/_index.md) must be rejected by the real parser or the real VM."""
import os
import re
import sys
import z3

sys.path.insert(0, os.path.join(os.path.dirname(os.path.abspath(__file__)), '..', 'oracle'))
import astb
import symprog as SP
import ucgrun
import ucg_semantics as SEM
import C01
from mirsym import interp
from mirsym.vals import VecV, is_sym
from mirsym.bi_core import sym_eq

P = SP.ph


def skeletons():
    ps = []

    def add(text, n, rebinds=False):
        ps.append({'fam': 'scoping', 'text': text, 'n': n, 'rebinds': rebinds})
    add('let y = %s; let f = func (x) => x + y; let x = %s; let r = f(%s);' % (P(1), P(2), P(3)), 3)
    add('let f = func (x) => x + 1; let r = f(%s); let q = x;' % P(1), 1)
    add('let f = func () => y; let y = %s; let r = f();' % P(1), 1)
    add('let y = %s; let f = func () => y; let g = func (y) => f(); let r = g(%s);' % (P(1), P(2)), 2)
    add('let x = %s; let f = func (x) => x * 2; let a = f(%s); let r = x;' % (P(1), P(2)), 2)
    add('let item = %s; let s = "x" %% %s; let r = item;' % (P(1), P(2)), 2)
    add('let s = "x" %% %s; let r = item;' % P(1), 1)
    add('let s = "@{item}" %% %s; let r = item;' % P(1), 1)
    add('let z = %s; let m = module {x = 1} => { let y = z; }; let r = m{};' % P(1), 1)
    add('let z = %s; let m = module {x = 1} => { let z = mod.x + %s; }; let r = m{}; let q = z;' % (P(1), P(2)), 2)
    add('let m = module {x = %s} => { let x = mod.x + 1; }; let r = m{x = %s}; ' % (P(1), P(2)), 2)
    add('let m = module {x = 1} => { let q = self; }; let base = {a = 1}; let r = base{b = m{}};', 0)
    add('let a = %s; let a = %s;' % (P(1), P(2)), 2)
    add('let a = %s; let f = func (a) => a; let b = f(%s); let a = 3;' % (P(1), P(2)), 2)
    add('let a = %s; let t = {a = %s}; let r = a - t.a;' % (P(1), P(2)), 2)
    add('let a = %s; let t = {b = a}; let u = t{a = %s}; let r = a;' % (P(1), P(2)), 2)
    add('let f = func (x) => func (y) => x - y; let x = %s; let y = %s; let g = f(y); let r = g(x);' % (P(1), P(2)), 2)
    add('let f = func (x) => func (y) => x - y; let g = f(%s); let x = 100; let r = g(%s);' % (P(1), P(2)), 2)
    add('let l = map(func (x) => x + 1, [%s]); let q = x;' % P(1), 1)
    add('let acc = %s; let l = reduce(func (acc, x) => acc + x, 0, [%s]); let r = acc;' % (P(1), P(2)), 2)
    # parameters that carry the name of a built-in binding (env, item) are ordinary parameters
    add('let f = func (env) => env.FOO + 1; let r = f({FOO = %s});' % P(1), 1)
    add('let f = func (env) => env + 1; let r = f(%s);' % P(1), 1)
    add('let f = func (env) => func (y) => env - y; let g = f(%s); let r = g(%s);' % (P(1), P(2)), 2)
    add('let r = map(func (env) => env + 1, [%s]);' % P(1), 1)
    add('let m = module {x = 1} => { let f = func (env) => env + mod.x; let y = f(%s); }; let r = m{}.y;' % P(1), 1)
    add('let f = func (item) => item + 1; let r = f(%s);' % P(1), 1)
    add('let f = func (item) => "v" %% (item); let item = %s; let r = f(%s); let q = item;' % (P(1), P(2)), 2)
    # every statement that binds a name — let, constraint, let with an annotation, let of an import-like expression — refuses a name
    # that is already bound, whatever bound it
    add('let lim = %s; constraint lim = in 1..5; let r = lim;' % P(1), 1, True)
    add('constraint c = in 1..5; constraint c = in 10..20; let y :: c = %s;' % P(1), 1, True)
    add('constraint c = in 1..5; let c = %s; let r = c;' % P(1), 1, True)
    add('let f = func (x) => x + %s; constraint f = 1 | 2; let r = f(1);' % P(1), 1, True)
    add('let a = %s; let a :: int = %s;' % (P(1), P(2)), 2, True)
    add('let a = %s; let b = a; let a = b;' % P(1), 1, True)
    add('let m = module {x = %s} => { let lim = mod.x; constraint lim = in 1..5; }; let r = m{};' % P(1), 1, True)
    add('let m = module {x = %s} => { let y = mod.x; let y = 2; }; let r = m{};' % P(1), 1, True)
    add('let f = func (x) => x; let f = func (y) => y + %s;' % P(1), 1, True)
    add('let t = {a = %s}; constraint t = {a = 1}; let r = t.a;' % P(1), 1, True)
    return ps


def harness_prefix(ctx, case):
    """run the full program and each proper prefix; bindings of a prefix keep their value"""
    prog = ctx.prog
    b = astb.B(prog)
    ucgrun.install_parse_override(prog)
    stmts = ucgrun.parse_ok(ctx, case['text'])
    ints = {i: ctx.bv('a%d' % i, 64) for i in range(1, case['n'] + 1)}
    stmts2 = SP.subst(prog, stmts, ints)
    out = {'reached': False, 'asserts': 0, 'violations': []}
    n = len(stmts2.items)
    k = case['cut']
    try:
        resf, vmf, _ = ucgrun.run_program(ctx, stmts2, env=ucgrun.make_env(ctx))
        resp, vmp, _ = ucgrun.run_program(ctx, VecV(stmts2.items[:k]), env=ucgrun.make_env(ctx))
    except interp.Panic:
        ctx.fail_stack = None
        return out          # panics are C04's subject
    if resp.variant != 0:
        # a failing prefix must make the full program fail too
        out['reached'] = True
        out['asserts'] = 1
        if resf.variant == 0:
            m = ctx.model()
            out['violations'].append({'key': 'C10:prefix:prefix-fails-full-succeeds', 'what': 'the first %d statements fail but the whole program builds: %s' % (k, SP.render_text(case['text'], m, ctx, ints))})
        return out
    names = ctx.call('Stack::symbol_list', [b.field(vmp.slot[0], 'build::opcode::vm::VM', 'symbols')]).items
    out['reached'] = True
    if resf.variant != 0:
        return out
    if case.get('rebinds') and k == case['text'].count(';') - 1:
        # the whole program binds a name twice: it must not build
        out['asserts'] += 1
        m = ctx.model()
        text = SP.render_text(case['text'], m, ctx, ints)
        out['violations'].append({'key': 'C10:prefix:rebinding-accepted', 'what': 'a program that binds a name twice builds: %s' % text,
                                  'case': {'kind': 'eval', 'text': text, 'strict': True}, 'expect': {'ok': False}})
        return out
    for name in names:
        pv = SP.binding(ctx, vmp, name)
        fv = SP.binding(ctx, vmf, name)
        out['asserts'] += 1
        if fv is None:
            c = False
        else:
            c = value_eq(ctx, b, pv, fv)
        if c is True:
            continue
        if c is False or not ctx.valid(c):
            m = ctx.model(None if c is False else z3.Not(c))
            text = SP.render_text(case['text'], m, ctx, ints)
            out['violations'].append({'key': 'C10:prefix:binding-changes', 'what': 'binding %s made by the first %d statements has a different value in the whole program: %s' % (name, k, text),
                                      'case': {'kind': 'prefix', 'text': text, 'cut': k, 'name': name}})
            return out
    out['sample'] = {'text': case['text'], 'cut': k, 'bindings_compared': list(names)}
    return out


def value_eq(ctx, b, x, y):
    """structural equality of two VM values ignoring positions"""
    from mirsym.vals import deref_all
    x = deref_all(x)
    y = deref_all(y)
    xn = b.variant_name(x, 'build::opcode::Value')
    if xn != b.variant_name(y, 'build::opcode::Value'):
        return False
    if xn == 'P':
        return sym_eq(ctx, x.fields[0], y.fields[0])
    if xn == 'C':
        cx, cy = x.fields[0], y.fields[0]
        if cx.variant != cy.variant or len(cx.fields[0].items) != len(cy.fields[0].items):
            return False
        cs = []
        for p, q in zip(cx.fields[0].items, cy.fields[0].items):
            if b.variant_name(cx, 'build::opcode::Composite') == 'Tuple':
                if deref_all(p.fields[0]) != deref_all(q.fields[0]):
                    return False
                e = value_eq(ctx, b, p.fields[1], q.fields[1])
            else:
                e = value_eq(ctx, b, p, q)
            if e is False:
                return False
            if e is not True:
                cs.append(e)
        return z3.And(*cs) if cs else True
    return True     # functions / modules: same kind


def reserved_words(tree):
    text = open(os.path.join(tree, 'docsite/site/content/reference/_index.md'), encoding='utf-8').read()
    i = text.index('reserved in UCG')
    words = re.findall(r'^\* (\S+)\s*$', text[i:], re.M)
    if len(words) < 15:
        raise RuntimeError('reserved word list not found in reference/_index.md')
    return words


def harness_reserved(ctx, case):
    prog = ctx.prog
    ucgrun.install_parse_override(prog)
    out = {'reached': True, 'asserts': 1, 'violations': []}
    w = case['word']
    text = 'let %s = 1;' % w
    r = ucgrun.parse_program(ctx, text)
    if r.variant != 0:
        out['sample'] = {'word': w, 'rejected_by': 'parser'}
        return out
    res, vm, env = ucgrun.run_program(ctx, r.fields[0], env=ucgrun.make_env(ctx))
    if res.variant != 0:
        out['sample'] = {'word': w, 'rejected_by': 'vm'}
        return out
    out['violations'].append({'key': 'C10:reserved:bindable:%s' % w, 'what': 'the documented reserved word `%s` can be bound: %s' % (w, text),
                              'case': {'kind': 'eval', 'text': text, 'strict': True}})
    return out


def run(fw):
    sk = skeletons()
    fw.bounds.update({'skeletons': len(sk), 'symbolic_leaves': '0-3 i64 per skeleton', 'prefix_cuts': 'every statement boundary of every skeleton',
                      'outside': 'programs beyond the skeletons; imports'})
    fw.oracles.append('definitional evaluator (oracle/ucg_semantics.py); reserved-word list parsed from docsite/site/content/reference/_index.md')
    fw.explore('scoping', C01.harness, sk, fuel=30_000_000)
    # prefix consistency
    cases = []
    for s in sk:
        nst = s['text'].count(';')
        for k in range(1, nst):
            c = dict(s)
            c['cut'] = k
            c['fam'] = 'prefix'
            cases.append(c)
    fw.explore('prefix', harness_prefix, cases, fuel=30_000_000)
    words = reserved_words(fw.tree)
    fw.explore('reserved', harness_reserved, [{'word': w} for w in words], fuel=30_000_000)
    for v in fw.violations:
        if v.get('case', {}).get('kind') == 'eval' and v['key'].startswith(('C10:reserved', 'C10:prefix:rebinding-accepted')):
            v['judge'] = lambda out: bool(out.get('ok'))
        elif v.get('case', {}).get('kind') == 'eval':
            v['judge'] = C01.make_judge(v)
        elif v.get('case', {}).get('kind') == 'prefix':
            v['judge'] = None
            v['reproduced'] = replay_prefix(fw, v['case'])
    fw.assumptions += ['std/alloc calls are abstract-datatype builtins (listed)']
    return fw.finish(technique='symbolic execution of rustc MIR (parser kernel, translator, VM) vs definitional evaluator; z3 validity per binding; prefix/full relational check')


def replay_prefix(fw, case):
    text = case['text']
    stm = [s for s in text.split(';') if s.strip()]
    pre = ';'.join(stm[:case['cut']]) + ';'
    outs = fw.native().run_many([{'kind': 'eval', 'text': pre, 'strict': True}, {'kind': 'eval', 'text': text, 'strict': True}])
    fw.replayed += 2
    if not (outs[0].get('ok') and outs[1].get('ok')):
        return bool(outs[0].get('ok')) != bool(outs[1].get('ok')) and not outs[0].get('ok')
    a = dict((n, v) for n, v in outs[0]['val']['v'])
    c = dict((n, v) for n, v in outs[1]['val']['v'])
    return a.get(case['name']) != c.get(case['name'])


def replay(fw, case):
    c = case['case']
    if c.get('kind') == 'prefix':
        return {'violates': replay_prefix(fw, c)}
    out = fw.replay(c)
    if case['key'].startswith('C10:reserved'):
        return {'native': out, 'violates': bool(out.get('ok'))}
    return {'native': out, 'violates': bool(C01.make_judge({'expect': case.get('expect')})(out))}
