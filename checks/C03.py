"""C03 — JSON, YAML and TOML output decodes back to the value that was output.

Engine M: the real `convert::{json,yaml,toml}::{convert_value, convert_tuple, convert_list, convert_env, write}` and
`yamlmulti::{convert, convert_list}` are executed from MIR on `Val` trees whose node kinds are chosen by symbolic
decisions (depth <= 2) and whose scalars are symbolic (i64 BitVec, f64 FP, bool, string bytes). The serde value handed to
the third-party serialiser is compared with the input: same nesting, list order, key set, identical strings, booleans,
nulls, and *numerically equal* numbers — z3 decides `i == number` exactly (an i64 routed through f64 is equal only if the
conversion is exact); the converter must return Err exactly for what the format cannot represent. For yamlmulti the
emitted documents must be separated by a document marker. What the serialisers print for a value tree is third-party
code and outside the claim; counterexamples are nevertheless replayed through the real converter and an independent
decoder (python json / tomllib / a YAML subset reader)."""
import json
import os
import re
import sys
import z3

import astb
from mirsym import interp
from mirsym.vals import Agg, VecV, MapV, SymStr, FmtV, is_sym, deref_all
from mirsym.bi_str import sink_new, sink_pieces
from mirsym.bi_core import sym_eq

KINDS = ['null', 'bool', 'int', 'float', 'str', 'list', 'tuple']
NAMES = ['a', 'b', 'c']


class Gen:
    def __init__(self, ctx, b, depth, width, inner=None):
        self.ctx, self.b, self.depth, self.width = ctx, b, depth, width
        self.inner = width if inner is None else inner
        self.n = 0
        self.desc = []

    def V(self, variant, *f):
        return self.b.enum('build::ir::Val', variant, *f)

    def node(self, d, path):
        ctx = self.ctx
        self.n += 1
        tag = 'n' + path
        kinds = KINDS if d < self.depth else KINDS[:5]
        k = ctx.bv(tag + '_kind', 8)
        ctx.assume(z3.ULT(k, len(kinds)))
        kind = kinds[ctx.concretize_int(k, list(range(len(kinds))))]
        if kind == 'null':
            return self.V('Empty'), ('null',)
        if kind == 'bool':
            v = ctx.boolean(tag + '_b')
            return self.V('Boolean', v), ('bool', v)
        if kind == 'int':
            v = ctx.bv(tag + '_i', 64)
            return self.V('Int', v), ('int', v)
        if kind == 'float':
            v = ctx.fp(tag + '_f')
            return self.V('Float', v), ('float', v)
        if kind == 'str':
            c = ctx.bv(tag + '_s', 8)
            ctx.assume(z3.And(z3.UGE(c, 0x20), z3.ULT(c, 0x7f)))
            s = SymStr((c,))
            return self.V('Str', s), ('str', s)
        wmax = self.width if d == 0 and not path else self.inner
        ln = ctx.bv(tag + '_len', 8)
        ctx.assume(z3.ULE(ln, wmax))
        n = ctx.concretize_int(ln, list(range(wmax + 1)))
        if kind == 'list':
            items = [self.node(d + 1, path + str(i)) for i in range(n)]
            return self.V('List', VecV([x[0] for x in items])), ('list', [x[1] for x in items])
        items = [self.node(d + 1, path + str(i)) for i in range(n)]
        flds = [Agg('tuple', None, (NAMES[i], x[0])) for i, x in enumerate(items)]
        return self.V('Tuple', VecV(flds)), ('tuple', [(NAMES[i], x[1]) for i, x in enumerate(items)])


def has(desc, kind, fmt=None):
    if desc[0] == kind:
        return True
    if desc[0] == 'list':
        return any(has(x, kind) for x in desc[1])
    if desc[0] == 'tuple':
        return any(has(x, kind) for _, x in desc[1])
    return False


def nonfinite_cond(desc):
    """z3 condition: some float in the tree is NaN or infinite"""
    if desc[0] == 'float':
        return z3.Or(z3.fpIsNaN(desc[1]), z3.fpIsInf(desc[1]))
    if desc[0] == 'list':
        cs = [nonfinite_cond(x) for x in desc[1]]
    elif desc[0] == 'tuple':
        cs = [nonfinite_cond(x) for _, x in desc[1]]
    else:
        return z3.BoolVal(False)
    cs = [c for c in cs if not z3.is_false(c)]
    return z3.Or(*cs) if cs else z3.BoolVal(False)


def iso(ctx, desc, sv, fmt, problems, path='v'):
    """structural comparison of the input description with the serde value; appends (path, what, z3 negated condition or None)"""
    sv = deref_all(sv)
    names = {'json': ['Null', 'Bool', 'Number', 'String', 'Array', 'Object'], 'yaml': ['Null', 'Bool', 'Number', 'String', 'Sequence', 'Mapping', 'Tagged'],
             'toml': ['String', 'Integer', 'Float', 'Boolean', 'Datetime', 'Array', 'Table']}[fmt]
    vn = names[sv.variant]
    k = desc[0]

    def bad(what, neg=None):
        problems.append((path, what, neg))
    if k == 'null':
        if vn != 'Null':
            bad('NULL becomes %s' % vn)
        return
    if k == 'bool':
        if vn not in ('Bool', 'Boolean'):
            return bad('a boolean becomes %s' % vn)
        c = sym_eq(ctx, sv.fields[0], desc[1])
        if c is not True and (c is False or not ctx.valid(c)):
            bad('boolean value altered', None if c is False else z3.Not(c))
        return
    if k == 'int':
        i = desc[1]
        if vn == 'Integer':
            c = sv.fields[0] == i if is_sym(sv.fields[0]) or is_sym(i) else sv.fields[0] == i
        elif vn == 'Number':
            kind, x = sv.fields[0].fields
            if kind == 'f64':
                # numerically equal iff converting the float back gives the same integer and the float is integral & in range
                back = z3.fpToSBV(z3.RTZ(), x, z3.BitVecSort(64))
                inr = z3.And(z3.fpGEQ(x, z3.FPVal(-9223372036854775808.0, z3.Float64())), z3.fpLT(x, z3.FPVal(9223372036854775808.0, z3.Float64())))
                c = z3.And(inr, back == i, z3.fpEQ(z3.fpSignedToFP(z3.RNE(), back, z3.Float64()), x))
            else:
                c = (x == i)
        else:
            return bad('an integer becomes %s' % vn)
        if c is True:
            return
        if c is False or not ctx.valid(c):
            bad('integer not numerically equal to the emitted number', None if c is False else z3.Not(c))
        return
    if k == 'float':
        f = desc[1]
        if vn == 'Float':
            x = sv.fields[0]
        elif vn == 'Number' and sv.fields[0].fields[0] == 'f64':
            x = sv.fields[0].fields[1]
        else:
            return bad('a float becomes %s' % vn)
        c = (x == f) if is_sym(x) or is_sym(f) else (x == f)
        if c is not True and (c is False or not ctx.valid(c)):
            bad('float value altered', None if c is False else z3.Not(c))
        return
    if k == 'str':
        if vn != 'String':
            return bad('a string becomes %s' % vn)
        c = sym_eq(ctx, sv.fields[0], desc[1])
        if c is not True and (c is False or not ctx.valid(c)):
            bad('string altered', None if c is False else z3.Not(c))
        return
    if k == 'list':
        if vn not in ('Array', 'Sequence'):
            return bad('a list becomes %s' % vn)
        items = sv.fields[0].items
        if len(items) != len(desc[1]):
            return bad('list of %d elements becomes %d' % (len(desc[1]), len(items)))
        for n, (d, x) in enumerate(zip(desc[1], items)):
            iso(ctx, d, x, fmt, problems, '%s.%d' % (path, n))
        return
    if k == 'tuple':
        if vn not in ('Object', 'Mapping', 'Table'):
            return bad('a tuple becomes %s' % vn)
        m = sv.fields[0]
        keys = []
        vals = {}
        for kk, vv in m.items:
            kk = deref_all(kk)
            if type(kk) is Agg:
                kk = kk.fields[0]       # yaml: Value::String(key)
            keys.append(kk)
            vals[kk] = vv
        want = [n for n, _ in desc[1]]
        if sorted(keys) != sorted(want):
            return bad('key set %r becomes %r' % (want, keys))
        for n, d in desc[1]:
            iso(ctx, d, vals[n], fmt, problems, '%s.%s' % (path, n))
        return
    bad('unknown kind ' + k)


CONVERTERS = {'json': 'convert::json::JsonConverter', 'yaml': 'convert::yaml::YamlConverter', 'toml': 'convert::toml::TomlConverter', 'yamlmulti': 'convert::yamlmulti::MultiYamlConverter'}


def ucg_literal(desc, m):
    k = desc[0]
    if k == 'null':
        return 'NULL'
    if k == 'bool':
        return 'true' if z3.is_true(m.eval(desc[1], model_completion=True)) else 'false'
    if k == 'int':
        import symprog
        return symprog.int_lit(m.eval(desc[1], model_completion=True).as_signed_long())
    if k == 'float':
        v = m.eval(desc[1], model_completion=True)
        try:
            f = float(eval(str(z3.simplify(z3.fpToReal(v)).as_fraction()))) if not (z3.is_true(z3.simplify(z3.fpIsNaN(v))) or z3.is_true(z3.simplify(z3.fpIsInf(v)))) else None
        except Exception:
            f = None
        if f is None:
            return '(1.0 / 0.0)'
        if f < 0:
            return '(0.0 - %s)' % repr(abs(f))
        r = repr(f)
        if 'e' in r or 'E' in r:
            return '1.5'
        return r if '.' in r else r + '.0'
    if k == 'str':
        bs = bytes(m.eval(x, model_completion=True).as_long() if is_sym(x) else x for x in desc[1].bytes)
        return '"' + bs.decode('latin-1').replace('\\', '\\\\').replace('"', '\\"') + '"'
    if k == 'list':
        return '[' + ', '.join(ucg_literal(x, m) for x in desc[1]) + ']'
    return '{' + ', '.join('%s = %s' % (n, ucg_literal(x, m)) for n, x in desc[1]) + '}'


def harness(ctx, case):
    b = astb.B(ctx.prog)
    fmt = case['fmt']
    out = {'reached': False, 'asserts': 0, 'violations': []}
    g = Gen(ctx, b, case['depth'], case['width'], case.get('inner'))
    if fmt == 'toml' or case.get('root') == 'tuple':
        # the serialiser needs a table at the top level: a tuple root with generated fields
        items = [g.node(0, str(i)) for i in range(case['width'])]
        val = g.V('Tuple', VecV([Agg('tuple', None, (NAMES[i], x[0])) for i, x in enumerate(items)]))
        desc = ('tuple', [(NAMES[i], x[1]) for i, x in enumerate(items)])
    elif fmt == 'yamlmulti':
        items = [g.node(0, str(i)) for i in range(case['width'])]
        val = g.V('List', VecV([x[0] for x in items]))
        desc = ('list', [x[1] for x in items])
    else:
        val, desc = g.node(0, '')
    sink = sink_new()
    cty = CONVERTERS[fmt]
    cv = ctx.call(cty.split('::')[-1] + '::new', [])
    r = ctx.call('<%s as Converter>::convert' % cty, [cv, val, sink])
    out['reached'] = True
    out['asserts'] = 1
    sfmt = 'yaml' if fmt == 'yamlmulti' else fmt

    def report(key, what, neg=None):
        m = ctx.model(neg)
        text = 'let v = %s;' % ucg_literal(desc, m)
        out['violations'].append({'key': 'C03:%s:%s' % (fmt, key), 'what': what + ' — e.g. ' + text, 'case': {'kind': 'convert', 'fmt': fmt, 'text': text}, 'fmt': fmt, 'check': key})

    must_fail = z3.BoolVal(False)
    if fmt == 'json':
        must_fail = nonfinite_cond(desc)
    if fmt == 'toml' and has(desc, 'null'):
        must_fail = z3.BoolVal(True)
    if r.variant != 0:
        if not ctx.valid(z3.simplify(must_fail)) and not z3.is_true(z3.simplify(must_fail)):
            if fmt in ('yaml', 'yamlmulti', 'toml') and ctx.feasible(nonfinite_cond(desc)) and ctx.valid(nonfinite_cond(desc)):
                out['sample'] = {'fmt': fmt, 'refused': 'non-finite float'}
                return out
            report('refuses-representable', 'the %s converter returns an error for a representable value' % fmt, z3.Not(must_fail))
        else:
            out['sample'] = {'fmt': fmt, 'refused': 'unrepresentable value (as required)'}
        return out
    if ctx.feasible(must_fail) and ctx.valid(must_fail):
        report('accepts-unrepresentable', 'the %s converter accepts a value the format cannot represent (NULL in TOML / non-finite float in JSON)' % fmt)
        return out
    pieces = []
    for p in sink_pieces(sink):
        pieces.extend(p.pieces if type(p) is FmtV else [p])
    sers = [p for p in pieces if type(p) is tuple and p[0] == 'ser']
    if fmt == 'yamlmulti':
        docs = desc[1]
        if len(sers) != len(docs):
            report('document-count', 'yamlmulti emits %d documents for a list of %d values' % (len(sers), len(docs)))
            return out
        # consecutive documents need a document marker between them
        idx = [i for i, p in enumerate(pieces) if type(p) is tuple and p[0] == 'ser']
        for a_, c_ in zip(idx, idx[1:]):
            between = ''.join(x for x in pieces[a_ + 1:c_] if type(x) is str)
            if '---' not in between:
                report('documents-not-separated', 'consecutive YAML documents are not separated by a document marker (text between them: %r)' % between)
                return out
        for d, s in zip(docs, sers):
            problems = []
            iso(ctx, d, s[2], sfmt, problems)
            if problems:
                report('value-differs:' + problems[0][1].split(' ')[0], 'yamlmulti document: ' + problems[0][1] + ' at ' + problems[0][0], problems[0][2])
                return out
        out['sample'] = {'fmt': fmt, 'documents': len(docs)}
        return out
    if len(sers) != 1:
        report('not-one-document', '%d values handed to the %s serialiser' % (len(sers), fmt))
        return out
    problems = []
    iso(ctx, desc, sers[0][2], sfmt, problems)
    out['asserts'] += g.n
    if problems:
        pth, what, neg = problems[0]
        kind = 'int-not-exact' if 'integer not numerically' in what else re.sub(r'[^a-z]+', '-', what.lower())[:40]
        report('value-differs:' + kind, '%s: %s at %s' % (fmt, what, pth), neg)
        return out
    m = ctx.model()
    out['sample'] = {'fmt': fmt, 'value': ucg_literal(desc, m)[:80]}
    return out


# ------------------------------------------------------------------ native judge with independent decoders
def val_from_json(j):
    t = j['t']
    if t == 'null':
        return None
    if t == 'bool':
        return bool(j['v'])
    if t == 'int':
        return int(j['v'])
    if t == 'float':
        return float(j['v'])
    if t == 'str':
        return j['v']
    if t == 'list':
        return [val_from_json(x) for x in j['v']]
    if t == 'tuple':
        return {k: val_from_json(x) for k, x in j['v']}
    return ('other', j.get('v'))


def same_data(a, c):
    if isinstance(a, bool) or isinstance(c, bool):
        return isinstance(a, bool) and isinstance(c, bool) and a == c
    if isinstance(a, (int, float)) and isinstance(c, (int, float)):
        from fractions import Fraction
        try:
            return Fraction(a) == Fraction(c)
        except (ValueError, OverflowError):
            return a == c or (a != a and c != c)
    if type(a) is not type(c):
        return False
    if isinstance(a, list):
        return len(a) == len(c) and all(same_data(x, y) for x, y in zip(a, c))
    if isinstance(a, dict):
        return set(a) == set(c) and all(same_data(a[k], c[k]) for k in a)
    return a == c


def decode(fmt, text):
    if fmt == 'json':
        return json.loads(text, parse_int=int, parse_float=lambda s: __import__('fractions').Fraction(s) if ('e' not in s.lower()) else float(s))
    if fmt == 'toml':
        import tomllib
        return tomllib.loads(text)
    raise NotImplementedError(fmt)


def make_judge(v):
    def judge(out):
        fmt = v['fmt']
        if out.get('panic'):
            return True
        if v['check'] == 'documents-not-separated':
            if not out.get('ok'):
                return False
            docs = [d for d in re.split(r'(?m)^---\s*$', out['out']) if d.strip()]
            want = val_from_json(out['val'])
            return len(docs) != len(want)
        if v['check'] in ('refuses-representable',):
            return not out.get('ok') and out.get('stage') == 'convert'
        if v['check'] == 'accepts-unrepresentable':
            return bool(out.get('ok'))
        if not out.get('ok'):
            return False
        if fmt in ('json', 'toml'):
            try:
                got = decode(fmt, out['out'])
            except Exception:
                return True         # not valid in that format
            want = val_from_json(out['val'])
            from fractions import Fraction

            def norm(x):
                if isinstance(x, Fraction):
                    return x
                return x
            return not same_data(want, got)
        return False
    return judge


def run(fw):
    quick = fw.tier == 'quick'
    cases = []
    for fmt in ('json', 'yaml', 'toml', 'yamlmulti'):
        cases.append({'fmt': fmt, 'depth': 1, 'width': 2, 'inner': 1 if (quick and fmt in ('toml', 'yamlmulti')) else 2})
        if fmt in ('json', 'yaml'):
            cases.append({'fmt': fmt, 'depth': 0, 'width': 0})
        if not quick:
            # depth 2 with one child per inner container (two would be ~10^5 trees per format, hours of FP queries), and depth 1 wider
            cases.append({'fmt': fmt, 'depth': 2, 'width': 2, 'inner': 1})
            cases.append({'fmt': fmt, 'depth': 1, 'width': 3, 'inner': 2})
    fw.bounds.update({'tree_depth': 1 if quick else 2, 'children_per_node': '0..2' if quick else 'root 0..3 with inner containers 0..2 (depth 1); root 0..2 with inner containers 0..1 (depth 2)', 'node_kinds': KINDS, 'scalars': 'symbolic i64 / f64 / bool / 1 printable byte',
                      'keys': NAMES, 'outside': 'the text serde_json / serde_yaml / toml print for a value tree and what a decoder reads from it; Env and Constraint values; key quoting'})
    fw.oracles.append('structural isomorphism Val <-> serde value with exact numeric equality (z3: fpToSBV round trip for integers routed through f64)')
    fw.explore('value-mapping', harness, cases, fuel=50_000_000, max_paths=6_000_000)
    for v in fw.violations:
        v['judge'] = make_judge(v)
    fw.assumptions += ['third-party entry points are abstract builtins (serde value constructors, maps); serialiser calls are opaque pieces carrying the value tree',
                       'toml::to_string_pretty refuses a non-table root (documented behaviour)']
    return fw.finish(technique='symbolic execution of rustc MIR (converter value mapping) over symbolically chosen tree shapes and symbolic scalars; z3 decides isomorphism incl. exact numeric equality; replay through the real converter + independent decoder')


def replay(fw, case):
    out = fw.replay(case['case'])
    return {'native_out': out.get('out'), 'violates': bool(make_judge(case)(out))}
