"""C17 — syntax and evaluation errors point at the statement that causes them.

Engine M (real parser, translator, VM from MIR). Multi-line programs of 4..6 statements get exactly one fault — unknown
name, run-time type mismatch, missing field, missing index (also with a *symbolic* index), unhandled select case, failed
cast, fail expression, division by a symbolic zero, and a few syntax faults — at every statement position and nesting
slot (direct, tuple field, list element, call argument, select arm, function body called from another statement).
Obligations per path: the error's primary (line, column) lies inside the source span of the faulting statement; for a
fault inside a function body the call stack (VIA) contains a position inside the calling statement; and with k extra
statement lines inserted before, the reported line moves by exactly k."""
import os
import re
import sys
import z3

import astb
import symprog as SP
import ucgrun
from mirsym import interp
from mirsym.vals import Agg, VecV, deref_all

P = SP.ph

FAULTS = {
    'unknown-name': 'nosuchname',
    'type-mismatch': '1 + "s"',
    'missing-field': 'base.zz',
    'missing-index': 'base.y.9',
    'symbolic-index': 'base.y.(%s)' % P(1),
    'unhandled-select': 'select ("q") => {w = 1}',
    'failed-cast': 'int("zz")',
    'fail': 'fail "boom"',
    'div-by-symbolic-zero': '1 / (%s - %s)' % (P(2), P(2)),
    'compare-mismatch': '1 < "s"',
    'call-non-function': 'base.x(1)',
    'bad-copy-type': 'base{x = "s"}',
    # faults whose blamed operand is the *result of a call* of a function defined in another statement
    'cast-of-call-result': 'int(mkstr(1))',
    'add-call-result': '1 + mkstr(2)',
    'not-of-call-result': 'not mkstr(3)',
    'and-of-call-result': 'mkstr(4) && true',
    'copy-field-from-call-result': 'base{x = mkstr(5)}',
    # faults whose blamed operand was *selected* from a composite defined in an earlier statement
    'cast-of-selected-field': 'int(cfg.port)',
    'cast-of-selected-element': 'int(cfg.names.1)',
    'add-selected-field': '1 + cfg.port',
    'not-of-selected-field': 'not cfg.port',
    # a function reached through a selector whose body faults: the calling statement must be in the call stack
    'call-through-selector-faults': 'cfg.conv("abc")',
}
SLOTS = {
    'direct': '{F}',
    'tuple-field': '{\n    k = 1,\n    v = {F},\n}',
    'list-element': '[\n    1,\n    {F},\n    3,\n]',
    'call-argument': 'ident(\n    {F}\n)',
    'select-arm': 'select ("w", 0) => {\n    w = {F},\n}',
    'binary-right': '1 +\n    ({F})',
}
PRELUDE = 'let base = {\n    x = 1,\n    y = [1, 2, 3],\n};\nlet ident = func (p) =>\n    p;\nlet mkstr = func (p) =>\n    "zz";\nlet cfg = {\n    port = "eighty",\n    names = ["a", "b"],\n    conv = func (p) =>\n        int(p),\n};\n'
EXTRA = 'let pad1 = 1;\nlet pad2 = {\n    q = 2,\n};\n'


def make_program(fault, slot, where, extra_before):
    """-> (text, (first_line, last_line) of the faulting statement, (first,last) of the calling statement or None)"""
    F = FAULTS[fault]
    stmts = []
    if where == 'func-body':
        body = SLOTS[slot].replace('{F}', F)
        stmts.append('let broken = func (p) =>\n    %s;\n' % body.replace('\n', '\n    '))
        stmts.append('let fine = 2;\n')
        stmts.append('let r =\n    broken(1);\n')
        fault_idx, call_idx = 0, 2
    else:
        target = 'let r =\n    %s;\n' % SLOTS[slot].replace('{F}', F).replace('\n', '\n    ')
        others = ['let before = base.x + 1;\n', 'let after = [\n    base.x,\n];\n']
        if where == 'first':
            stmts = [target] + others
            fault_idx = 0
        elif where == 'middle':
            stmts = [others[0], target, others[1]]
            fault_idx = 1
        else:
            stmts = others + [target]
            fault_idx = 2
        call_idx = None
    pre = (EXTRA if extra_before else '') + PRELUDE
    line = pre.count('\n') + 1
    spans = []
    for s in stmts:
        n = s.count('\n')
        spans.append((line, line + n - 1))
        line += n
    if fault == 'call-through-selector-faults' and where != 'func-body':
        # the fault is inside cfg.conv (defined in the prelude); the statement written here is the *calling* statement
        pl = pre.split('\n')
        a = pl.index('let cfg = {') + 1
        z = a + pl[a - 1:].index('};')
        return pre + ''.join(stmts), (a, z), spans[fault_idx]
    return pre + ''.join(stmts), spans[fault_idx], (spans[call_idx] if call_idx is not None else None)


SYNTAX = [('missing-expression', 'let r =\n    ;\n'), ('missing-name', 'let\n    = 1;\n'), ('missing-equals', 'let r\n    1;\n'),
          ('unclosed-list', 'let r = [\n    1,\n    2;\n'), ('unclosed-tuple', 'let r = {\n    a = 1,\n    b = ;\n};\n'), ('dangling-operator', 'let r = 1 +\n    ;\n'),
          ('bad-select', 'let r = select (1) =>\n    [1];\n')]


def cases(tier):
    cs = []
    faults = list(FAULTS)
    for fault in faults:
        for slot in SLOTS:
            for where in ('first', 'middle', 'last', 'func-body'):
                if tier == 'quick':
                    # every fault kind in three slots and two placements; one fault kind per slot keeps the other slots covered
                    k = faults.index(fault)
                    if not ((slot in ('direct', 'call-argument') and where in ('middle', 'func-body')) or (slot == 'tuple-field' and where == 'last')
                            or (list(SLOTS).index(slot) == k % len(SLOTS) and where == 'first')):
                        continue
                if fault == 'call-through-selector-faults' and where == 'func-body':
                    continue
                cs.append({'fam': 'eval', 'fault': fault, 'slot': slot, 'where': where})
    for name, text in SYNTAX:
        for where in ('first', 'middle', 'last'):
            cs.append({'fam': 'syntax', 'fault': name, 'text': text, 'where': where})
    return cs


def pos_lc(b, p):
    return (b.field(p, 'ast::Position', 'line'), b.field(p, 'ast::Position', 'column'))


def run_one(ctx, b, text, ints):
    """-> ('ok'|'err'|'parse-err', (line, col) or None, [call stack (line, col)])"""
    r = ucgrun.parse_program(ctx, text)
    if r.variant != 0:
        e = r.fields[0]
        pos = b.field(e, 'error::BuildError', 'pos')
        return 'parse-err', (pos_lc(b, pos.fields[0]) if pos.variant == 1 else None), []
    stmts = SP.subst(ctx.prog, r.fields[0], ints)
    res, vm, env = ucgrun.run_program(ctx, stmts, env=ucgrun.make_env(ctx))
    if res.variant == 0:
        return 'ok', None, []
    e = res.fields[0]
    pos = b.field(e, 'build::opcode::error::Error', 'pos')
    cs = [pos_lc(b, p) for p in b.field(e, 'build::opcode::error::Error', 'call_stack').items]
    return 'err', (pos_lc(b, pos.fields[0]) if pos.variant == 1 else None), cs


def harness(ctx, case):
    prog = ctx.prog
    b = astb.B(prog)
    ucgrun.install_parse_override(prog)
    out = {'reached': True, 'asserts': 0, 'violations': []}
    ints = {1: ctx.bv('a1', 64), 2: ctx.bv('a2', 64)}
    if case['fam'] == 'syntax':
        others = ['let before = 1;\n', 'let after = [\n    2,\n];\n']
        t = case['text']
        stmts = {'first': [t] + others, 'middle': [others[0], t, others[1]], 'last': others + [t]}[case['where']]
        idx = {'first': 0, 'middle': 1, 'last': 2}[case['where']]
        line = 1
        spans = []
        for s in stmts:
            n = s.count('\n')
            spans.append((line, line + n - 1))
            line += n
        text = ''.join(stmts)
        span, call_span = spans[idx], None
        text2 = EXTRA + text
    else:
        text, span, call_span = make_program(case['fault'], case['slot'], case['where'], False)
        text2, span2, _ = make_program(case['fault'], case['slot'], case['where'], True)
    if case.get('fault') == 'symbolic-index':
        ctx.assume(z3.Or(ints[1] < 0, ints[1] > 2))        # the symbolic index is out of range: this *is* the single fault
    kind, pos, stack = run_one(ctx, b, text, ints)

    def report(key, what):
        m = ctx.model()
        t = SP.render_text(text, m, ctx, ints)
        out['violations'].append({'key': 'C17:%s:%s:%s:%s' % (key, case['fault'], case.get('slot', 'syntax'), case['where']), 'what': what + ' — program:\n' + t,
                                  'case': {'kind': 'eval', 'text': t, 'strict': True}, 'span': list(span), 'call_span': list(call_span) if call_span else None, 'check': key})

    out['asserts'] += 1
    if kind == 'ok':
        raise interp.Unsupported('the injected fault %s does not make the program fail' % case['fault'])
    if pos is None:
        report('no-position', 'the diagnostic carries no position')
        return out
    if not (span[0] <= pos[0] <= span[1]):
        report('outside-statement', 'the %s diagnostic points at line %d column %d, but the faulting statement spans lines %d-%d' % (case['fault'], pos[0], pos[1], span[0], span[1]))
        return out
    if call_span is not None:
        out['asserts'] += 1
        if not any(call_span[0] <= p[0] <= call_span[1] for p in stack):
            report('call-site-missing', 'fault inside a function body: the call stack %r has no position in the calling statement (lines %d-%d)' % (stack, call_span[0], call_span[1]))
            return out
    # stability under insertion of unrelated statements before
    k = EXTRA.count('\n')
    kind2, pos2, stack2 = run_one(ctx, b, text2, ints)
    out['asserts'] += 1
    if kind2 != kind or pos2 is None or pos2[0] != pos[0] + k or pos2[1] != pos[1]:
        report('position-moves', 'with %d unrelated lines inserted before, the diagnostic moves from %r to %r (expected line + %d, same column)' % (k, pos, pos2, k))
        return out
    out['sample'] = {'fault': case['fault'], 'slot': case.get('slot'), 'where': case['where'], 'reported': pos, 'statement_lines': span, 'via': stack}
    return out


def make_judge(v):
    def judge(out):
        # native diagnostic text: "... at line: N column: M" (+ VIA lines)
        if out.get('ok') or out.get('panic'):
            return bool(out.get('panic'))
        err = out.get('err', '')
        ms = re.findall(r'line: (\d+),? column: (\d+)', err)
        if not ms:
            return v['check'] == 'no-position'
        first = (int(ms[0][0]), int(ms[0][1]))
        if v['check'] == 'outside-statement':
            return not (v['span'][0] <= first[0] <= v['span'][1])
        if v['check'] == 'call-site-missing':
            return not any(v['call_span'][0] <= int(l) <= v['call_span'][1] for l, c in ms[1:])
        return True
    return judge


def run(fw):
    cs = cases(fw.tier)
    fw.bounds.update({'fault_kinds': list(FAULTS) + [n for n, _ in SYNTAX], 'nesting_slots': list(SLOTS) + ['func-body (called from another statement)'], 'statement_positions': ['first', 'middle', 'last'],
                      'programs': len(cs), 'symbolic': 'list index and zero divisor are symbolic i64', 'inserted_lines': EXTRA.count('\n'),
                      'outside': 'the rendered diagnostic text, multi-file VIA chains, errors found only by the static checker, columns within multi-line statements'})
    fw.explore('faults', harness, cs, fuel=100_000_000)
    for v in fw.violations:
        v['judge'] = make_judge(v)
    fw.assumptions += ['std/alloc builtins (listed)', 'evaluation through translate + VM::run (the eval_string path); the static checker is not in this harness']
    return fw.finish(technique='symbolic execution of rustc MIR (parser, translator, VM) on fault-injected multi-line programs; position-in-span, call-stack and shift obligations per path; native replay')


def replay(fw, case):
    out = fw.replay(case['case'])
    return {'native': out, 'violates': bool(make_judge(case)(out))}
