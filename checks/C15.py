"""C15 — included data files decode to the data they contain.

Engine M. (1) The real mapping functions `json::convert_json_val`, `yaml::{convert_yaml_val, merge_mapping_keys}` and
`toml::convert_toml_val` are reached through the real `Importer::import` with the third-party decoders
(`serde_json::from_slice` ...) replaced by a stub that returns a *planted* serde value tree: node kinds from symbolic
decisions (depth <= 2), numbers symbolic in every representation the crate has (i64 / u64 / f64). Obligation, by z3 on
every path: the resulting `Val` is isomorphic — integers that fit i64 stay integers of the same value, every other number
becomes a float of equal value, strings/booleans/nulls identical, list order and keys kept.
(2) The real include hook through whole programs on the virtual file system: `include str` yields the file's bytes
unchanged (symbolic bytes), `include b64|b64urlsafe` calls the standard resp. URL-safe engine on exactly the file's bytes,
an unknown include type, an importer error (planted) and a missing file are build errors.
The decoders (text -> serde value) and base64 itself are third-party code and outside the claim."""
import os
import sys
import z3

import astb
import symprog as SP
import ucgrun
from mirsym import interp
from mirsym.vals import Agg, VecV, MapV, SymStr, FmtV, is_sym, deref_all
from mirsym.bi_core import sym_eq

NAMES = ['a', 'b', 'c']
ENUM = {'json': ('serde_json::Value', ['Null', 'Bool', 'Number', 'String', 'Array', 'Object']),
        'yaml': ('serde_yaml::Value', ['Null', 'Bool', 'Number', 'String', 'Sequence', 'Mapping', 'Tagged']),
        'toml': ('toml::Value', ['String', 'Integer', 'Float', 'Boolean', 'Datetime', 'Array', 'Table'])}
IMPORTERS = {'json': 'convert::json::JsonConverter', 'yaml': 'convert::yaml::YamlConverter', 'toml': 'convert::toml::TomlConverter'}


class Gen:
    def __init__(self, ctx, fmt, depth, width):
        self.ctx, self.fmt, self.depth, self.width = ctx, fmt, depth, width
        self.ty, self.names = ENUM[fmt]
        self.n = 0

    def mk(self, vname, *f):
        return Agg(self.ty, self.names.index(vname), f)

    def choose(self, tag, options):
        k = self.ctx.bv(tag, 8)
        self.ctx.assume(z3.ULT(k, len(options)))
        return options[self.ctx.concretize_int(k, list(range(len(options))))]

    def node(self, d, path):
        """-> (serde value, reference description)"""
        ctx = self.ctx
        self.n += 1
        tag = 'n' + path
        scal = ['null', 'bool', 'i64', 'u64', 'f64', 'str'] if self.fmt != 'toml' else ['bool', 'i64', 'f64', 'str']
        kinds = scal + (['list', 'map'] if d < self.depth else [])
        kind = self.choose(tag + '_k', kinds)
        if kind == 'null':
            return self.mk('Null'), ('null',)
        if kind == 'bool':
            v = ctx.boolean(tag + '_b')
            return self.mk('Bool' if self.fmt != 'toml' else 'Boolean', v), ('bool', v)
        if kind == 'str':
            c = ctx.bv(tag + '_s', 8)
            ctx.assume(z3.And(z3.UGE(c, 0x20), z3.ULT(c, 0x7f)))
            s = SymStr((c,))
            return self.mk('String', s), ('str', s)
        if kind in ('i64', 'u64', 'f64'):
            if kind == 'f64':
                v = ctx.fp(tag + '_f')
                ctx.assume(z3.Not(z3.Or(z3.fpIsNaN(v), z3.fpIsInf(v))))
                ref = ('float', v)
            else:
                v = ctx.bv(tag + '_n', 64)
                if kind == 'i64':
                    ref = ('int', v)
                else:
                    # an unsigned number: an integer when it fits i64, otherwise a float of equal value
                    ref = ('uint', v)
            if self.fmt == 'toml':
                return (self.mk('Integer', v) if kind != 'f64' else self.mk('Float', v)), ref
            return self.mk('Number', Agg('Number', None, (kind, v))), ref
        n = self.choose(tag + '_len', list(range(self.width + 1)))
        kids = [self.node(d + 1, path + str(i)) for i in range(n)]
        if kind == 'list':
            return self.mk('Array' if self.fmt != 'yaml' else 'Sequence', VecV([k[0] for k in kids])), ('list', [k[1] for k in kids])
        if self.fmt == 'yaml':
            # YAML keys need not be plain words, or strings at all: the first key of every mapping is a symbolic choice among a plain
            # name, texts an emitter would have to quote, a one-byte symbolic string, a boolean, null and an integer
            m = MapV('HashMap')
            keys = []
            for i, k in enumerate(kids):
                kk, kname = self.mk('String', NAMES[i]), NAMES[i]
                if i == 0:
                    form = self.choose(tag + '_key', ['plain', 'empty', 'digits', 'true-text', 'tilde', 'colon-space', 'dash', 'quote', 'sym', 'bool', 'null', 'int'])
                    if form == 'sym':
                        c = ctx.bv(tag + '_kb', 8)
                        ctx.assume(z3.And(z3.UGE(c, 0x20), z3.ULT(c, 0x7f), c != ord('b'), c != ord('c')))
                        kk, kname = self.mk('String', SymStr((c,))), SymStr((c,))
                    elif form == 'bool':
                        kk, kname = self.mk('Bool', True), 'true'
                    elif form == 'null':
                        kk, kname = self.mk('Null'), 'null'
                    elif form == 'int':
                        kk, kname = self.mk('Number', Agg('Number', None, ('i64', 5))), '5'
                    elif form != 'plain':
                        t = {'empty': '', 'digits': '123', 'true-text': 'true', 'tilde': '~', 'colon-space': 'a: b', 'dash': '- x', 'quote': "it's"}[form]
                        kk, kname = self.mk('String', t), t
                m = m.insert(kk, k[0])
                keys.append(kname)
            return self.mk('Mapping', m), ('map', [(keys[i], k[1]) for i, k in enumerate(kids)])
        m = MapV('BTreeMap')
        for i, k in enumerate(kids):
            m = m.insert(NAMES[i], k[0])
        return self.mk('Object' if self.fmt == 'json' else 'Table', m), ('map', [(NAMES[i], k[1]) for i, k in enumerate(kids)])


def check_iso(ctx, b, ref, val, problems, path='v'):
    v = deref_all(val)
    vn = b.variant_name(v, 'build::ir::Val')
    k = ref[0]

    def bad(what, neg=None):
        problems.append((path, what, neg))

    def decide(c, what):
        if c is True:
            return
        if c is False or not ctx.valid(c):
            bad(what, None if c is False else z3.Not(c))
    if k == 'null':
        if vn != 'Empty':
            bad('null becomes %s' % vn)
        return
    if k == 'bool':
        if vn != 'Boolean':
            return bad('a boolean becomes %s' % vn)
        return decide(sym_eq(ctx, v.fields[0], ref[1]), 'boolean altered')
    if k == 'str':
        if vn != 'Str':
            return bad('a string becomes %s' % vn)
        return decide(sym_eq(ctx, v.fields[0], ref[1]), 'string altered')
    if k == 'int':
        if vn != 'Int':
            return bad('an integer becomes %s (integers must stay integers)' % vn)
        return decide(v.fields[0] == ref[1], 'integer value altered')
    if k == 'uint':
        u = ref[1]
        fits = u >= 0        # as i64 pattern: top bit clear
        if vn == 'Int':
            return decide(z3.And(fits, v.fields[0] == u), 'an unsigned number above i64::MAX becomes an integer / value altered')
        if vn == 'Float':
            return decide(z3.And(z3.Not(fits), v.fields[0] == z3.fpUnsignedToFP(z3.RNE(), u, z3.Float64())), 'an unsigned number becomes a float although it fits i64, or the value is altered')
        return bad('a number becomes %s' % vn)
    if k == 'float':
        if vn != 'Float':
            return bad('a non-integer number becomes %s' % vn)
        return decide(v.fields[0] == ref[1], 'float value altered')
    if k == 'list':
        if vn != 'List':
            return bad('a list becomes %s' % vn)
        items = v.fields[0].items
        if len(items) != len(ref[1]):
            return bad('list length changes')
        for i, (r, x) in enumerate(zip(ref[1], items)):
            check_iso(ctx, b, r, x, problems, '%s.%d' % (path, i))
        return
    if k == 'map':
        if vn != 'Tuple':
            return bad('a mapping becomes %s' % vn)
        flds = v.fields[0].items
        got = [deref_all(f.fields[0]) for f in flds]
        want = [n for n, _ in ref[1]]
        if any(type(x) is not str for x in got + want):
            # a symbolic key: fields are compared in document order, names byte for byte
            if len(got) != len(want):
                return bad('keys %r become %r' % (want, got))
            for g_, w_, f, (n, r) in zip(got, want, flds, ref[1]):
                e = sym_eq(ctx, g_, w_)
                if e is False or (e is not True and not ctx.valid(e)):
                    return bad('keys %r become %r' % (want, got), None if e is False else z3.Not(e))
                check_iso(ctx, b, r, f.fields[1], problems, '%s.%s' % (path, n))
            return
        if sorted(got) != sorted(want) or len(got) != len(want):
            return bad('keys %r become %r' % (want, got))
        d = dict((deref_all(f.fields[0]), f.fields[1]) for f in flds)
        for n, r in ref[1]:
            check_iso(ctx, b, r, d[n], problems, '%s.%s' % (path, n))
        return
    bad('unknown reference kind')


def harness_mapping(ctx, case):
    b = astb.B(ctx.prog)
    fmt = case['fmt']
    g = Gen(ctx, fmt, case['depth'], case['width'])
    sv, ref = g.node(0, '')
    data = 'DOC'
    ctx.planted_parse = {({'json': 'serde_json', 'yaml': 'serde_yaml', 'toml': 'toml'}[fmt], data): sv}
    cty = IMPORTERS[fmt]
    imp = Agg(cty, None, ())
    out = {'reached': True, 'asserts': g.n, 'violations': []}
    r = ctx.call('<%s as Importer>::import' % cty, [imp, data.encode()])
    if r.variant != 0:
        out['violations'].append({'key': 'C15:%s:mapping-fails' % fmt, 'what': 'the %s importer fails on a decodable document (%s)' % (fmt, describe(ref)), 'reproduced': True})
        return out
    problems = []
    check_iso(ctx, b, ref, r.fields[0], problems)
    if problems:
        pth, what, neg = problems[0]
        m = ctx.model(neg)
        v = {'key': 'C15:%s:value-differs:%s' % (fmt, what.split(' ')[1] if ' ' in what else what), 'what': '%s include: %s at %s — document %s' % (fmt, what, pth, describe(ref, m)),
             'reproduced': True}
        if fmt == 'yaml' and what.startswith('keys '):
            text, keys = ref_to_yaml(ref, m)
            v = dict(v, key='C15:yaml:key-names-differ', reproduced=None, case={'kind': 'cli-include-yaml', 'yaml': text, 'expect_keys': keys})
        out['violations'].append(v)
    else:
        out['sample'] = {'fmt': fmt, 'document': describe(ref, ctx.model())[:100]}
    return out


def concrete_key(n, m):
    if type(n) is str:
        return n
    return bytes(m.eval(x, model_completion=True).as_long() if is_sym(x) else x for x in n.bytes).decode('latin-1')


def ref_to_yaml(ref, m, keyforms=None):
    """YAML (flow style, JSON-compatible scalars) for a reference document under a model, and the nested key names it must decode to"""
    import json
    k = ref[0]
    if k == 'null':
        return 'null', None
    if k == 'list':
        parts = [ref_to_yaml(x, m) for x in ref[1]]
        return '[' + ', '.join(p[0] for p in parts) + ']', ('list', [p[1] for p in parts])
    if k == 'map':
        items, keys = [], []
        for n, x in ref[1]:
            t, sub = ref_to_yaml(x, m)
            name = concrete_key(n, m)
            items.append('%s: %s' % (json.dumps(name), t))
            keys.append((name, sub))
        return '{' + ', '.join(items) + '}', ('map', keys)
    if k == 'str':
        return json.dumps(concrete_key(ref[1], m)), None
    if k == 'bool':
        v = ref[1]
        return ('true' if (z3.is_true(m.eval(v, model_completion=True)) if is_sym(v) else v) else 'false'), None
    return '0', None        # numbers: the key question does not depend on them


def keys_of_json(v):
    if isinstance(v, dict):
        return ('map', [(k, keys_of_json(x)) for k, x in v.items()])
    if isinstance(v, list):
        return ('list', [keys_of_json(x) for x in v])
    return None


def judge_keys(fw, v):
    """a key-name violation ran through the model of serde_yaml's scalar emitter (third-party, approximated): replay through the
    real binary — include the YAML text, write it out as JSON, compare the key names"""
    import json
    import tempfile
    c = v['case']
    with tempfile.TemporaryDirectory(prefix='ucg-verif-c15-') as d:
        open(os.path.join(d, 'data.yaml'), 'w').write(c['yaml'] + '\n')
        open(os.path.join(d, 'conf.ucg'), 'w').write('let v = include yaml "data.yaml";\nout json {doc = v};\n')
        r = fw.native().cli(['build', 'conf.ucg'], d)
        got = None
        if os.path.exists(os.path.join(d, 'conf.json')):
            got = json.load(open(os.path.join(d, 'conf.json')), object_pairs_hook=lambda ps: dict(ps))
    fw.replayed += 1
    v['native'] = {'rc': r['rc'], 'stderr': r['stderr'][-200:], 'json': got}
    if got is None:
        return True

    def norm(x):
        # document order of keys is not compared here (JSON objects written by serde_json are sorted)
        if x is None:
            return None
        if x[0] == 'map':
            return ('map', sorted((k, norm(s)) for k, s in x[1]))
        return ('list', [norm(s) for s in x[1]])
    return norm(keys_of_json(got['doc'])) != norm(c['expect_keys'])


def describe(ref, m=None):
    k = ref[0]
    if k in ('null',):
        return 'null'
    if k in ('list',):
        return '[' + ', '.join(describe(x, m) for x in ref[1]) + ']'
    if k == 'map':
        return '{' + ', '.join('%s: %s' % (n, describe(x, m)) for n, x in ref[1]) + '}'
    if m is None:
        return k
    if k == 'str':
        return repr(bytes(m.eval(x, model_completion=True).as_long() if is_sym(x) else x for x in ref[1].bytes).decode('latin-1'))
    v = m.eval(ref[1], model_completion=True)
    if k == 'int':
        return str(v.as_signed_long())
    if k == 'uint':
        return str(v.as_long()) + 'u'
    return '%s(%s)' % (k, v)


# ------------------------------------------------------------------ the include hook through programs
def hook_cases():
    cs = []
    for L in (0, 1, 3):
        cs.append({'fam': 'hook', 'name': 'str-%d' % L, 'text': 'let v = include str "data.txt";\n', 'content_len': L, 'expect': 'str'})
    cs.append({'fam': 'hook', 'name': 'b64', 'text': 'let v = include b64 "data.txt";\n', 'content_len': 2, 'expect': 'b64:STANDARD'})
    cs.append({'fam': 'hook', 'name': 'b64urlsafe', 'text': 'let v = include b64urlsafe "data.txt";\n', 'content_len': 2, 'expect': 'b64:URL_SAFE'})
    cs.append({'fam': 'hook', 'name': 'unknown-type', 'text': 'let v = include nosuchtype "data.txt";\n', 'content_len': 1, 'expect': 'error'})
    cs.append({'fam': 'hook', 'name': 'missing-file', 'text': 'let v = include str "nosuch.txt";\n', 'content_len': 1, 'expect': 'error'})
    cs.append({'fam': 'hook', 'name': 'missing-file-json', 'text': 'let v = include json "nosuch.json";\n', 'content_len': 1, 'expect': 'error'})
    for fmt in ('json', 'yaml', 'toml'):
        cs.append({'fam': 'hook', 'name': 'malformed-' + fmt, 'text': 'let v = include %s "data.txt";\n' % fmt, 'content_len': 2, 'expect': 'error', 'plant_error': fmt})
        cs.append({'fam': 'hook', 'name': 'wellformed-' + fmt, 'text': 'let v = include %s "data.txt";\nlet w = v.a;\n' % fmt, 'content_len': 2, 'expect': 'planted', 'plant_value': fmt})
    cs.append({'fam': 'hook', 'name': 'include-in-func', 'text': 'let f = func () => include str "data.txt";\nlet v = f();\n', 'content_len': 2, 'expect': 'str'})
    return cs


def harness_hook(ctx, case):
    prog = ctx.prog
    b = astb.B(prog)
    ucgrun.install_parse_override(prog)
    out = {'reached': True, 'asserts': 1, 'violations': []}
    bs = []
    for j in range(case['content_len']):
        c = ctx.bv('d%d' % j, 8)
        ctx.assume(z3.And(z3.UGE(c, 0x20), z3.ULT(c, 0x7f)))
        bs.append(c)
    content = SymStr(bs) if bs else ''
    ctx.fs['/wd/data.txt'] = content
    crate = {'json': 'serde_json', 'yaml': 'serde_yaml', 'toml': 'toml'}
    planted = {}
    key_text = '*'
    if case.get('plant_error'):
        planted[(crate[case['plant_error']], key_text)] = ('error', 'syntax error at line 1')
    if case.get('plant_value'):
        fmt = case['plant_value']
        ty, names = ENUM[fmt]
        inner = Agg(ty, names.index('String'), ('x',))
        if fmt == 'yaml':
            mp = MapV('HashMap').insert(Agg(ty, names.index('String'), ('a',)), inner)
            planted[(crate[fmt], key_text)] = Agg(ty, names.index('Mapping'), (mp,))
        else:
            planted[(crate[fmt], key_text)] = Agg(ty, names.index('Object' if fmt == 'json' else 'Table'), (MapV('BTreeMap').insert('a', inner),))
    ctx.planted_parse = planted
    stmts = ucgrun.parse_ok(ctx, case['text'])
    res, vm, env = ucgrun.run_program(ctx, stmts, env=ucgrun.make_env(ctx), wd='/wd')
    exp = case['expect']

    def report(key, what):
        out['violations'].append({'key': 'C15:hook:%s:%s' % (key, case['name']), 'what': what + ' — program %r' % case['text'], 'reproduced': True})
    if exp == 'error':
        if res.variant == 0:
            report('error-not-reported', 'the build succeeds although the include must fail')
        else:
            out['sample'] = {'case': case['name'], 'rejected': True}
        return out
    if res.variant != 0:
        report('include-fails', 'the include fails: %r' % (res.fields[0],))
        return out
    v = deref_all(SP.binding(ctx, vm, 'v'))
    if exp == 'str':
        good = False
        if b.variant_name(v, 'build::opcode::Value') == 'P' and b.variant_name(v.fields[0], 'build::opcode::Primitive') == 'Str':
            c = sym_eq(ctx, v.fields[0].fields[0], content)
            good = c is True or (c is not False and ctx.valid(c))
        if not good:
            report('text-altered', 'include str does not yield the file\'s text unchanged: %r' % (v,))
        else:
            out['sample'] = {'case': case['name'], 'text': 'byte-identical (z3 valid)'}
        return out
    if exp.startswith('b64:'):
        s = v.fields[0].fields[0] if b.variant_name(v, 'build::opcode::Value') == 'P' else None
        pieces = s.pieces if type(s) is FmtV else ()
        ok_ = False
        if len(pieces) == 1 and type(pieces[0]) is tuple and pieces[0][0] == 'b64':
            eng = pieces[0][1].fields[0]
            data = pieces[0][2]
            c = sym_eq(ctx, data, content) if type(data) in (str, SymStr) else sym_eq(ctx, SymStr(tuple(data.items)) if type(data) is VecV else data, content)
            ok_ = eng == exp[4:] and (c is True or (c is not False and ctx.valid(c)))
        if not ok_:
            report('wrong-encoding', 'include %s does not call the %s base64 engine on the file\'s bytes: %r' % (case['name'], exp[4:], s))
        else:
            out['sample'] = {'case': case['name'], 'engine': exp[4:]}
        return out
    if exp == 'planted':
        w = deref_all(SP.binding(ctx, vm, 'w'))
        if not (b.variant_name(w, 'build::opcode::Value') == 'P' and w.fields[0].fields and w.fields[0].fields[0] == 'x'):
            report('decoded-value-lost', 'the decoded document does not reach the program: v.a = %r' % (w,))
        else:
            out['sample'] = {'case': case['name'], 'v.a': 'x'}
    return out


def run(fw):
    quick = fw.tier == 'quick'
    cases = []
    for fmt in ('json', 'yaml', 'toml'):
        cases.append({'fam': 'mapping', 'fmt': fmt, 'depth': 1, 'width': 2})
        if not quick:
            cases.append({'fam': 'mapping', 'fmt': fmt, 'depth': 2, 'width': 2})
    fw.bounds.update({'tree_depth': 1 if quick else 2, 'children': '0..2', 'numbers': 'symbolic i64 / u64 / finite f64 in each representation the crate offers', 'strings': 'one symbolic printable byte',
                      'hook_programs': len(hook_cases()), 'file_content': '0..3 symbolic printable bytes',
                      'yaml_keys': 'first key of every mapping: plain, empty, digits, true, ~, "a: b", "- x", "it\'s", one symbolic byte, boolean, null, integer',
                      'outside': 'the decoders (text -> serde value) and base64 itself; YAML anchors / merge keys / tags; empty files'})
    fw.explore('mapping', harness_mapping, cases, fuel=50_000_000, max_paths=600000)
    seen = 0
    for v in fw.violations:
        if v.get('case', {}).get('kind') == 'cli-include-yaml':
            # one native replay per distinct document, at most 12
            seen += 1
            v['reproduced'] = judge_keys(fw, v) if seen <= 12 else None
    fw.explore('hook', harness_hook, hook_cases(), fuel=50_000_000)
    fw.assumptions += ['serde_json/serde_yaml/toml from_slice return a planted value tree (or a planted error) for the file\'s bytes; base64 encode is an opaque piece recording engine and data',
                       'virtual file system']
    return fw.finish(technique='symbolic execution of rustc MIR (importers and include hook) over symbolically chosen serde value trees with symbolic numbers; z3 decides isomorphism and integer/float classification')


def replay(fw, case):
    return {'violates': True, 'note': 'decided on the MIR of the working tree: rerun ./check C15'}
