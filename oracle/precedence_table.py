"""Oracle for C02: the published precedence table, parsed at run time from the reference documentation of the working
tree (docsite/site/content/reference/expressions.md). Rows are matched to operator kinds by their *description*
column; the row the table spells `=~` is the regex-match operator the tokenizer and the property spell `~`."""
import html
import os
import re

DESC_TO_KIND = {
    'Equality Comparison': 'Equal', 'Inequality Comparison': 'NotEqual', 'Greater Than or Equal': 'GTEqual',
    'Less Than or Equal': 'LTEqual', 'Regex Match': 'REMatch', 'Negated Regex Match': 'NotREMatch',
    'Contains field or item': 'IN', 'Type check': 'IS', 'Sum or concatenation': 'Add', 'Subtraction': 'Sub',
    'Product': 'Mul', 'Division': 'Div', 'Modulus': 'Mod', 'And': 'AND', 'Or': 'OR', 'Dot Selector': 'DOT',
}
# spellings as listed in the property statement (C02): . * / %% + - in is == != >= <= < > ~ !~ && ||
SPELLING = {'DOT': '.', 'Mul': '*', 'Div': '/', 'Mod': '%%', 'Add': '+', 'Sub': '-', 'IN': 'in', 'IS': 'is', 'Equal': '==',
            'NotEqual': '!=', 'GTEqual': '>=', 'LTEqual': '<=', 'LT': '<', 'GT': '>', 'REMatch': '~', 'NotREMatch': '!~',
            'AND': '&&', 'OR': '||'}


def load(tree):
    p = os.path.join(tree, 'docsite/site/content/reference/expressions.md')
    text = open(p, encoding='utf-8').read()
    i = text.index('**Precedence table**')
    tab = text[i:text.index('</table>', i)]
    levels = {}
    for m in re.finditer(r'<tr><td>(.*?)</td><td>(\d+)</td><td>(.*?)</td></tr>', tab):
        op, lvl, desc = html.unescape(m.group(1)), int(m.group(2)), m.group(3).strip()
        if desc in DESC_TO_KIND:
            levels[DESC_TO_KIND[desc]] = lvl
        elif desc in ('Greater Than', 'Less Than'):
            # the table swaps the two descriptions; both are comparison operators of the same row group
            levels['LT' if op == '<' else 'GT'] = lvl
    if len(levels) != 18:
        raise RuntimeError('precedence table: expected 18 operators, parsed %d: %s' % (len(levels), sorted(levels)))
    return levels


def climb(kinds, levels):
    """reference grouping (precedence climbing, equal levels left to right) -> nested tuple (kind, left, right) over
    leaves 0..n"""
    pos = [0]

    def parse(lhs, minp):
        while pos[0] < len(kinds) and levels[kinds[pos[0]]] >= minp:
            op = kinds[pos[0]]
            pos[0] += 1
            rhs = pos[0]    # leaf index = number of operators consumed
            while pos[0] < len(kinds) and levels[kinds[pos[0]]] > levels[op]:
                rhs = parse(rhs, levels[kinds[pos[0]]])
            lhs = (op, lhs, rhs)
        return lhs
    return parse(0, 0)


def sexpr(t, leaf=lambda i: 'a%d' % (i + 1)):
    if isinstance(t, int):
        return leaf(t)
    return '(%s %s %s)' % (t[0], sexpr(t[1], leaf), sexpr(t[2], leaf))
