"""Oracle for C01/C07/C10/C17/C19: a big-step *definitional* evaluator of the UCG expression language, written from the
published reference (docsite/site/content/reference/{expressions,statements,types}.md), never from the VM.

It evaluates the AST values produced by the real parser (mirsym Agg trees, navigated by field *name* through the
struct/enum tables of the working tree) over possibly symbolic leaves: integers are z3 BitVec(64) or python int, booleans
z3 Bool or python bool, floats python float or z3 FP. Where evaluation has to branch on a symbolic condition it asks
`ctx.branch`, i.e. it forks the path exactly like the implementation does.

Where the reference is silent the evaluator follows the behaviour pinned by the repository's own integration tests
(every assert of integration_tests/*.ucg and std/tests/*.ucg must come out true under it — checked by the self test).
Documented choices:
  * integers are signed 64-bit; overflow, division by zero and i64::MIN / -1 are evaluation errors;
  * `==`/`!=` need operands of the same type unless one side is NULL; tuples compare equal only with the same fields in the
    same order (expressions.md: "must have their fields in the same order to compare as equal");
  * `<,>,<=,>=` only on two ints or two floats; `+` on two ints, floats, strings or lists; `- * / %%` on ints or floats;
  * `&&`/`||` need a boolean left operand; the right operand is evaluated only if needed and must then be boolean."""
import z3

from mirsym.vals import Agg, VecV, SymStr, is_sym


class EvalError(Exception):
    """the program fails to evaluate (a build error), with the AST position it is attributed to when known"""
    def __init__(self, msg, pos=None, kind='error'):
        Exception.__init__(self, msg)
        self.msg = msg
        self.pos = pos
        self.kind = kind


class OracleUnsupported(Exception):
    """construct outside the evaluator (import/include/out/convert ...): the comparison is skipped, never guessed"""


I64_MIN = -(1 << 63)
I64_MAX = (1 << 63) - 1


def bv(v):
    return v if is_sym(v) else z3.BitVecVal(v, 64)


def zb(v):
    return v if is_sym(v) else z3.BoolVal(bool(v))


class Ev:
    def __init__(self, ctx, b):
        self.ctx = ctx
        self.b = b
        self.src = b.src
        self.depth = 0
        self.trace = []

    # ------------------------------------------------------------ AST navigation by name
    def vname(self, v, ty):
        return self.src.enum_variants(ty)[v.variant][0]

    def f(self, v, ty, name):
        return v.fields[self.src.struct_fields(ty).index(name)]

    def tok(self, t):
        return self.f(t, 'ast::Token', 'fragment')

    def tok_type(self, t):
        return self.vname(self.f(t, 'ast::Token', 'typ'), 'ast::TokenType')

    def pos_of(self, e):
        """(line, column) of an expression node"""
        en = self.vname(e, 'ast::Expression')
        if en == 'Simple':
            return self.value_pos(e.fields[0])
        if en == 'Grouped':
            return self.pos_lc(e.fields[1])
        if en == 'FuncOp':
            d = e.fields[0].fields[0]
            return self.pos_lc(d.fields[-1])
        d = e.fields[0]
        ty = d.ty
        fs = self.src.struct_fields(ty)
        return self.pos_lc(d.fields[fs.index('pos')])

    def value_pos(self, v):
        vn = self.vname(v, 'ast::Value')
        if vn == 'Empty':
            return self.pos_lc(v.fields[0])
        if vn == 'List':
            return self.pos_lc(self.f(v.fields[0], 'ast::ListDef', 'pos'))
        return self.pos_lc(self.f(v.fields[0], 'ast::PositionedItem', 'pos'))

    def pos_lc(self, p):
        return (self.f(p, 'ast::Position', 'line'), self.f(p, 'ast::Position', 'column'))

    # ------------------------------------------------------------ statements
    def run(self, stmts, env=None):
        """-> (env dict name->value in binding order, last expression value or None)"""
        env = dict(env or {})
        last = None
        for s in stmts.items if type(stmts) is VecV else stmts:
            sn = self.vname(s, 'ast::Statement')
            if sn == 'Let':
                d = s.fields[0]
                name = self.tok(self.f(d, 'ast::LetDef', 'name'))
                cons = self.f(d, 'ast::LetDef', 'constraint')
                if cons.variant == 1:
                    raise OracleUnsupported('constraint annotation')
                if name in env:
                    raise EvalError('binding %s already exists' % name, self.pos_lc(self.f(d, 'ast::LetDef', 'pos')), 'rebind')
                val = self.eval(self.f(d, 'ast::LetDef', 'value'), env)
                env[name] = val
                last = val
            elif sn == 'Expression':
                last = self.eval(s.fields[0], env)
            elif sn == 'Assert':
                self.eval(s.fields[1], env)
            else:
                raise OracleUnsupported('statement ' + sn)
        return env, last

    # ------------------------------------------------------------ expressions
    def eval(self, e, env):
        self.depth += 1
        if self.depth > 200:
            raise OracleUnsupported('evaluation depth')
        try:
            return self._eval(e, env)
        finally:
            self.depth -= 1

    def _eval(self, e, env):
        en = self.vname(e, 'ast::Expression')
        m = getattr(self, 'e_' + en, None)
        if m is None:
            raise OracleUnsupported('expression ' + en)
        return m(e, env)

    def e_Simple(self, e, env):
        return self.value(e.fields[0], env)

    def e_Grouped(self, e, env):
        return self.eval(e.fields[0], env)

    def value(self, v, env):
        vn = self.vname(v, 'ast::Value')
        if vn == 'Empty':
            return ('null',)
        item = v.fields[0]
        if vn == 'Int':
            return ('int', self.f(item, 'ast::PositionedItem', 'val'))
        if vn == 'Float':
            return ('float', self.f(item, 'ast::PositionedItem', 'val'))
        if vn == 'Boolean':
            return ('bool', self.f(item, 'ast::PositionedItem', 'val'))
        if vn == 'Str':
            return ('str', self.f(item, 'ast::PositionedItem', 'val'))
        if vn == 'Symbol':
            name = self.f(item, 'ast::PositionedItem', 'val')
            if name not in env:
                if name == 'env':
                    raise OracleUnsupported('process environment')
                raise EvalError('no such binding %s' % name, self.value_pos(v), 'unknown-name')
            return env[name]
        if vn == 'Tuple':
            return self.tuple_lit(self.f(item, 'ast::PositionedItem', 'val'), env)
        if vn == 'List':
            return ('list', [self.eval(x, env) for x in self.f(item, 'ast::ListDef', 'elems').items])
        raise OracleUnsupported('value ' + vn)

    def field_name(self, t):
        return self.tok(t)

    def tuple_lit(self, fieldlist, env):
        out = []
        for fld in fieldlist.items:
            name_tok, cons, expr = fld.fields
            if cons.variant == 1:
                raise OracleUnsupported('field constraint')
            name = self.field_name(name_tok)
            val = self.eval(expr, env)
            # a later field with the same name replaces the earlier one (tuples are sets of named fields)
            for i, (n, _) in enumerate(out):
                if n == name:
                    out[i] = (name, val)
                    break
            else:
                out.append((name, val))
        return ('tuple', out)

    def e_Not(self, e, env):
        d = e.fields[0]
        v = self.eval(self.f(d, 'ast::NotDef', 'expr'), env)
        if v[0] != 'bool':
            raise EvalError('not expects a boolean', self.pos_lc(self.f(d, 'ast::NotDef', 'pos')), 'type')
        x = v[1]
        return ('bool', z3.Not(x) if is_sym(x) else (not x))

    def e_Debug(self, e, env):
        return self.eval(self.f(e.fields[0], 'ast::DebugDef', 'expr'), env)

    def e_Fail(self, e, env):
        d = e.fields[0]
        v = self.eval(self.f(d, 'ast::FailDef', 'message'), env)
        if v[0] != 'str':
            raise EvalError('fail message must be a string', self.pos_lc(self.f(d, 'ast::FailDef', 'pos')), 'type')
        raise EvalError('UserDefined: %s' % (v[1],), self.pos_lc(self.f(d, 'ast::FailDef', 'pos')), 'fail')

    # ---- binary
    def e_Binary(self, e, env):
        d = e.fields[0]
        kind = self.vname(self.f(d, 'ast::BinaryOpDef', 'kind'), 'ast::BinaryExprType')
        left = self.f(d, 'ast::BinaryOpDef', 'left')
        right = self.f(d, 'ast::BinaryOpDef', 'right')
        pos = self.pos_lc(self.f(d, 'ast::BinaryOpDef', 'pos'))
        if kind == 'DOT':
            return self.select_path(self.eval(left, env), right, env, pos)
        if kind in ('AND', 'OR'):
            l = self.eval(left, env)
            if l[0] != 'bool':
                raise EvalError('%s expects a boolean' % kind, pos, 'type')
            lv = self.ctx.branch(l[1])
            if (kind == 'AND' and not lv) or (kind == 'OR' and lv):
                return ('bool', lv)
            r = self.eval(right, env)
            if r[0] != 'bool':
                raise EvalError('%s expects a boolean' % kind, pos, 'type')
            return r
        if kind == 'IN':
            return self.op_in(left, self.eval(right, env), env, pos)
        if kind == 'IS':
            return self.op_is(self.eval(left, env), right, env, pos)
        l = self.eval(left, env)
        r = self.eval(right, env)
        return self.binop(kind, l, r, pos)

    def binop(self, kind, l, r, pos):
        if kind in ('Add', 'Sub', 'Mul', 'Div', 'Mod'):
            return self.arith(kind, l, r, pos)
        if kind in ('Equal', 'NotEqual'):
            if l[0] != r[0] and l[0] != 'null' and r[0] != 'null':
                raise EvalError('== expects values of the same type', pos, 'type')
            eq = self.equal(l, r)
            if kind == 'NotEqual':
                eq = z3.Not(eq) if is_sym(eq) else (not eq)
            return ('bool', eq)
        if kind in ('GT', 'LT', 'GTEqual', 'LTEqual'):
            if l[0] == 'int' and r[0] == 'int':
                a, c = l[1], r[1]
                if not is_sym(a) and not is_sym(c):
                    return ('bool', {'GT': a > c, 'LT': a < c, 'GTEqual': a >= c, 'LTEqual': a <= c}[kind])
                a, c = bv(a), bv(c)
                return ('bool', {'GT': a > c, 'LT': a < c, 'GTEqual': a >= c, 'LTEqual': a <= c}[kind])
            if l[0] == 'float' and r[0] == 'float':
                a, c = l[1], r[1]
                if not is_sym(a) and not is_sym(c):
                    return ('bool', {'GT': a > c, 'LT': a < c, 'GTEqual': a >= c, 'LTEqual': a <= c}[kind])
                fa = a if is_sym(a) else z3.FPVal(a, z3.Float64())
                fc = c if is_sym(c) else z3.FPVal(c, z3.Float64())
                return ('bool', {'GT': z3.fpGT, 'LT': z3.fpLT, 'GTEqual': z3.fpGEQ, 'LTEqual': z3.fpLEQ}[kind](fa, fc))
            raise EvalError('comparison expects numeric values of the same type', pos, 'type')
        if kind in ('REMatch', 'NotREMatch'):
            raise OracleUnsupported('regex operators')
        raise OracleUnsupported('binary ' + kind)

    def arith(self, kind, l, r, pos):
        if l[0] == 'int' and r[0] == 'int':
            a, c = l[1], r[1]
            if not is_sym(a) and not is_sym(c):
                if kind in ('Div', 'Mod'):
                    if c == 0 or (a == I64_MIN and c == -1):
                        raise EvalError('division by zero or overflow', pos, 'arith')
                    q = abs(a) // abs(c) * (1 if (a >= 0) == (c >= 0) else -1)
                    res = q if kind == 'Div' else a - q * c
                else:
                    res = {'Add': a + c, 'Sub': a - c, 'Mul': a * c}[kind]
                if not I64_MIN <= res <= I64_MAX:
                    raise EvalError('integer overflow', pos, 'arith')
                return ('int', res)
            a, c = bv(a), bv(c)
            if kind == 'Add':
                bad = z3.Not(z3.And(z3.BVAddNoOverflow(a, c, True), z3.BVAddNoUnderflow(a, c)))
                res = a + c
            elif kind == 'Sub':
                bad = z3.Not(z3.And(z3.BVSubNoOverflow(a, c), z3.BVSubNoUnderflow(a, c, True)))
                res = a - c
            elif kind == 'Mul':
                bad = z3.Not(z3.And(z3.BVMulNoOverflow(a, c, True), z3.BVMulNoUnderflow(a, c)))
                res = a * c
            else:
                bad = z3.Or(c == 0, z3.And(a == z3.BitVecVal(I64_MIN, 64), c == z3.BitVecVal(-1, 64)))
                res = (a / c) if kind == 'Div' else z3.SRem(a, c)
            if self.ctx.branch(bad):
                raise EvalError('integer overflow or division by zero', pos, 'arith')
            return ('int', res)
        if l[0] == 'float' and r[0] == 'float':
            a, c = l[1], r[1]
            if not is_sym(a) and not is_sym(c):
                from mirsym.interp import binop as _bo
                return ('float', _bo({'Add': 'Add', 'Sub': 'Sub', 'Mul': 'Mul', 'Div': 'Div', 'Mod': 'Rem'}[kind], a, c, None, True))
            fa = a if is_sym(a) else z3.FPVal(a, z3.Float64())
            fc = c if is_sym(c) else z3.FPVal(c, z3.Float64())
            if kind == 'Mod':
                raise OracleUnsupported('symbolic float remainder')
            op = {'Add': z3.fpAdd, 'Sub': z3.fpSub, 'Mul': z3.fpMul, 'Div': z3.fpDiv}[kind]
            return ('float', op(z3.RNE(), fa, fc))
        if kind == 'Add' and l[0] == 'str' and r[0] == 'str':
            return ('str', concat_str(l[1], r[1]))
        if kind == 'Add' and l[0] == 'list' and r[0] == 'list':
            return ('list', l[1] + r[1])
        raise EvalError('operands of %s must be of the same numeric (or, for +, string/list) type' % kind, pos, 'type')

    def equal(self, l, r):
        """deep equality -> python bool or z3 Bool"""
        if l[0] != r[0]:
            return False
        k = l[0]
        if k == 'null':
            return True
        if k == 'int':
            a, c = l[1], r[1]
            return (a == c) if not (is_sym(a) or is_sym(c)) else bv(a) == bv(c)
        if k == 'bool':
            a, c = l[1], r[1]
            return (a == c) if not (is_sym(a) or is_sym(c)) else zb(a) == zb(c)
        if k == 'float':
            a, c = l[1], r[1]
            if not (is_sym(a) or is_sym(c)):
                return a == c
            fa = a if is_sym(a) else z3.FPVal(a, z3.Float64())
            fc = c if is_sym(c) else z3.FPVal(c, z3.Float64())
            return z3.fpEQ(fa, fc)
        if k == 'str':
            if l[1] is None or r[1] is None:
                raise OracleUnsupported('comparison of unmodelled text')
            return str_equal(l[1], r[1])
        if k == 'list':
            if len(l[1]) != len(r[1]):
                return False
            return conj([self.equal(a, c) for a, c in zip(l[1], r[1])])
        if k == 'tuple':
            if len(l[1]) != len(r[1]):
                return False
            cs = []
            for (n1, v1), (n2, v2) in zip(l[1], r[1]):
                if n1 != n2:
                    return False        # same fields *in the same order* (expressions.md)
                cs.append(self.equal(v1, v2))
            return conj(cs)
        if k in ('func', 'module'):
            return l is r
        return False

    def op_in(self, left_expr, container, env, pos):
        if container[0] == 'tuple':
            # `foo in tpl` / `"foo" in tpl`: the left side names a field
            en = self.vname(left_expr, 'ast::Expression')
            name = None
            if en == 'Simple':
                v = left_expr.fields[0]
                vn = self.vname(v, 'ast::Value')
                if vn in ('Symbol', 'Str'):
                    name = self.f(v.fields[0], 'ast::PositionedItem', 'val')
            if name is None:
                lv = self.eval(left_expr, env)
                if lv[0] != 'str':
                    raise EvalError('in on a tuple expects a field name', pos, 'type')
                name = lv[1]
            return ('bool', any(n == name for n, _ in container[1]))
        if container[0] == 'list':
            lv = self.eval(left_expr, env)
            cs = [self.equal(lv, x) for x in container[1]]
            if any(c is True for c in cs):
                return ('bool', True)
            cs = [c for c in cs if c is not False]
            return ('bool', z3.Or(*cs) if cs else False)
        raise EvalError('in expects a tuple or a list', pos, 'type')

    TYPE_NAMES = {'null': 'null', 'str': 'str', 'int': 'int', 'float': 'float', 'tuple': 'tuple', 'list': 'list', 'func': 'func', 'module': 'module', 'bool': 'bool'}

    def op_is(self, val, right_expr, env, pos):
        rv = self.eval(right_expr, env)
        if rv[0] != 'str':
            raise EvalError('is expects a type name string', pos, 'type')
        if rv[1] not in ('null', 'str', 'int', 'float', 'tuple', 'list', 'func', 'module', 'bool'):
            raise EvalError('unknown type name %r' % (rv[1],), pos, 'type')
        return ('bool', self.TYPE_NAMES[val[0]] == rv[1])

    # ---- selectors
    def select_path(self, base, right, env, pos):
        """`base . right` where right is a field name, a string, an index or a grouped expression"""
        en = self.vname(right, 'ast::Expression')
        key = None
        if en == 'Call':
            # `t.f(args)`: call the function selected from t; arguments are evaluated in the current scope
            d = right.fields[0]
            cpos = self.pos_lc(self.f(d, 'ast::CallDef', 'pos'))
            fn = self.select_value(base, self.f(d, 'ast::CallDef', 'funcref'), env, pos)
            args = [self.eval(a, env) for a in self.f(d, 'ast::CallDef', 'arglist').items]
            return self.call(fn, args, cpos)
        if en == 'Copy':
            # `t.x{...}`: copy of the tuple / module selected from t
            d = right.fields[0]
            cpos = self.pos_lc(self.f(d, 'ast::CopyDef', 'pos'))
            target = self.select_value(base, self.f(d, 'ast::CopyDef', 'selector'), env, pos)
            return self.copy_of(target, self.f(d, 'ast::CopyDef', 'fields'), env, cpos)
        if en == 'Binary' and self.vname(self.f(right.fields[0], 'ast::BinaryOpDef', 'kind'), 'ast::BinaryExprType') == 'DOT':
            d = right.fields[0]
            inner = self.select_path(base, self.f(d, 'ast::BinaryOpDef', 'left'), env, pos)
            return self.select_path(inner, self.f(d, 'ast::BinaryOpDef', 'right'), env, pos)
        if en == 'Simple':
            v = right.fields[0]
            vn = self.vname(v, 'ast::Value')
            if vn in ('Symbol', 'Str'):
                key = ('str', self.f(v.fields[0], 'ast::PositionedItem', 'val'))
            elif vn == 'Int':
                key = ('int', self.f(v.fields[0], 'ast::PositionedItem', 'val'))
        if key is None:
            key = self.eval(right, env)
        return self.index(base, key, pos)

    def select_value(self, base, v, env, pos):
        vn = self.vname(v, 'ast::Value')
        if vn in ('Symbol', 'Str'):
            return self.index(base, ('str', self.f(v.fields[0], 'ast::PositionedItem', 'val')), pos)
        if vn == 'Int':
            return self.index(base, ('int', self.f(v.fields[0], 'ast::PositionedItem', 'val')), pos)
        raise OracleUnsupported('selector value ' + vn)

    def index(self, base, key, pos):
        if base[0] == 'tuple':
            if key[0] != 'str':
                raise EvalError('tuple fields are selected by name', pos, 'type')
            for n, v in base[1]:
                if n == key[1]:
                    return v
            raise EvalError('no such field %r' % (key[1],), pos, 'missing-field')
        if base[0] == 'list':
            if key[0] != 'int':
                raise EvalError('list elements are selected by index', pos, 'type')
            i = key[1]
            n = len(base[1])
            if is_sym(i):
                inr = z3.And(i >= 0, i < n)
                if not self.ctx.branch(inr):
                    raise EvalError('index out of range', pos, 'missing-index')
                i = self.ctx.concretize_int(i, list(range(n)))
            if not 0 <= i < n:
                raise EvalError('index out of range', pos, 'missing-index')
            return base[1][i]
        raise EvalError('selector on a value that is neither tuple nor list', pos, 'type')

    # ---- casts
    def e_Cast(self, e, env):
        d = e.fields[0]
        t = self.vname(self.f(d, 'ast::CastDef', 'cast_type'), 'ast::CastType')
        v = self.eval(self.f(d, 'ast::CastDef', 'target'), env)
        pos = self.pos_lc(self.f(d, 'ast::CastDef', 'pos'))
        raise OracleUnsupported('cast %s' % t)

    # ---- select
    def e_Select(self, e, env):
        d = e.fields[0]
        pos = self.pos_lc(self.f(d, 'ast::SelectDef', 'pos'))
        sv = self.eval(self.f(d, 'ast::SelectDef', 'val'), env)
        if sv[0] == 'bool':
            key = 'true' if self.ctx.branch(sv[1]) else 'false'
        elif sv[0] == 'str':
            key = sv[1]
        else:
            key = None      # names no field: the default applies ("if the field selected is not in the tuple ...")
        for fld in self.f(d, 'ast::SelectDef', 'tuple').items:
            name_tok, cons, expr = fld.fields
            if self.field_name(name_tok) == key:
                return self.eval(expr, env)
        dflt = self.f(d, 'ast::SelectDef', 'default')
        if dflt.variant == 1:
            return self.eval(dflt.fields[0], env)
        raise EvalError('unhandled select case %r' % (key,), pos, 'select')

    # ---- copy
    def e_Copy(self, e, env):
        d = e.fields[0]
        pos = self.pos_lc(self.f(d, 'ast::CopyDef', 'pos'))
        base = self.value(self.f(d, 'ast::CopyDef', 'selector'), env)
        fields = self.f(d, 'ast::CopyDef', 'fields')
        return self.copy_of(base, fields, env, pos)

    def copy_of(self, base, fields, env, pos):
        if base[0] == 'tuple':
            out = list(base[1])
            env2 = dict(env)
            for fld in fields.items:
                name_tok, cons, expr = fld.fields
                if cons.variant == 1:
                    raise OracleUnsupported('field constraint')
                name = self.field_name(name_tok)
                env2['self'] = base         # `self` is the base tuple of the copy
                val = self.eval(expr, env2)
                for i, (n, old) in enumerate(out):
                    if n == name:
                        if old[0] != val[0] and old[0] != 'null' and val[0] != 'null':
                            raise EvalError('copy: field %s must keep its type' % name, self.pos_of(expr), 'type')
                        out[i] = (name, val)
                        break
                else:
                    out.append((name, val))
            return ('tuple', out)
        if base[0] == 'module':
            return self.instantiate(base, fields, env, pos)
        raise EvalError('copy expects a tuple or a module', pos, 'type')

    # ---- functions
    def e_Func(self, e, env):
        d = e.fields[0]
        params = []
        for a in self.f(d, 'ast::FuncDef', 'argdefs').items:
            item, cons = a.fields
            if cons.variant == 1:
                raise OracleUnsupported('argument constraint')
            params.append(self.f(item, 'ast::PositionedItem', 'val'))
        return ('func', params, self.f(d, 'ast::FuncDef', 'fields'), dict(env))

    def call(self, fn, args, pos):
        if fn[0] != 'func':
            raise EvalError('call of a value that is not a function', pos, 'type')
        _, params, body, closure = fn
        if len(params) != len(args):
            raise EvalError('function expects %d arguments, got %d' % (len(params), len(args)), pos, 'arity')
        env = dict(closure)
        for p, a in zip(params, args):
            env[p] = a
        try:
            return self.eval(body, env)
        except EvalError as ee:
            ee.via = getattr(ee, 'via', []) + [pos]
            raise

    def e_Call(self, e, env):
        d = e.fields[0]
        pos = self.pos_lc(self.f(d, 'ast::CallDef', 'pos'))
        fn = self.value(self.f(d, 'ast::CallDef', 'funcref'), env)
        args = [self.eval(a, env) for a in self.f(d, 'ast::CallDef', 'arglist').items]
        return self.call(fn, args, pos)

    # ---- modules
    def e_Module(self, e, env):
        d = e.fields[0]
        params = []
        for fld in self.f(d, 'ast::ModuleDef', 'arg_set').items:
            name_tok, cons, expr = fld.fields
            if cons.variant == 1:
                raise OracleUnsupported('module parameter constraint')
            params.append((self.field_name(name_tok), self.eval(expr, env)))
        out_expr = self.f(d, 'ast::ModuleDef', 'out_expr')
        if self.f(d, 'ast::ModuleDef', 'out_constraint').variant == 1:
            raise OracleUnsupported('module out constraint')
        return ('module', params, self.f(d, 'ast::ModuleDef', 'statements'), out_expr)

    def instantiate(self, mod, fields, env, pos):
        _, params, stmts, out_expr = mod
        args = list(params)
        env2 = dict(env)
        for fld in fields.items:
            name_tok, cons, expr = fld.fields
            name = self.field_name(name_tok)
            env2['self'] = ('tuple', list(params))
            val = self.eval(expr, env2)
            for i, (n, old) in enumerate(args):
                if n == name:
                    if old[0] != val[0] and old[0] != 'null' and val[0] != 'null':
                        raise EvalError('module parameter %s must keep its type' % name, self.pos_of(expr), 'type')
                    args[i] = (name, val)
                    break
            else:
                args.append((name, val))
        # the body sees only `mod` (its parameters plus `this`), never the surrounding file
        modt = ('tuple', args + [('this', mod)])
        try:
            menv, _ = self.run(stmts, {'mod': modt})
        except EvalError as ee:
            ee.via = getattr(ee, 'via', []) + [pos]
            raise
        if out_expr.variant == 1:
            return self.eval(out_expr.fields[0], menv)
        return ('tuple', [(k, v) for k, v in menv.items() if k != 'mod'])

    # ---- ranges
    def e_Range(self, e, env):
        d = e.fields[0]
        pos = self.pos_lc(self.f(d, 'ast::RangeDef', 'pos'))
        start = self.eval(self.f(d, 'ast::RangeDef', 'start'), env)
        stepo = self.f(d, 'ast::RangeDef', 'step')
        step = self.eval(stepo.fields[0], env) if stepo.variant == 1 else ('int', 1)
        end = self.eval(self.f(d, 'ast::RangeDef', 'end'), env)
        if not (start[0] == step[0] == end[0] == 'int'):
            raise EvalError('ranges are built from ints', pos, 'type')
        a, s, b_ = start[1], step[1], end[1]
        if is_sym(s):
            if not self.ctx.branch(s > 0):
                raise EvalError('range step must be positive', pos, 'range')
        elif s <= 0:
            raise EvalError('range step must be positive', pos, 'range')
        out = []
        cur = a
        for _ in range(64):
            c = (cur <= b_) if not (is_sym(cur) or is_sym(b_)) else bv(cur) <= bv(b_)
            if not self.ctx.branch(c):
                return ('list', out)
            out.append(('int', cur))
            nxt_bad = z3.Not(z3.And(z3.BVAddNoOverflow(bv(cur), bv(s), True), z3.BVAddNoUnderflow(bv(cur), bv(s))))
            if self.ctx.branch(z3.simplify(nxt_bad)):
                return ('list', out)
            cur = z3.simplify(bv(cur) + bv(s)) if (is_sym(cur) or is_sym(s)) else cur + s
        raise OracleUnsupported('range longer than 64')

    # ---- map / filter / reduce
    def e_FuncOp(self, e, env):
        d = e.fields[0]
        kind = self.vname(d, 'ast::FuncOpDef')
        inner = d.fields[0]
        if kind == 'Reduce':
            fn = self.eval(self.f(inner, 'ast::ReduceOpDef', 'func'), env)
            acc = self.eval(self.f(inner, 'ast::ReduceOpDef', 'acc'), env)
            target = self.eval(self.f(inner, 'ast::ReduceOpDef', 'target'), env)
            pos = self.pos_lc(self.f(inner, 'ast::ReduceOpDef', 'pos'))
            if target[0] == 'list':
                for x in target[1]:
                    acc = self.call(fn, [acc, x], pos)
                return acc
            if target[0] == 'tuple':
                for n, v in target[1]:
                    acc = self.call(fn, [acc, ('str', n), v], pos)
                return acc
            if target[0] == 'str':
                for ch in chars(target[1]):
                    acc = self.call(fn, [acc, ('str', ch)], pos)
                return acc
            raise EvalError('reduce expects a list, tuple or string', pos, 'type')
        fn = self.eval(self.f(inner, 'ast::MapFilterOpDef', 'func'), env)
        target = self.eval(self.f(inner, 'ast::MapFilterOpDef', 'target'), env)
        pos = self.pos_lc(self.f(inner, 'ast::MapFilterOpDef', 'pos'))
        if kind == 'Map':
            if target[0] == 'list':
                return ('list', [self.call(fn, [x], pos) for x in target[1]])
            if target[0] == 'tuple':
                out = []
                for n, v in target[1]:
                    r = self.call(fn, [('str', n), v], pos)
                    if r[0] != 'list' or len(r[1]) != 2 or r[1][0][0] != 'str':
                        raise EvalError('tuple map function must return [name, value]', pos, 'type')
                    nn = r[1][0][1]
                    for i, (k, _) in enumerate(out):
                        if k == nn:
                            out[i] = (nn, r[1][1])
                            break
                    else:
                        out.append((nn, r[1][1]))
                return ('tuple', out)
            if target[0] == 'str':
                out = ''
                for ch in chars(target[1]):
                    r = self.call(fn, [('str', ch)], pos)
                    if r[0] != 'str':
                        raise EvalError('string map function must return a string', pos, 'type')
                    out = concat_str(out, r[1])
                return ('str', out)
            raise EvalError('map expects a list, tuple or string', pos, 'type')
        # filter: false or NULL drops the element
        def keep(r):
            if r[0] == 'null':
                return False
            if r[0] == 'bool':
                return self.ctx.branch(r[1])
            return True
        if target[0] == 'list':
            return ('list', [x for x in target[1] if keep(self.call(fn, [x], pos))])
        if target[0] == 'tuple':
            return ('tuple', [(n, v) for n, v in target[1] if keep(self.call(fn, [('str', n), v], pos))])
        if target[0] == 'str':
            out = ''
            for ch in chars(target[1]):
                if keep(self.call(fn, [('str', ch)], pos)):
                    out = concat_str(out, ch)
            return ('str', out)
        raise EvalError('filter expects a list, tuple or string', pos, 'type')

    def e_Format(self, e, env):
        """format strings: the arguments are evaluated (List form: in the current scope; Single form: bound to `item` in
        a child scope that does not outlive the expression); the rendered text itself is not modelled (opaque string)."""
        d = e.fields[0]
        args = self.f(d, 'ast::FormatDef', 'args')
        an = self.vname(args, 'ast::FormatArgs')
        tmpl = self.f(d, 'ast::FormatDef', 'template')
        if type(tmpl) is not str:
            raise OracleUnsupported('symbolic format template')
        if an == 'List':
            n_ph = 0
            esc = False
            for ch in tmpl:
                if ch == '@' and not esc:
                    n_ph += 1
                    esc = False
                elif ch == '\\' and not esc:
                    esc = True
                else:
                    esc = False
            vals = [self.eval(a, env) for a in args.fields[0].items[:n_ph]]
            if n_ph > len(args.fields[0].items):
                raise EvalError('format string has more placeholders than arguments', self.pos_lc(self.f(d, 'ast::FormatDef', 'pos')), 'format')
            return ('str', None)
        item = self.eval(args.fields[0], env)
        if '@' in tmpl:
            raise OracleUnsupported('embedded format expressions')
        return ('str', None)

    def e_Import(self, e, env):
        raise OracleUnsupported('import')

    def e_Include(self, e, env):
        raise OracleUnsupported('include')

    def e_Convert(self, e, env):
        raise OracleUnsupported('convert')


def chars(s):
    if type(s) is not str:
        raise OracleUnsupported('symbolic string iteration')
    return list(s)


def concat_str(a, b):
    if type(a) is str and type(b) is str:
        return a + b
    from mirsym.vals import assemble
    return assemble([a, b])


def str_equal(a, b):
    if type(a) is str and type(b) is str:
        return a == b
    from mirsym.vals import seq_items
    xa, xb = seq_items(a), seq_items(b)
    if len(xa) != len(xb):
        return False
    cs = []
    for p, q in zip(xa, xb):
        if not is_sym(p) and not is_sym(q):
            if p != q:
                return False
        else:
            cs.append((p if is_sym(p) else z3.BitVecVal(p, 8)) == (q if is_sym(q) else z3.BitVecVal(q, 8)))
    return conj(cs)


def conj(cs):
    if any(c is False for c in cs):
        return False
    cs = [c for c in cs if c is not True]
    if not cs:
        return True
    return z3.And(*cs)


# ---------------------------------------------------------------- comparing an oracle value with a VM value
def match_vm(ev, oval, vmval):
    """-> python bool or z3 Bool: does the implementation's `opcode::Value` equal the oracle's value?"""
    b = ev.b
    from mirsym.vals import deref_all
    v = deref_all(vmval)
    vn = b.variant_name(v, 'build::opcode::Value')
    k = oval[0]
    if vn == 'P':
        p = v.fields[0]
        pn = b.variant_name(p, 'build::opcode::Primitive')
        if pn == 'Empty':
            return k == 'null'
        x = p.fields[0]
        if pn == 'Int':
            if k != 'int':
                return False
            a = oval[1]
            return (a == x) if not (is_sym(a) or is_sym(x)) else bv(a) == bv(x)
        if pn == 'Bool':
            if k != 'bool':
                return False
            a = oval[1]
            return (a == x) if not (is_sym(a) or is_sym(x)) else zb(a) == zb(x)
        if pn == 'Float':
            if k != 'float':
                return False
            a = oval[1]
            if not (is_sym(a) or is_sym(x)):
                return a == x or (a != a and x != x)
            fa = a if is_sym(a) else z3.FPVal(a, z3.Float64())
            fx = x if is_sym(x) else z3.FPVal(x, z3.Float64())
            return fa == fx        # structural (NaN == NaN, +0 != -0): same bit pattern
        if pn == 'Str':
            if k != 'str':
                return False
            if oval[1] is None:
                return True         # text not modelled by the oracle (format rendering)
            return str_equal(oval[1], x)
        return False
    if vn == 'C':
        c = v.fields[0]
        cn = b.variant_name(c, 'build::opcode::Composite')
        if cn == 'List':
            if k != 'list':
                return False
            items = c.fields[0].items
            if len(items) != len(oval[1]):
                return False
            return conj([match_vm(ev, o, x) for o, x in zip(oval[1], items)])
        if cn == 'Tuple':
            if k != 'tuple':
                return False
            flds = c.fields[0].items
            if len(flds) != len(oval[1]):
                return False
            cs = []
            for (n, o), f in zip(oval[1], flds):
                if deref_all(f.fields[0]) != n:
                    return False
                cs.append(match_vm(ev, o, f.fields[1]))
            return conj(cs)
    if vn == 'F':
        return k == 'func'
    if vn == 'M':
        return k == 'module'
    return False


def show(oval, depth=0):
    k = oval[0]
    if k in ('int', 'bool', 'float', 'str'):
        return '%s' % (oval[1],)
    if k == 'null':
        return 'NULL'
    if k == 'list':
        return '[' + ', '.join(show(x, depth + 1) for x in oval[1]) + ']'
    if k == 'tuple':
        return '{' + ', '.join('%s = %s' % (n, show(x, depth + 1)) for n, x in oval[1]) + '}'
    return '<%s>' % k
