"""Oracle for C08: POSIX shell tokenisation (field splitting + quote removal) of the only constructs the env / flags /
exec converters emit, over *mixed concrete / symbolic* bytes.

Input: a list of output items: int (concrete byte) | z3 BitVec(8) (a symbolic byte that came from an input value) |
('safe', label) (rendering of an int/float/bool: characters from [-+.0-9A-Za-z], never shell-significant).
The lexer never guesses about a symbolic byte: whenever the meaning of the text depends on it, it asks `must(cond)` —
"does the path condition imply cond?" — and records a violation (with the negated condition, for a model) if not.

Grammar handled (everything else is reported as `unmodelled`, which makes the check inconclusive, never silent):
  unquoted words, blanks, newlines (command separators), '...' (everything literal), \\c outside quotes,
  "..." with \\\\ \\" \\$ \\` escapes ($ and ` unescaped inside double quotes = expansion = violation).
Validated against /bin/sh and bash at setup (selftest) and on every counterexample before it is reported."""
import z3

SQ, DQ, BS, DOLLAR, BT, SP, TAB, NL = 0x27, 0x22, 0x5c, 0x24, 0x60, 0x20, 0x09, 0x0a
UNQUOTED_SPECIAL = set(b"'\"\\$`|&;<>()*?[]#~ \t\n{}!=%")


class Lexed:
    def __init__(self):
        self.lines = [[]]          # list of commands; each a list of words; a word is a list of items (int | BV | ('safe',..))
        self.violations = []       # (kind, description, negated condition or None)
        self.unmodelled = []


def lex(items, must):
    """must(cond) -> bool : is z3 `cond` implied by the path condition?"""
    out = Lexed()
    word = None
    i = 0
    n = len(items)

    def is_sym(x):
        return isinstance(x, z3.ExprRef)

    def end_word():
        nonlocal word
        if word is not None:
            out.lines[-1].append(word)
            word = None

    def lit(x):
        nonlocal word
        if word is None:
            word = []
        word.append(x)

    while i < n:
        c = items[i]
        if isinstance(c, tuple):        # safe rendering
            lit(c)
            i += 1
            continue
        if is_sym(c):
            # a value byte in an unquoted position: the shell would interpret it
            out.violations.append(('unquoted-value-byte', 'a byte of an input value reaches the shell outside any quotes', None))
            lit(c)
            i += 1
            continue
        if c == SP or c == TAB:
            end_word()
            i += 1
            continue
        if c == NL:
            end_word()
            if out.lines[-1]:
                out.lines.append([])
            i += 1
            continue
        if c == SQ:
            if word is None:
                word = []
            i += 1
            closed = False
            while i < n:
                d = items[i]
                if isinstance(d, tuple):
                    word.append(d)
                elif is_sym(d):
                    cond = d != z3.BitVecVal(SQ, 8)
                    if not must(cond):
                        out.violations.append(('quote-in-single-quotes', 'an input byte inside \'...\' can be a single quote (ends the quoting early)', z3.Not(cond)))
                    word.append(d)
                elif d == SQ:
                    closed = True
                    i += 1
                    break
                else:
                    word.append(d)
                i += 1
            if not closed:
                out.violations.append(('unterminated-single-quote', 'output ends inside a single-quoted string', None))
            continue
        if c == DQ:
            if word is None:
                word = []
            i += 1
            closed = False
            while i < n:
                d = items[i]
                if isinstance(d, tuple):
                    word.append(d)
                    i += 1
                    continue
                if is_sym(d):
                    cond = z3.And(d != DQ, d != BS, d != DOLLAR, d != BT)
                    if not must(cond):
                        out.violations.append(('special-in-double-quotes', 'an input byte inside "..." can be one of " \\ $ ` unescaped', z3.Not(cond)))
                    word.append(d)
                    i += 1
                    continue
                if d == DQ:
                    closed = True
                    i += 1
                    break
                if d == BS:
                    if i + 1 >= n:
                        out.violations.append(('dangling-backslash', 'backslash at end of double-quoted string', None))
                        i += 1
                        continue
                    e = items[i + 1]
                    if is_sym(e):
                        # "\x": backslash is removed only before $ ` " \ newline; must know which
                        cond = z3.Or(e == DQ, e == BS, e == DOLLAR, e == BT)
                        if must(cond):
                            word.append(e)
                        elif must(z3.Not(z3.Or(cond, e == NL))):
                            word.append(BS)
                            word.append(e)
                        else:
                            out.unmodelled.append('backslash before a symbolic byte of undetermined class in double quotes')
                            word.append(e)
                        i += 2
                        continue
                    if e in (DQ, BS, DOLLAR, BT):
                        word.append(e)
                    elif e == NL:
                        pass
                    else:
                        word.append(BS)
                        word.append(e)
                    i += 2
                    continue
                if d in (DOLLAR, BT):
                    out.violations.append(('expansion-in-double-quotes', 'unescaped %r inside double quotes' % chr(d), None))
                word.append(d)
                i += 1
            if not closed:
                out.violations.append(('unterminated-double-quote', 'output ends inside a double-quoted string', None))
            continue
        if c == BS:
            if i + 1 < n:
                e = items[i + 1]
                if not is_sym(e) and not isinstance(e, tuple) and e == NL:
                    i += 2
                    continue
                lit(e)
                i += 2
                continue
            out.violations.append(('dangling-backslash', 'backslash at end of output', None))
            i += 1
            continue
        if c == 0x23 and word is None:      # comment to end of line
            while i < n and not (isinstance(items[i], int) and items[i] == NL):
                i += 1
            continue
        if c in (DOLLAR, BT) or chr(c) in '|&;<>()*?[]~{}!':
            out.unmodelled.append('unquoted shell metacharacter %r in converter output' % chr(c))
        lit(c)
        i += 1
    end_word()
    if not out.lines[-1]:
        out.lines.pop()
    return out


def word_text(word):
    """concrete prefix rendering for messages"""
    s = ''
    for x in word:
        if isinstance(x, int):
            s += chr(x) if 32 <= x < 127 else '\\x%02x' % x
        elif isinstance(x, tuple):
            s += '<%s>' % x[1]
        else:
            s += '?'
    return s


def concrete_words(text):
    """reference lexing of fully concrete text with the same model (used to validate the model against real shells)"""
    lx = lex(list(text.encode('utf-8')), lambda c: True)
    return [[bytes(w).decode('utf-8', 'replace') for w in line] for line in lx.lines], lx
