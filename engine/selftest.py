"""Engine self-test (concrete differential, DESIGN.md 2.2 guard 1): the MIR interpreter run on concrete inputs is an
ordinary interpreter; its results must agree with the natively compiled code on the repo's own kind of inputs."""
import os
import sys
import time

HERE = os.path.dirname(os.path.abspath(__file__))
sys.path.insert(0, HERE)
sys.path.insert(0, os.path.join(HERE, '..', 'oracle'))
sys.setrecursionlimit(400000)
import threading
threading.stack_size(512 * 1024 * 1024)


def main():
    import world
    import native
    import astb
    import precedence_table as PT
    from mirsym import interp
    from mirsym.vals import VecV
    d = world.prepare()
    prog = world.load_program(d)
    nat = native.Native(d)
    b = astb.B(prog)
    kinds = b.variants('ast::BinaryExprType')
    fails = 0
    # 1. precedence parser on concrete chains taken from the repo's own tests' vocabulary
    chains = [['Add', 'Mul'], ['Mul', 'Add'], ['Sub', 'Sub'], ['Div', 'Div', 'Add'], ['Equal', 'Add', 'Mul'], ['AND', 'OR', 'Equal'], ['DOT', 'Add', 'DOT']]
    cases = []
    for ch in chains:
        text = 'a1' + ''.join(' %s a%d' % (PT.SPELLING[k], i + 2) for i, k in enumerate(ch)) + ';'
        cases.append({'kind': 'parse', 'text': text})
    outs = nat.run_many(cases)
    for ch, o in zip(chains, outs):
        elems = []
        for i in range(len(ch) + 1):
            elems.append(b.enum('parse::precedence::Element', 'Expr', b.e_simple(b.v_sym('a%d' % (i + 1), b.pos(1, i + 1)))))
            if i < len(ch):
                elems.append(b.enum('parse::precedence::Element', 'Op', b.binkind(ch[i])))
        ctx = interp.Ctx(prog)
        r = ctx.call('parse_precedence', [b.struct('abortable_parser::SliceIter', source=VecV(elems), offset=0)])

        def sx(e):
            if b.variant_name(e, 'ast::Expression') == 'Binary':
                dd = e.fields[0]
                return '(%s %s %s)' % (kinds[b.field(dd, 'ast::BinaryOpDef', 'kind').variant], sx(b.field(dd, 'ast::BinaryOpDef', 'left')), sx(b.field(dd, 'ast::BinaryOpDef', 'right')))
            return e.fields[0].fields[0].fields[1]
        got = sx(r.fields[1])
        want = o['stmts'][0]['sexpr']
        if got != want:
            fails += 1
            print('SELFTEST MISMATCH precedence', ch, got, want)
    print('selftest: %d precedence chains compared, %d mismatches' % (len(chains), fails))
    return 1 if fails else 0


if __name__ == '__main__':
    rc = []
    th = threading.Thread(target=lambda: rc.append(main()))
    th.start()
    th.join()
    sys.exit(rc[0] if rc else 1)
