"""Engine self-test (concrete differential, DESIGN.md 2.2 guard 1): the MIR interpreter run on concrete inputs is an
ordinary interpreter; its results must agree with the natively compiled code on the repo's own kind of inputs."""
import os
import sys
import time

HERE = os.path.dirname(os.path.abspath(__file__))
sys.path.insert(0, HERE)
sys.path.insert(0, os.path.join(HERE, '..', 'oracle'))
sys.setrecursionlimit(400000)
import threading
threading.stack_size(512 * 1024 * 1024)


def main():
    import world
    import native
    import astb
    import precedence_table as PT
    from mirsym import interp
    from mirsym.vals import VecV
    d = world.prepare()
    prog = world.load_program(d)
    nat = native.Native(d)
    b = astb.B(prog)
    kinds = b.variants('ast::BinaryExprType')
    fails = 0
    # 1. precedence parser on concrete chains taken from the repo's own tests' vocabulary
    chains = [['Add', 'Mul'], ['Mul', 'Add'], ['Sub', 'Sub'], ['Div', 'Div', 'Add'], ['Equal', 'Add', 'Mul'], ['AND', 'OR', 'Equal'], ['DOT', 'Add', 'DOT']]
    cases = []
    for ch in chains:
        text = 'a1' + ''.join(' %s a%d' % (PT.SPELLING[k], i + 2) for i, k in enumerate(ch)) + ';'
        cases.append({'kind': 'parse', 'text': text})
    outs = nat.run_many(cases)
    for ch, o in zip(chains, outs):
        elems = []
        for i in range(len(ch) + 1):
            elems.append(b.enum('parse::precedence::Element', 'Expr', b.e_simple(b.v_sym('a%d' % (i + 1), b.pos(1, i + 1)))))
            if i < len(ch):
                elems.append(b.enum('parse::precedence::Element', 'Op', b.binkind(ch[i])))
        ctx = interp.Ctx(prog)
        r = ctx.call('parse_precedence', [b.struct('abortable_parser::SliceIter', source=VecV(elems), offset=0)])

        def sx(e):
            if b.variant_name(e, 'ast::Expression') == 'Binary':
                dd = e.fields[0]
                return '(%s %s %s)' % (kinds[b.field(dd, 'ast::BinaryOpDef', 'kind').variant], sx(b.field(dd, 'ast::BinaryOpDef', 'left')), sx(b.field(dd, 'ast::BinaryOpDef', 'right')))
            return e.fields[0].fields[0].fields[1]
        got = sx(r.fields[1])
        want = o['stmts'][0]['sexpr']
        if got != want:
            fails += 1
            print('SELFTEST MISMATCH precedence', ch, got, want)
    print('selftest: %d precedence chains compared, %d mismatches' % (len(chains), fails))
    fails += differential(prog, nat, b)
    fails += vacuity_twin(prog, b)
    return 1 if fails else 0


def val_json(b, v):
    import struct
    from mirsym.vals import deref_all
    v = deref_all(v)
    name = b.variant_name(v, 'build::ir::Val')
    if name == 'Empty':
        return {'t': 'null'}
    if name == 'Boolean':
        return {'t': 'bool', 'v': bool(v.fields[0])}
    if name == 'Int':
        return {'t': 'int', 'v': str(v.fields[0])}
    if name == 'Float':
        return {'t': 'float', 'bits': str(struct.unpack('<Q', struct.pack('<d', float(v.fields[0])))[0])}
    if name == 'Str':
        return {'t': 'str', 'v': str(deref_all(v.fields[0]))}
    if name == 'List':
        return {'t': 'list', 'v': [val_json(b, x) for x in deref_all(v.fields[0]).items]}
    if name == 'Tuple':
        return {'t': 'tuple', 'v': [[str(deref_all(deref_all(x).fields[0])), val_json(b, deref_all(x).fields[1])] for x in deref_all(v.fields[0]).items]}
    return {'t': 'other'}


def strip_float_text(j):
    if isinstance(j, dict):
        return {k: strip_float_text(x) for k, x in j.items() if not (j.get('t') == 'float' and k == 'v') and not (j.get('t') == 'other' and k == 'v')}
    if isinstance(j, list):
        return [strip_float_text(x) for x in j]
    return j


def differential(prog, nat, b):
    "concrete differential on the kind of programs the checks use: tokenizer, parser+translator+VM, printer"
    sys.path.insert(0, os.path.join(HERE, '..', 'checks'))
    import C01
    import C07
    import C05
    import symprog as SP
    import ucgrun
    from mirsym import interp
    from mirsym.vals import VecV, CellV, Ref, deref_all
    fails = 0
    texts = [p['text'] for p in C01.programs('quick')][::3] + C07.DOCUMENTED[::4]
    vals = [(7, 3, 2), (-5, 0, 9223372036854775807), (0, -1, 1)]
    progs = []
    for k, t in enumerate(texts):
        v = vals[k % len(vals)]
        for i in (3, 2, 1):
            t = t.replace(SP.ph(i), SP.int_lit(v[i - 1]))
        progs.append(t + (' r;' if 'let r ' in t else ''))
    outs = nat.run_many([{'kind': 'eval', 'text': t, 'strict': True} for t in progs])
    n = 0
    for t, o in zip(progs, outs):
        ctx = interp.Ctx(prog, fuel=2_000_000_000)
        env = ucgrun.make_env(ctx)
        fb = ctx.call('FileBuilder::new', [prog.to_path('<Eval>'), VecV([]), env])
        cell = CellV(fb)
        r = Ref(cell.slot, 0, ())
        ctx.call('FileBuilder::set_strict', [r, True])
        try:
            res = ctx.call('FileBuilder::eval_string', [r, t])
            got = {'ok': res.variant == 0}
            if res.variant == 0:
                got['val'] = val_json(b, res.fields[0])
        except interp.Panic:
            got = {'ok': False, 'panic': True}
        n += 1
        want_ok = bool(o.get('ok'))
        if got['ok'] != want_ok or (want_ok and strip_float_text(got['val']) != strip_float_text(o['val'])):
            fails += 1
            print('SELFTEST MISMATCH eval', repr(t), got, {k: o.get(k) for k in ('ok', 'val', 'err', 'panic')})
    print('selftest: %d programs evaluated in the engine and natively, %d mismatches so far' % (n, fails))
    # tokenizer
    toks = ['let a = 1 + 2;', 'x>=y&&z!~"a\\"b"', '// c\nlet  t={a=1,\r\n b=[1 , 2.5]};', 'a.b.0:2:10', 'import "std/é.ucg" as x']
    outs = nat.run_many([{'kind': 'tokenize', 'text': t} for t in toks])
    for t, o in zip(toks, outs):
        ctx = interp.Ctx(prog, fuel=2_000_000_000)
        from mirsym.vals import NONE
        r = ctx.call('tokenizer::tokenize', [ctx.call('OffsetStrIter::new', [t]), NONE])
        if (r.variant == 0) != bool(o.get('ok')):
            fails += 1
            print('SELFTEST MISMATCH tokenize ok', repr(t))
            continue
        if r.variant == 0:
            got = [(b.variant_name(b.field(x, 'ast::Token', 'typ'), 'ast::TokenType'), str(deref_all(b.field(x, 'ast::Token', 'fragment'))),
                    b.field(b.field(x, 'ast::Token', 'pos'), 'ast::Position', 'line'), b.field(b.field(x, 'ast::Token', 'pos'), 'ast::Position', 'column')) for x in r.fields[0].items]
            want = [(x['typ'], x['fragment'], x['line'], x['column']) for x in o['tokens']]
            if got != want:
                fails += 1
                print('SELFTEST MISMATCH tokens', repr(t), got, want)
    # printer
    fm = ['let a = [1, 2.0, {b = "s"}];\n// c\nlet f = func (x) => x + 1;\n', 'let r = 0:2:10;\nlet s = select (a, 1) => {\n  // inner\n  a = 1,\n};\n']
    outs = nat.run_many([{'kind': 'fmt', 'text': t} for t in fm])
    for t, o in zip(fm, outs):
        ctx = interp.Ctx(prog, fuel=2_000_000_000)
        r, cm = ucgrun.parse_program(ctx, t, comment_map=True)
        got = C05.run_printer(ctx, r.fields[0], cm)
        if got != o.get('out'):
            fails += 1
            print('SELFTEST MISMATCH fmt', repr(t), repr(got), repr(o.get('out')))
    print('selftest: tokenizer (%d) and printer (%d) compared, %d mismatches in total' % (len(toks), len(fm), fails))
    return fails


def vacuity_twin(prog, b):
    "a harness whose assertion is false must come back violated: `let r = a + 1;` with symbolic a, claim r == a"
    import z3
    import symprog as SP
    import ucgrun
    from mirsym import interp
    ctx = interp.Ctx(prog, fuel=2_000_000_000)
    a = ctx.bv('a', 64)
    ctx.assume(a < 100)
    stmts = SP.subst(prog, ucgrun.parse_ok(ctx, 'let r = %s + 1;' % SP.ph(1)), {1: a})
    res, vm, env = ucgrun.run_program(ctx, stmts, env=ucgrun.make_env(ctx))
    r = SP.binding(ctx, vm, 'r')
    from mirsym.vals import deref_all
    term = [x for x in _leaves(deref_all(r)) if z3.is_expr(x)]
    if res.variant != 0 or not term:
        print('SELFTEST vacuity twin did not reach its assertion')
        return 1
    if ctx.valid(term[0] == a) or not ctx.valid(term[0] == a + 1):
        print('SELFTEST vacuity twin: a false assertion was reported valid (or a true one was not)')
        return 1
    print('selftest: vacuity twin violated as it must be')
    return 0


def _leaves(v):
    from mirsym.vals import Agg, VecV, deref_all
    v = deref_all(v)
    if isinstance(v, Agg):
        for f in v.fields:
            yield from _leaves(f)
    elif isinstance(v, VecV):
        for f in v.items:
            yield from _leaves(f)
    else:
        yield v


if __name__ == '__main__':
    rc = []
    th = threading.Thread(target=lambda: rc.append(main()))
    th.start()
    th.join()
    sys.exit(rc[0] if rc else 1)
