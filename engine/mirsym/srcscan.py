"""Scan Rust sources of the working tree for the facts the MIR text does not spell out:
enum variant order (discriminants), struct field order, and what each `<impl at file:line>` implements.
All of it is re-read from the scratch copy of /repo's working tree on every run."""
import os
import re
import glob

_COMMENT_RE = re.compile(r'//[^\n]*|/\*.*?\*/', re.S)


def _strip_comments_keep_layout(src):
    def repl(m):
        return re.sub(r'[^\n]', ' ', m.group(0))
    # do not strip inside string literals: cheap approximation — protect "...//..." by skipping lines where // is in a string
    out = []
    i = 0
    n = len(src)
    in_str = False
    while i < n:
        c = src[i]
        if in_str:
            out.append(c)
            if c == '\\':
                out.append(src[i + 1])
                i += 2
                continue
            if c == '"':
                in_str = False
            i += 1
            continue
        if c == '"':
            in_str = True
            out.append(c)
            i += 1
            continue
        if c == "'":
            m = re.match(r"'(\\.[^']*|[^\\'])'", src[i:i + 12])
            if m:
                out.append(m.group(0))
                i += len(m.group(0))
                continue
        if c == '/' and i + 1 < n and src[i + 1] == '/':
            j = src.find('\n', i)
            if j < 0:
                j = n
            out.append(' ' * (j - i))
            i = j
            continue
        if c == '/' and i + 1 < n and src[i + 1] == '*':
            j = src.find('*/', i + 2)
            j = n if j < 0 else j + 2
            out.append(re.sub(r'[^\n]', ' ', src[i:j]))
            i = j
            continue
        out.append(c)
        i += 1
    return ''.join(out)


def _match_brace(src, i, open_c='{', close_c='}'):
    """src[i] == open_c -> index just after the matching close"""
    d = 0
    n = len(src)
    while i < n:
        c = src[i]
        if c == '"':
            i += 1
            while src[i] != '"':
                i += 2 if src[i] == '\\' else 1
        elif c == open_c:
            d += 1
        elif c == close_c:
            d -= 1
            if d == 0:
                return i + 1
        i += 1
    return n


def _split_commas(body):
    out = []
    d = 0
    cur = ''
    for c in body:
        if c in '{([<':
            d += 1
        elif c in '})]>':
            d -= 1
        if c == ',' and d == 0:
            out.append(cur)
            cur = ''
        else:
            cur += c
    if cur.strip():
        out.append(cur)
    return out


class Sources:
    def __init__(self):
        self.enums = {}      # (modpath, Name) -> [(variant, [field names] or n positional)]
        self.structs = {}    # (modpath, Name) -> [field names] (or ints for tuple structs)
        self.files = {}      # relpath -> (root, text-without-comments)
        self.impl_cache = {}
        self.roots = {}
        self.generic_names = set()

    def add_crate(self, crate, root, src_subdir='src', local=True):
        """root: crate root dir (contains src/). File paths in MIR are relative to the crate root
        (`src/ast/mod.rs`) for the local crate and absolute for registry crates."""
        self.roots[crate] = root
        base = os.path.join(root, src_subdir)
        for path in sorted(glob.glob(os.path.join(base, '**', '*.rs'), recursive=True)):
            rel = os.path.relpath(path, root)
            try:
                raw = open(path, encoding='utf-8').read()
            except Exception:
                continue
            text = _strip_comments_keep_layout(raw)
            if local:
                self.files[rel] = text
            self.files[path] = text
            modparts = os.path.relpath(path, base)[:-3].split(os.sep)
            if modparts[-1] in ('mod', 'lib', 'main'):
                modparts = modparts[:-1]
            mod = '::'.join([crate] + modparts) if crate else '::'.join(modparts)
            self._scan_items(text, mod)

    def _scan_items(self, src, mod):
        for m in re.finditer(r'(?:\bfn\s+\w+|\bimpl|\bstruct\s+\w+|\benum\s+\w+|\btrait\s+\w+|\btype\s+\w+)\s*<', src):
            i = m.end()
            d = 1
            n = len(src)
            while i < n and d > 0:
                c = src[i]
                if c == '<':
                    d += 1
                elif c == '>' and src[i - 1] != '-':
                    d -= 1
                elif c in '{;':
                    break
                i += 1
            if d != 0:
                continue
            for part in _split_commas(src[m.end():i - 1]):
                part = part.strip()
                mm = re.match(r'([A-Z]\w*)', part)
                if mm and not part.startswith("'"):
                    self.generic_names.add(mm.group(1))
        for m in re.finditer(r'\benum\s+(\w+)\s*(?:<[^>{]*>)?\s*(?:where[^{]*)?\{', src):
            name = m.group(1)
            end = _match_brace(src, m.end() - 1)
            body = src[m.end():end - 1]
            variants = []
            for v in _split_commas(body):
                v = re.sub(r'#\[[^\]]*\]', '', v).strip()
                mm = re.match(r'(\w+)\s*(.*)$', v, re.S)
                if not mm:
                    continue
                vname = mm.group(1)
                rest = mm.group(2).strip()
                if rest.startswith('{'):
                    fields = []
                    for fld in _split_commas(rest[1:rest.rindex('}')]):
                        fld = re.sub(r'#\[[^\]]*\]', '', fld).strip()
                        fm = re.match(r'(?:pub(?:\([^)]*\))?\s+)?(\w+)\s*:', fld)
                        if fm:
                            fields.append(fm.group(1))
                    variants.append((vname, fields))
                elif rest.startswith('('):
                    n = len([x for x in _split_commas(rest[1:rest.rindex(')')]) if x.strip()])
                    variants.append((vname, list(range(n))))
                else:
                    variants.append((vname, []))
            self.enums.setdefault((mod, name), variants)
        for m in re.finditer(r'\bstruct\s+(\w+)\s*(?:<[^>{(;]*>)?\s*(?:where[^{]*)?([{(;])', src):
            name = m.group(1)
            if m.group(2) == '{':
                end = _match_brace(src, m.end() - 1)
                body = src[m.end():end - 1]
                fields = []
                for fld in _split_commas(body):
                    fld = re.sub(r'#\[[^\]]*\]', '', fld).strip()
                    fm = re.match(r'(?:pub(?:\([^)]*\))?\s+)?(\w+)\s*:', fld)
                    if fm:
                        fields.append(fm.group(1))
                self.structs.setdefault((mod, name), fields)
            elif m.group(2) == '(':
                end = _match_brace(src, m.end() - 1, '(', ')')
                n = len([x for x in _split_commas(src[m.end():end - 1]) if x.strip()])
                self.structs.setdefault((mod, name), list(range(n)))
            else:
                self.structs.setdefault((mod, name), [])

    # -------------------------------------------------- lookups
    def _pick(self, table, ty):
        """ty: possibly qualified path without generics, e.g. `ast::Value`, `opcode::Value`, `Value`."""
        parts = ty.split('::')
        base = parts[-1]
        qual = parts[:-1]
        cands = [(k, v) for k, v in table.items() if k[1] == base]
        if len(cands) > 1 and qual:
            def score(k):
                mp = k[0].split('::')
                # number of trailing qualifier segments found (in order) in the module path
                s = 0
                for q in qual:
                    if q in mp:
                        s += 1
                # exact suffix match is best
                if mp[-len(qual):] == qual:
                    s += 10
                return s
            best = max(score(k) for k, _ in cands)
            cands = [(k, v) for k, v in cands if score(k) == best]
        return cands

    def enum_variants(self, ty):
        c = self._pick(self.enums, ty)
        if not c:
            return None
        if len(c) > 1:
            # identical declarations are fine
            if all(x[1] == c[0][1] for x in c):
                return c[0][1]
            raise KeyError('ambiguous enum ' + ty + ' ' + str([k for k, _ in c]))
        return c[0][1]

    def variant_index(self, ty, vname):
        parts = ty.split('::')
        base = parts[-1]
        cands = [(k, v) for k, v in self._pick(self.enums, ty) if any(x[0] == vname for x in v)]
        if not cands:
            cands = [(k, v) for k, v in self.enums.items() if k[1] == base and any(x[0] == vname for x in v)]
        idxs = {[x[0] for x in v].index(vname) for _, v in cands}
        if len(idxs) == 1:
            return idxs.pop()
        raise KeyError('variant? %s::%s %s' % (ty, vname, [k for k, _ in cands]))

    def struct_fields(self, ty):
        c = self._pick(self.structs, ty)
        if not c:
            return None
        if len(c) > 1 and not all(x[1] == c[0][1] for x in c):
            raise KeyError('ambiguous struct ' + ty + ' ' + str([k for k, _ in c]))
        return c[0][1]

    def impl_info(self, impl_at):
        """impl_at = (file, l1, c1, l2, c2) -> (trait or None, self type (generics stripped), module path of file)"""
        if impl_at in self.impl_cache:
            return self.impl_cache[impl_at]
        file, l1, c1, l2, c2 = impl_at
        text = self.files.get(file)
        if text is None and os.path.isabs(file) and os.path.exists(file):
            text = _strip_comments_keep_layout(open(file, encoding='utf-8').read())
            self.files[file] = text
        res = (None, None, None)
        if text is not None:
            lines = text.split('\n')
            line = lines[l1 - 1]
            frag = line[c1 - 1:]
            if frag.lstrip().startswith(('impl', 'unsafe impl')):
                # header up to '{'
                hdr = frag
                k = l1
                while '{' not in hdr and k < len(lines):
                    hdr += ' ' + lines[k]
                    k += 1
                hdr = hdr.split('{')[0]
                hdr = re.sub(r'\bwhere\b.*$', '', hdr, flags=re.S)
                hdr = re.sub(r'^\s*(unsafe\s+)?impl\s*', '', hdr)
                if hdr.startswith('<'):
                    d = 0
                    for i, c in enumerate(hdr):
                        if c == '<':
                            d += 1
                        elif c == '>' and hdr[i - 1] != '-':
                            d -= 1
                            if d == 0:
                                hdr = hdr[i + 1:]
                                break
                hdr = hdr.strip()
                m = re.match(r'(.+?)\s+for\s+(.+)$', hdr, re.S)
                if m:
                    res = (_norm_ty(m.group(1)), _norm_ty(m.group(2)), m.group(1).strip())
                else:
                    res = (None, _norm_ty(hdr), None)
            else:
                # derive: the span covers the trait name inside #[derive(...)]
                trait = line[c1 - 1:c2 - 1] if l1 == l2 else frag
                k = l1 - 1
                ty = None
                while k < len(lines):
                    m = re.search(r'\b(?:struct|enum|union)\s+(\w+)', lines[k])
                    if m and (k > l1 - 1 or m.start() > c1):
                        ty = m.group(1)
                        break
                    k += 1
                res = (trait.strip(), ty, None)
        self.impl_cache[impl_at] = res
        return res


def _norm_ty(t):
    from .mir import strip_generics
    t = t.strip()
    t = re.sub(r"&\s*('\w+\s+)?(mut\s+)?", '', t)
    t = strip_generics(t).strip()
    t = re.sub(r'^dyn\s+', '', t)
    return t
