"""Builtins, part 4: third-party *entry points* on checked paths (serde_json, serde_yaml, toml, xml-rs, base64).
Value constructors and map types get abstract-datatype semantics; the serialisers and parsers of those crates (text
emission / decoding) are NOT executed: a serialiser call appends an opaque piece ('ser', format, value tree) to the
writer, a parser call returns the value tree the harness planted for the input bytes. They are outside every claim."""
import re
import z3

from .interp import Panic, Unsupported, binop, ty_bits, norm_type, F64
from .vals import inner_ref as R
from .vals import (Agg, VecV, MapV, SymStr, CellV, Ref, FnPtr, Opaque, PathV, FmtV, UNIT, NONE, some, ok, err, tup, is_sym,
                   seq_items, assemble, deref_all as D)
from .bi_core import it_seq, map_key
from .bi_str import write_to, sbytes


def install(prog):
    B = prog.builtin

    # ------------------------------------------------------------ numbers
    def number(kind, v):
        return Agg('Number', None, (kind, v))

    @B('serde_json::Number::from_f64')
    def b_json_from_f64(ctx, a, callee):
        f = D(a[0])
        if is_sym(f):
            fin = z3.Not(z3.Or(z3.fpIsNaN(f), z3.fpIsInf(f)))
            return some(number('f64', f)) if ctx.branch(fin) else NONE
        if f != f or f in (float('inf'), float('-inf')):
            return NONE
        return some(number('f64', f))

    @B('re:^<(serde_json|serde_yaml)::Value as From>::from$', 're:^<(serde_json|serde_yaml)::value::Value as From>::from$')
    def b_value_from(ctx, a, callee):
        crate = 'serde_json' if 'serde_json' in callee.split(' as ')[0] else 'serde_yaml'
        m = re.search(r'From<(.*)>>::from$', callee, re.S)
        t = norm_type(m.group(1)).lstrip('&') if m else ''
        v = D(a[0])
        V = crate + '::Value'
        if t in ('f64', 'f32') or (not t and (type(v) is float or (is_sym(v) and z3.is_fp(v)))):
            if crate == 'serde_json':
                # `Number::from_f64(f).map_or(Value::Null, Value::Number)`: a non-finite float silently becomes null
                if is_sym(v):
                    fin = z3.Not(z3.Or(z3.fpIsNaN(v), z3.fpIsInf(v)))
                    return Agg(V, 2, (number('f64', v),)) if ctx.branch(fin) else Agg(V, 0, ())
                if v != v or v in (float('inf'), float('-inf')):
                    return Agg(V, 0, ())
            return Agg(V, 2, (number('f64', v),))
        if re.fullmatch(r'i(8|16|32|64|size)', t):
            return Agg(V, 2, (number('i64', v),))
        if re.fullmatch(r'u(8|16|32|64|size)', t):
            return Agg(V, 2, (number('u64', v),))
        if t == 'bool':
            return Agg(V, 1, (v,))
        if t in ('str', 'String', 'std::string::String') or t.startswith(('Cow<', 'std::borrow::Cow<')) or type(v) in (str, SymStr):
            return Agg(V, 3, (v,))
        if t == '()':
            return Agg(V, 0, ())
        if t.startswith(('Vec<', 'std::vec::Vec<')) and type(v) is VecV and all(type(D(x)) is Agg and D(x).ty.endswith('::Value') for x in v.items):
            return Agg(V, 4, (v,))
        if type(v) is Agg and v.ty == 'Number':
            return Agg(V, 2, (v,))
        raise Unsupported('Value::from(%s)' % t)

    @B('serde_yaml::to_value', 'serde_json::to_value')
    def b_to_value(ctx, a, callee):
        v = D(a[0])
        m = re.search(r'to_value::<(.*)>$', callee, re.S)
        t = norm_type(m.group(1)) if m else ''
        crate = callee.split('::')[0]
        if t == 'i64' or (type(v) is int and not t):
            return ok(Agg(crate + '::Value', 2, (number('i64', v),)))
        if t == 'f64' or type(v) is float:
            return ok(Agg(crate + '::Value', 2, (number('f64', v),)))
        if t in ('str', 'String', 'std::string::String') or type(v) in (str, SymStr):
            return ok(Agg(crate + '::Value', 3, (v,)))
        if t == 'bool':
            return ok(Agg(crate + '::Value', 1, (v,)))
        if type(v) is Agg and v.ty.endswith('::Value'):
            return ok(v)
        raise Unsupported('to_value of ' + t)

    @B('serde_json::Number::as_u64', 'serde_yaml::Number::as_u64')
    def b_number_as_u64(ctx, a, callee):
        n = D(a[0])
        kind, v = n.fields
        if kind == 'u64':
            return some(v)
        if kind == 'i64':
            if is_sym(v):
                return some(v) if ctx.branch(v >= 0) else NONE
            return some(v) if v >= 0 else NONE
        return NONE

    @B('serde_json::Number::is_i64', 'serde_json::Number::is_u64', 'serde_json::Number::is_f64', 'serde_yaml::Number::is_i64', 'serde_yaml::Number::is_u64', 'serde_yaml::Number::is_f64')
    def b_number_is(ctx, a, callee):
        kind, v = D(a[0]).fields
        k = callee.rsplit('::', 1)[1]
        if k == 'is_f64':
            return kind == 'f64'
        if kind == 'f64':
            return False
        if k == 'is_i64':
            if kind == 'i64':
                return True
            return (v <= (1 << 63) - 1) if not is_sym(v) else (v >= 0)       # u64 as a 64-bit pattern: fits i64 iff the top bit is clear
        if kind == 'u64':
            return True
        return (v >= 0)

    @B('serde_json::Number::as_i64', 'serde_yaml::Number::as_i64')
    def b_number_as_i64(ctx, a, callee):
        n = D(a[0])
        kind, v = n.fields
        if kind == 'i64':
            return some(v)
        if kind == 'u64':
            if is_sym(v):
                return some(v) if ctx.branch(v >= 0) else NONE      # as a 64-bit pattern: fits i64 iff top bit clear
            return some(v) if v <= (1 << 63) - 1 else NONE
        return NONE

    @B('serde_json::Number::as_f64', 'serde_yaml::Number::as_f64')
    def b_number_as_f64(ctx, a, callee):
        n = D(a[0])
        kind, v = n.fields
        if kind == 'f64':
            return some(v)
        if is_sym(v):
            return some(z3.fpSignedToFP(z3.RNE(), v, F64) if kind == 'i64' else z3.fpUnsignedToFP(z3.RNE(), v, F64))
        return some(float(v))

    @B('<serde_yaml::Number as ToString>::to_string', '<Number as ToString>::to_string')
    def b_number_to_string(ctx, a, callee):
        n = D(a[0])
        if is_sym(n.fields[1]):
            return FmtV((('int' if n.fields[0] != 'f64' else 'f64', n.fields[1], n.fields[0]),))
        return str(n.fields[1])

    # ------------------------------------------------------------ maps (serde_json::Map, toml Table: sorted; serde_yaml::Mapping: insertion order)
    @B('serde_json::Map::new', 'toml::map::Map::new', 'toml::value::Table::new')
    def b_sorted_map_new(ctx, a, callee):
        return MapV('BTreeMap')

    @B('serde_yaml::Mapping::new')
    def b_yaml_mapping_new(ctx, a, callee):
        return MapV('HashMap')      # insertion-ordered

    @B('serde_json::Map::insert', 'toml::map::Map::insert', 'serde_yaml::Mapping::insert')
    def b_tp_map_insert(ctx, a, callee):
        m = R(a[0]).load()
        k = tp_key(a[1])
        had = m.has(k)
        old = m.get(k)
        R(a[0]).store(m.insert(k, a[2]))
        return some(old) if had else NONE

    def tp_key(k):
        k = D(k)
        if type(k) is Agg and k.ty.endswith('::Value'):
            return k            # yaml keys are values (hashable Agg)
        return map_key(k)

    @B('serde_json::Map::entry', 'toml::map::Map::entry')
    def b_tp_map_entry(ctx, a, callee):
        r = R(a[0])
        m = r.load()
        k = map_key(a[1])
        return Agg('TpEntry', None, (r, k))

    @B('serde_json::map::Entry::or_insert', 'toml::map::Entry::or_insert')
    def b_tp_entry_or_insert(ctx, a, callee):
        r, k = D(a[0]).fields
        m = r.load()
        if not m.has(k):
            r.store(m.insert(k, a[1]))
        return Opaque('entry-ref')

    @B('serde_json::Map::len', 'toml::map::Map::len', 'serde_yaml::Mapping::len')
    def b_tp_map_len(ctx, a, callee):
        return len(D(a[0]).items)

    @B('re:^<(serde_json::Map|toml::map::Map|serde_yaml::Mapping|serde_json::map::Map) as IntoIterator>::into_iter$', 'serde_json::Map::iter', 'toml::map::Map::iter', 'serde_yaml::Mapping::iter')
    def b_tp_map_iter(ctx, a, callee):
        return it_seq([tup(k, v) for k, v in D(a[0]).items])

    @B('serde_json::Value::get')
    def b_json_get(ctx, a, callee):
        v = D(a[0])
        k = D(a[1])
        if v.variant == 5 and type(k) is str:
            m = v.fields[0]
            return some(m.get(k)) if m.has(k) else NONE
        if v.variant == 4 and type(k) is int:
            items = v.fields[0].items
            return some(items[k]) if k < len(items) else NONE
        return NONE

    @B('serde_json::Value::as_str')
    def b_json_as_str(ctx, a, callee):
        v = D(a[0])
        return some(v.fields[0]) if v.variant == 3 else NONE

    # ------------------------------------------------------------ serialisers: opaque pieces
    def ser_piece(fmt, v):
        return FmtV((('ser', fmt, D(v)),))

    @B('to_writer_pretty', 'serde_json::to_writer_pretty', 'serde_json::to_writer')
    def b_json_to_writer(ctx, a, callee):
        write_to(ctx, a[0], ser_piece('json', a[1]))
        return ok(UNIT)

    @B('serde_yaml::to_string')
    def b_yaml_to_string(ctx, a, callee):
        """serde_yaml's text for a *scalar* value (containers stay opaque serialiser pieces). Strings are written plain when the
        emitter's scalar analysis allows it and quoted otherwise; the model decides per byte whether the text is "plain-safe" and
        otherwise returns the single-quoted form. It is an approximation of a third-party emitter: every counterexample that runs
        through it is replayed natively before it is reported."""
        from .bi_str import sbytes, mkstr
        v = D(a[0])
        names = ['Null', 'Bool', 'Number', 'String', 'Sequence', 'Mapping', 'Tagged']
        kind = names[v.variant]
        if kind == 'Null':
            return ok('null\n')
        if kind == 'Bool':
            bv = v.fields[0]
            if is_sym(bv):
                return ok('true\n' if ctx.branch(bv) else 'false\n')
            return ok('true\n' if bv else 'false\n')
        if kind == 'Number':
            n = v.fields[0]
            if is_sym(n.fields[1]):
                return ok(FmtV((('int' if n.fields[0] != 'f64' else 'f64', n.fields[1], n.fields[0]), '\n')))
            return ok(str(n.fields[1]) + '\n')
        if kind != 'String':
            return ok(ser_piece('yaml', v))
        bs = list(sbytes(v.fields[0]))
        special_first = b'-?:,[]{}#&*!|>\'"%@` ~0123456789.+<='
        special_any = b':#\'"\\\t\n'

        def member(x, pool):
            if is_sym(x):
                return ctx.branch(z3.Or(*[x == c for c in pool]))
            return x in pool
        plain = len(bs) > 0
        if plain and member(bs[0], special_first):
            plain = False
        if plain and member(bs[-1], b' '):
            plain = False
        if plain:
            for x in bs:
                if member(x, special_any):
                    plain = False
                    break
                if not is_sym(x) and (x < 0x20 or x > 0x7e):
                    plain = False
                    break
        if plain and not any(is_sym(x) for x in bs):
            t = bytes(bs).decode('latin-1').lower()
            if t in ('true', 'false', 'null', 'yes', 'no', 'on', 'off', 'y', 'n', 'nan', 'inf'):
                plain = False
        elif plain and len(bs) == 1 and member(bs[0], b'ynYN'):
            plain = False
        if plain:
            return ok(mkstr(tuple(bs) + (0x0a,)))
        q = []
        for x in bs:
            q.append(x)
            if member(x, b"'"):
                q.append(0x27)
        return ok(mkstr((0x27,) + tuple(q) + (0x27, 0x0a)))

    @B('serde_yaml::to_writer')
    def b_yaml_to_writer(ctx, a, callee):
        write_to(ctx, a[0], ser_piece('yaml', a[1]))
        return ok(UNIT)

    @B('toml::to_string_pretty', 'toml::ser::to_string_pretty', 'toml::to_string', 'toml::ser::to_string')
    def b_toml_to_string(ctx, a, callee):
        v = D(a[0])
        if v.variant != 6:
            # the toml serialiser only accepts a table at the top level (documented: "values must be emitted before tables" / ValueAfterTable / UnsupportedType)
            return err(Agg('toml::ser::Error', None, ('unsupported top-level TOML value',)))
        return ok(ser_piece('toml', v))

    @B('re:^<(toml::ser::Error|serde_json::Error|serde_yaml::Error|toml::de::Error|xml::writer::Error|xml::writer::emitter::EmitterError) as (Display|Debug)>::fmt$')
    def b_tp_error_display(ctx, a, callee):
        from .bi_str import fmt_push
        e = D(a[0])
        fmt_push(a[1], e.fields[0] if type(e) is Agg and e.fields else 'error')
        return ok(UNIT)

    # ------------------------------------------------------------ parsers: planted results
    @B('serde_json::from_slice', 'serde_yaml::from_slice', 'toml::from_slice', 'serde_json::from_str', 'serde_yaml::from_str', 'toml::from_str')
    def b_tp_parse(ctx, a, callee):
        """the decoders are third-party: the harness plants `ctx.parsed[(format, bytes-id)]`; malformed input = planted error"""
        fmt = callee.split('::')[0]
        data = D(a[0])
        planted = getattr(ctx, 'planted_parse', {})
        key = (fmt, data if type(data) in (str, bytes) else repr(data))
        if type(data) is bytes:
            key = (fmt, data.decode('utf-8', 'replace'))
        if key not in planted and (fmt, '*') in planted:
            key = (fmt, '*')
        if key in planted:
            v = planted[key]
            if type(v) is tuple and v and v[0] == 'error':
                return err(Agg(fmt + '::Error', None, (v[1],)))
            return ok(v)
        raise Unsupported('no planted parse result for %s input %r' % (fmt, key[1][:40]))

    # ------------------------------------------------------------ base64
    @B('<GeneralPurpose as Engine>::encode', '<base64::engine::GeneralPurpose as Engine>::encode', 're:^<.*GeneralPurpose as (base64::)?Engine>::encode$')
    def b_b64_encode(ctx, a, callee):
        eng = D(a[0])
        data = D(a[1])
        return FmtV((('b64', eng, data),))

    @B('const base64::engine::general_purpose::STANDARD', 'const STANDARD', 'const base64::prelude::BASE64_STANDARD', 'const base64::prelude::STANDARD')
    def b_b64_std(ctx, a, callee):
        return Agg('GeneralPurpose', None, ('STANDARD',))

    @B('const base64::engine::general_purpose::URL_SAFE', 'const URL_SAFE', 'const base64::prelude::BASE64_URL_SAFE', 'const base64::prelude::URL_SAFE')
    def b_b64_url(ctx, a, callee):
        return Agg('GeneralPurpose', None, ('URL_SAFE',))

    # ------------------------------------------------------------ xml-rs writer: events are recorded, text emission is third-party
    @B('EmitterConfig::new', 'xml::writer::EmitterConfig::new', 'xml::EmitterConfig::new')
    def b_emitter_new(ctx, a, callee):
        return Agg('EmitterConfig', None, (MapV('BTreeMap'),))

    @B('re:^(xml::(writer::)?)?EmitterConfig::(perform_indent|normalize_empty_elements|write_document_declaration|indent_string|line_separator|pad_self_closing|autopad_comments|cdata_to_characters|keep_element_names_stack|perform_escaping)$')
    def b_emitter_opt(ctx, a, callee):
        c = D(a[0])
        return Agg('EmitterConfig', None, (c.fields[0].insert(callee.rsplit('::', 1)[1], a[1]),))

    @B('EmitterConfig::create_writer', 'xml::writer::EmitterConfig::create_writer', 'EventWriter::new', 'EventWriter::new_with_config')
    def b_create_writer(ctx, a, callee):
        sink = a[1] if 'create_writer' in callee else a[0]
        return Agg('EventWriter', None, (CellV(()), sink, D(a[0]) if 'create_writer' in callee else None))

    @B('xml::writer::XmlEvent::start_element', 'XmlEvent::start_element')
    def b_start_element(ctx, a, callee):
        return Agg('StartElementBuilder', None, (D(a[0]), (), ()))

    @B('StartElementBuilder::attr', 'xml::writer::events::StartElementBuilder::attr')
    def b_se_attr(ctx, a, callee):
        s = D(a[0])
        return Agg('StartElementBuilder', None, (s.fields[0], s.fields[1] + ((D(a[1]), D(a[2])),), s.fields[2]))

    @B('StartElementBuilder::ns', 'xml::writer::events::StartElementBuilder::ns')
    def b_se_ns(ctx, a, callee):
        s = D(a[0])
        return Agg('StartElementBuilder', None, (s.fields[0], s.fields[1], s.fields[2] + ((D(a[1]), D(a[2])),)))

    @B('StartElementBuilder::default_ns', 'xml::writer::events::StartElementBuilder::default_ns')
    def b_se_default_ns(ctx, a, callee):
        s = D(a[0])
        return Agg('StartElementBuilder', None, (s.fields[0], s.fields[1], s.fields[2] + (('', D(a[1])),)))

    @B('xml::writer::XmlEvent::end_element', 'XmlEvent::end_element')
    def b_end_element(ctx, a, callee):
        return Agg('EndElementBuilder', None, ())

    @B('xml::writer::XmlEvent::characters', 'XmlEvent::characters', 'xml::writer::XmlEvent::cdata', 'xml::writer::XmlEvent::comment')
    def b_characters(ctx, a, callee):
        kind = callee.rsplit('::', 1)[1]
        return Agg('xml::writer::XmlEvent', {'characters': 6, 'cdata': 4, 'comment': 5}[kind], (D(a[0]),))

    @B('EventWriter::write', 'xml::writer::EventWriter::write')
    def b_event_write(ctx, a, callee):
        w = D(a[0])
        ev = D(a[1])
        c = w.fields[0]
        c.slot[0] = c.slot[0] + (ev,)
        write_to(ctx, w.fields[1], FmtV((('xml-event', ev),)))
        return ok(UNIT)
