"""Builtins, part 3: paths, io/env/process stubs, third-party entry points. Grown on demand."""
import re
import z3

from .interp import Panic, Unsupported, HarnessStop, resolve, exec_func, binop, ty_bits, norm_type
from .vals import inner_ref as R
from .vals import (Agg, VecV, MapV, SymStr, CellV, Ref, FnPtr, Opaque, PathV, FmtV, UNIT, NONE, some, ok, err, tup, is_sym,
                   seq_items, rebuild_seq, assemble, deref_all as D)


def install(prog):
    B = prog.builtin
    to_path = prog.to_path

    @B('PathBuf::from', 'PathBuf::new', 'Path::new', 'Path::to_path_buf', '<PathBuf as From>::from', '<Path as AsRef>::as_ref', 'Path::to_owned', '<Path as ToOwned>::to_owned')
    def b_path_from(ctx, a, callee):
        if not a:
            return PathV(False, ())
        return to_path(a[0])

    # ---- url::Url as an opaque string with file-path accessors (the crate's parser/normaliser is not modelled)
    @B('Url::from_file_path', 'url::Url::from_file_path')
    def b_url_from_file_path(ctx, a, callee):
        p = to_path(D(a[0]))
        if not p.absolute:
            return err(UNIT)
        return ok(Agg('Url', None, ('file://' + p.to_str(),)))

    @B('Url::to_file_path', 'url::Url::to_file_path')
    def b_url_to_file_path(ctx, a, callee):
        u = D(a[0]).fields[0]
        if type(u) is str and u.startswith('file://'):
            return ok(to_path(u[len('file://'):]))
        return err(UNIT)

    @B('Url::parse', 'url::Url::parse')
    def b_url_parse(ctx, a, callee):
        u = D(a[0])
        if type(u) is str and '://' in u:
            return ok(Agg('Url', None, (u,)))
        return err(Agg('url::ParseError', 0, ()))

    @B('Url::as_str', 'url::Url::as_str', 'Url::path', 'url::Url::path', '<Url as Display>::fmt')
    def b_url_as_str(ctx, a, callee):
        u = D(a[0]).fields[0]
        if callee.endswith('path'):
            return u[len('file://'):] if u.startswith('file://') else u
        if callee.endswith('fmt'):
            from .bi_str import fmt_push
            fmt_push(a[1], u)
            return ok(UNIT)
        return u

    @B('<Url as Clone>::clone', '<url::Url as Clone>::clone')
    def b_url_clone(ctx, a, callee):
        return D(a[0])

    @B('<Url as PartialEq>::eq', '<url::Url as PartialEq>::eq')
    def b_url_eq(ctx, a, callee):
        return D(a[0]).fields[0] == D(a[1]).fields[0]

    def _no_trailing_slash(comps):
        comps = tuple(comps)
        while comps and comps[-1] == '':
            comps = comps[:-1]
        return comps

    @B('Path::join')
    def b_path_join(ctx, a, callee):
        p = to_path(a[0])
        q = to_path(a[1])
        if q.absolute:
            return q
        return PathV(p.absolute, _no_trailing_slash(p.comps) + q.comps)

    @B('PathBuf::push')
    def b_path_push(ctx, a, callee):
        p = to_path(R(a[0]).load())
        q = to_path(a[1])
        R(a[0]).store(q if q.absolute else PathV(p.absolute, _no_trailing_slash(p.comps) + q.comps))
        return UNIT

    @B('PathBuf::pop')
    def b_path_pop(ctx, a, callee):
        p = to_path(R(a[0]).load())
        c = p.trimmed()
        if not c:
            return False
        R(a[0]).store(PathV(p.absolute, c[:-1]))
        return True

    @B('Path::parent')
    def b_path_parent(ctx, a, callee):
        p = to_path(a[0])
        c = p.trimmed()
        if not c:
            return NONE
        return some(PathV(p.absolute, c[:-1]))

    @B('Path::is_relative')
    def b_is_relative(ctx, a, callee):
        return not to_path(a[0]).absolute

    @B('Path::is_absolute', 'Path::has_root')
    def b_is_absolute(ctx, a, callee):
        return to_path(a[0]).absolute

    @B('Path::to_string_lossy', 'Path::display', 'Path::to_str', 'Path::as_os_str', 'PathBuf::into_os_string', 'PathBuf::as_os_str')
    def b_path_str(ctx, a, callee):
        s = to_path(a[0]).to_str()
        return some(s) if callee.endswith('to_str') else s

    @B('re:^<(std::path::Display|Display|Cow|std::borrow::Cow|OsStr|OsString) as ToString>::to_string$', 'OsStr::to_string_lossy', 'OsStr::to_str')
    def b_display_to_string(ctx, a, callee):
        v = D(a[0])
        if type(v) is PathV:
            v = v.to_str()
        if callee.endswith('to_str'):
            return some(v)
        if callee.endswith('into_string'):
            return ok(v)
        return v

    @B('Path::starts_with')
    def b_path_starts_with(ctx, a, callee):
        p = to_path(a[0])
        q = to_path(a[1])
        pc, qc = p.canon(), q.canon()
        return p.absolute == q.absolute and pc[:len(qc)] == qc

    @B('Path::file_name', 'Path::extension', 'Path::file_stem')
    def b_file_name(ctx, a, callee):
        p = to_path(a[0])
        c = p.trimmed()
        if not c or c[-1] == '..':
            return NONE
        name = c[-1]
        if callee.endswith('file_name'):
            return some(name)
        if '.' in name[1:]:
            stem, ext = name.rsplit('.', 1)
        else:
            stem, ext = name, None
        if callee.endswith('extension'):
            return some(ext) if ext is not None else NONE
        return some(stem)

    @B('Path::with_file_name')
    def b_with_file_name(ctx, a, callee):
        p = to_path(a[0])
        name = D(a[1])
        if type(name) is PathV:
            name = name.to_str()
        c = p.trimmed()
        if not c:
            return PathV(p.absolute, (name,))
        return PathV(p.absolute, c[:-1] + (name,))

    @B('<OsStr as Default>::default', '<&OsStr as Default>::default')
    def b_osstr_default(ctx, a, callee):
        return ''

    @B('Path::with_extension')
    def b_with_extension(ctx, a, callee):
        p = to_path(a[0])
        ext = D(a[1])
        c = p.trimmed()
        if not c or c[-1] == '..':
            return p
        name = c[-1]
        stem = name.rsplit('.', 1)[0] if '.' in name[1:] else name
        new = stem + ('.' + ext if ext else '')
        return PathV(p.absolute, c[:-1] + (new,))

    @B('PathBuf::set_extension')
    def b_set_extension(ctx, a, callee):
        R(a[0]).store(b_with_extension(ctx, [R(a[0]).load(), a[1]], callee))
        return True

    @B('Path::components')
    def b_components(ctx, a, callee):
        from .bi_core import it_seq
        p = to_path(a[0])
        comps = []
        if p.absolute:
            comps.append(Agg('Component', 1, ()))            # RootDir
        for i, c in enumerate(p.comps):
            if c == '':
                continue                                     # doubled or trailing slash
            if c == '.':
                if i == 0 and not p.absolute:
                    comps.append(Agg('Component', 2, ()))    # CurDir (only leading)
            elif c == '..':
                comps.append(Agg('Component', 3, ()))        # ParentDir
            else:
                comps.append(Agg('Component', 4, (c,)))      # Normal
        return it_seq(comps)

    @B('re:^<(PathBuf|Path) as (PartialEq|Eq)>::eq$')
    def b_path_eq(ctx, a, callee):
        return to_path(a[0]) == to_path(a[1])

    @B('std::path::Component::as_os_str', 'Component::as_os_str')
    def b_component_str(ctx, a, callee):
        c = D(a[0])
        return {1: '/', 2: '.', 3: '..'}.get(c.variant) or c.fields[0]

    @B('re:^<PathBuf as FromIterator>::from_iter$', 're:^<.* as Iterator>::collect::<PathBuf>$')
    def b_path_collect(ctx, a, callee):
        from .bi_core import as_it, it_drain
        absolute = False
        comps = []
        for c in it_drain(ctx, as_it(ctx, a[0])):
            c = D(c)
            if type(c) is Agg and c.ty == 'Component':
                if c.variant == 1:
                    absolute = True
                    comps = []
                elif c.variant == 2:
                    comps.append('.')
                elif c.variant == 3:
                    comps.append('..')
                else:
                    comps.append(c.fields[0])
            else:
                q = to_path(c)
                if q.absolute:
                    absolute = True
                    comps = list(q.comps)
                else:
                    comps.extend(q.comps)
        return PathV(absolute, comps)

    @B('const std::path::MAIN_SEPARATOR')
    def b_main_sep(ctx, a, callee):
        return ord('/')

    # ---------------------------------------------------------------- io / env / process stubs (never executed for real)
    @B('current_dir', 'std::env::current_dir')
    def b_current_dir(ctx, a, callee):
        ctx.event('current_dir')
        return ok(to_path(ctx.cwd))

    def io_error(msg):
        return Agg('io::Error', None, (msg,))

    def os_path(v):
        """the operating system resolves `.` and `..` when it opens a path (no symlinks in the virtual file system)"""
        import posixpath
        p = to_path(v)
        s = p.to_str()
        if not p.absolute:
            s = posixpath.join(ctx_cwd[0], s)
        s = posixpath.normpath(s)
        links = ctx_links[0]
        for _ in range(16):                 # follow symlinks on any prefix of the path
            hit = None
            for l in links:
                if s == l or s.startswith(l + '/'):
                    hit = l
                    break
            if hit is None:
                break
            s = posixpath.normpath(links[hit] + s[len(hit):])
        return s
    ctx_cwd = ['/cwd']
    ctx_links = [{}]

    @B('canonicalize', 'std::fs::canonicalize')
    def b_canonicalize(ctx, a, callee):
        ctx_cwd[0] = ctx.cwd
        ctx_links[0] = ctx.links
        p = os_path(a[0])
        if p in ctx.fs or any(k.startswith(p.rstrip('/') + '/') for k in ctx.fs):
            return ok(to_path(p))
        return err(io_error('No such file or directory (os error 2)'))

    @B('std::fs::File::open', 'File::open')
    def b_file_open(ctx, a, callee):
        ctx_cwd[0] = ctx.cwd
        ctx_links[0] = ctx.links
        p = os_path(a[0])
        ctx.event('open', p)
        c = ctx.fs.get(p)
        if c is None:
            return err(io_error('No such file or directory (os error 2)'))
        if type(c) is tuple:
            return err(io_error(c[1]))
        return ok(Agg('File', None, (p, CellV(c))))

    @B('<std::fs::File as Read>::read_to_string', '<File as Read>::read_to_string')
    def b_read_to_string(ctx, a, callee):
        f = D(a[0])
        content = f.fields[1].slot[0]
        cur = R(a[1]).load()
        R(a[1]).store(assemble([cur, content]))
        from .bi_str import sbytes
        return ok(len(sbytes(content)))

    @B('<std::fs::File as Read>::read_to_end', '<File as Read>::read_to_end')
    def b_read_to_end(ctx, a, callee):
        f = D(a[0])
        content = f.fields[1].slot[0]
        from .bi_str import sbytes
        cur = R(a[1]).load()
        R(a[1]).store(VecV(tuple(cur.items) + tuple(sbytes(content))))
        return ok(len(sbytes(content)))

    @B('std::fs::read_to_string', 'read_to_string')
    def b_fs_read_to_string(ctx, a, callee):
        ctx_cwd[0] = ctx.cwd
        ctx_links[0] = ctx.links
        p = os_path(a[0])
        ctx.event('open', p)
        c = ctx.fs.get(p)
        if c is None:
            return err(io_error('No such file or directory (os error 2)'))
        if type(c) is tuple:
            return err(io_error(c[1]))
        return ok(c)

    @B('std::fs::File::create', 'File::create')
    def b_file_create(ctx, a, callee):
        p = to_path(a[0]).to_str()
        ctx.event('create', p)
        if ctx.fs.get('!create:' + p):
            return err(io_error('Permission denied (os error 13)'))
        return ok(Agg('Sink', None, (CellV(()),), ) if False else Agg('OutFile', None, (p,)))

    # std::fs::OpenOptions: the flags are kept; open() records how the file was opened. `create` events mean
    # create-or-truncate (File::create); a file opened for writing *without* truncation keeps its old bytes beyond what is written.
    @B('OpenOptions::new', 'std::fs::OpenOptions::new', 'File::options', 'std::fs::File::options')
    def b_oo_new(ctx, a, callee):
        return Agg('OpenOptions', None, (CellV({}),))

    @B('re:^(std::fs::)?OpenOptions::(read|write|append|truncate|create|create_new)$')
    def b_oo_flag(ctx, a, callee):
        o = D(a[0])
        d = dict(o.fields[0].slot[0])
        d[callee.rsplit('::', 1)[1]] = bool(a[1])
        o.fields[0].slot[0] = d
        return a[0]

    @B('OpenOptions::open', 'std::fs::OpenOptions::open')
    def b_oo_open(ctx, a, callee):
        fl = dict(D(a[0]).fields[0].slot[0])
        p = to_path(a[1]).to_str()
        ctx_cwd[0] = ctx.cwd
        ctx_links[0] = ctx.links
        rp = os_path(p)
        exists = rp in ctx.fs
        writing = fl.get('write') or fl.get('append')
        if not writing:
            if not exists:
                return err(io_error('No such file or directory (os error 2)'))
            return ok(Agg('InFile', None, (rp,)))
        if not exists and not (fl.get('create') or fl.get('create_new')):
            return err(io_error('No such file or directory (os error 2)'))
        if exists and fl.get('create_new'):
            return err(io_error('File exists (os error 17)'))
        if ctx.fs.get('!create:' + p):
            return err(io_error('Permission denied (os error 13)'))
        if fl.get('truncate') and not fl.get('append'):
            ctx.event('create', p)
        else:
            ctx.event('open-keep', p, 'append' if fl.get('append') else 'overwrite')
        return ok(Agg('OutFile', None, (p,)))

    @B('re:^<(OutFile|std::fs::File|File) as (std::io::)?Write>::(write_fmt|write_all|write)$')
    def b_outfile_write(ctx, a, callee):
        f = D(a[0])
        from .bi_str import format_to_value, mkstr, sbytes
        v = format_to_value(ctx, a[1]) if callee.endswith('write_fmt') else mkstr(sbytes(a[1]))
        ctx.event('write', f.fields[0], v)
        return ok(UNIT) if not callee.endswith('::write') else ok(len(sbytes(v)))

    @B('<io::Error as Display>::fmt', '<std::io::Error as Display>::fmt')
    def b_io_error_display(ctx, a, callee):
        from .bi_str import fmt_push
        fmt_push(a[1], D(a[0]).fields[0])
        return ok(UNIT)

    @B('std::io::Error::new', 'std::io::Error::other')
    def b_io_error_new(ctx, a, callee):
        msg = D(a[-1])
        if type(msg) is Agg and msg.ty == 'SimpleError':
            msg = msg.fields[0]
        return Agg('io::Error', None, (msg, D(a[0]) if len(a) > 1 else None))

    @B('std::io::Error::kind')
    def b_io_error_kind(ctx, a, callee):
        e = D(a[0])
        if len(e.fields) > 1 and e.fields[1] is not None:
            return e.fields[1]
        return Agg('std::io::ErrorKind', 0, ())

    @B('Path::exists', 'Path::is_file')
    def b_path_exists(ctx, a, callee):
        ctx_cwd[0] = ctx.cwd
        ctx_links[0] = ctx.links
        p = os_path(a[0])
        ctx.event('exists', p)
        return p in ctx.fs

    @B('Path::is_dir')
    def b_path_is_dir(ctx, a, callee):
        ctx_cwd[0] = ctx.cwd
        ctx_links[0] = ctx.links
        p = os_path(a[0])
        return any(type(k) is str and k.startswith(p.rstrip('/') + '/') for k in ctx.fs)

    @B('read_dir', 'std::fs::read_dir')
    def b_read_dir(ctx, a, callee):
        """directory listing from the virtual file system (entries in name order; the real order is unspecified)"""
        from .bi_core import it_seq
        ctx_cwd[0] = ctx.cwd
        ctx_links[0] = ctx.links
        given = to_path(a[0])
        p = os_path(a[0]).rstrip('/')
        names = set()
        for k in ctx.fs:
            if type(k) is str and k.startswith(p + '/') and not k.startswith('!'):
                names.add(k[len(p) + 1:].split('/')[0])
        if not names and p not in ctx.fs:
            return err(io_error('No such file or directory (os error 2)'))
        if p in ctx.fs:
            return err(io_error('Not a directory (os error 20)'))
        names = sorted(names)
        # the order in which a directory lists its entries is unspecified: it is an environment choice, i.e. a symbolic permutation
        # (directories of 2..3 entries; larger ones are listed in name order, stated as a bound)
        if 2 <= len(names) <= 3 and getattr(ctx, 'symbolic_dir_order', True):
            import itertools
            perms = list(itertools.permutations(names))
            ctx._rd = getattr(ctx, '_rd', 0) + 1
            k = ctx.bv('readdir%d' % ctx._rd, 8)
            ctx.assume(z3.ULT(k, len(perms)))
            names = list(perms[ctx.concretize_int(k, list(range(len(perms))))])
        ctx.events.append(('read_dir', p, tuple(names)))
        return ok(it_seq([ok(Agg('DirEntry', None, (PathV(given.absolute, given.trimmed() + (n,)),))) for n in names]))

    @B('DirEntry::path', 'std::fs::DirEntry::path')
    def b_direntry_path(ctx, a, callee):
        return D(a[0]).fields[0]

    @B('DirEntry::file_name', 'std::fs::DirEntry::file_name')
    def b_direntry_file_name(ctx, a, callee):
        return D(a[0]).fields[0].trimmed()[-1]

    @B('var', 'std::env::var')
    def b_env_var(ctx, a, callee):
        return err(Agg('VarError', 0, ()))

    @B('SimpleError::new', 'simple_error::SimpleError::new')
    def b_simple_error(ctx, a, callee):
        return Agg('SimpleError', None, (D(a[0]),))

    @B('<SimpleError as Display>::fmt', '<simple_error::SimpleError as Display>::fmt')
    def b_simple_error_display(ctx, a, callee):
        from .bi_str import fmt_push
        fmt_push(a[1], D(a[0]).fields[0])
        return ok(UNIT)

    @B('<dyn std::error::Error as Display>::fmt', '<dyn Error as Display>::fmt')
    def b_dyn_error_display(ctx, a, callee):
        from .bi_str import render_value
        render_value(ctx, a[0], 'display', '', a[1])
        return ok(UNIT)

    @B('<dyn std::error::Error as ToString>::to_string', '<dyn Error as ToString>::to_string')
    def b_dyn_error_to_string(ctx, a, callee):
        return prog.find_builtin('<_ as ToString>::to_string')(ctx, a, callee)

    # ---------------------------------------------------------------- regex (third-party): python `re` on concrete
    # strings for the common syntax subset; an arbitrary (fresh symbolic) verdict otherwise — listed as an assumption.
    @B('regex::Regex::new', 'Regex::new')
    def b_regex_new(ctx, a, callee):
        import re as _re
        pat = D(a[0])
        if type(pat) is str:
            try:
                _re.compile(pat)
            except _re.error as e:
                return err(Agg('regex::Error', None, ('regex parse error: ' + str(e),)))
        return ok(Agg('Regex', None, (pat,)))

    @B('regex::Regex::find', 'Regex::find', 'regex::Regex::is_match', 'Regex::is_match')
    def b_regex_find(ctx, a, callee):
        import re as _re
        pat = D(a[0]).fields[0]
        s = D(a[1])
        if type(pat) is str and type(s) is str:
            m = _re.search(pat, s)
            if callee.endswith('is_match'):
                return m is not None
            return some(Agg('Match', None, (m.start(), m.end()))) if m else NONE
        v = ctx.boolean(ctx.fresh_name('regex_match'))
        if callee.endswith('is_match'):
            return v
        return some(Agg('Match', None, (0, 0))) if ctx.branch(v) else NONE

    @B('<regex::Error as Display>::fmt', '<Error as Display>::fmt')
    def b_regex_error_display(ctx, a, callee):
        from .bi_str import fmt_push
        fmt_push(a[1], D(a[0]).fields[0])
        return ok(UNIT)

    # ---------------------------------------------------------------- clap::ArgMatches stand-in built by harnesses:
    # Agg('ArgMatches', (MapV name -> VecV of values, MapV flag -> bool))
    @B('ArgMatches::values_of', 'clap::ArgMatches::values_of')
    def b_values_of(ctx, a, callee):
        from .bi_core import it_seq
        m = D(a[0])
        v = m.fields[0].get(D(a[1]))
        return some(it_seq(v.items)) if v is not None else NONE

    @B('ArgMatches::value_of', 'clap::ArgMatches::value_of')
    def b_value_of(ctx, a, callee):
        m = D(a[0])
        v = m.fields[0].get(D(a[1]))
        return some(v.items[0]) if v is not None and v.items else NONE

    @B('ArgMatches::is_present', 'clap::ArgMatches::is_present')
    def b_is_present(ctx, a, callee):
        m = D(a[0])
        return bool(m.fields[1].get(D(a[1]), False)) or m.fields[0].has(D(a[1]))
