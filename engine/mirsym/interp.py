"""mirsym core: executes rustc MIR symbolically.

* statements are compiled once into Python closures `f(ctx, L)` (L = list of locals of the frame);
* MIR calls are Python recursion (exec_func), so builtins can call closures re-entrantly;
* path forking is done by *re-execution*: a path is identified by its list of decisions; at a symbolic branch
  beyond the known prefix the feasible alternatives are found with z3, the first is followed and the others are
  queued as new prefixes (see explore.py). State therefore never has to be cloned.
"""
import re
import sys
import z3

from . import mir
from .mir import split_top, strip_generics, parse_place
from .vals import (Agg, VecV, MapV, SymStr, CellV, Ref, FnPtr, Opaque, PathV, UNIT, NONE, some, ok, err, tup, is_sym,
                   seq_items, rebuild_seq, deref_all)


class Panic(Exception):
    def __init__(self, msg, where=''):
        Exception.__init__(self, msg)
        self.msg = msg
        self.where = where


class Unsupported(Exception):
    pass


class BoundHit(Exception):
    pass


class Infeasible(Exception):
    pass


class HarnessStop(Exception):
    """raised by stubs that end a path deliberately (e.g. process::exit)"""
    def __init__(self, what, payload=None):
        Exception.__init__(self, what)
        self.what = what
        self.payload = payload


INT_TY = re.compile(r'^(u|i)(8|16|32|64|128|size)$')
_TY_BITS = {}


def ty_bits(t):
    if t is None:
        return None
    r = _TY_BITS.get(t)
    if r is None:
        m = INT_TY.match(t)
        if m:
            r = (64 if m.group(2) == 'size' else int(m.group(2)), m.group(1) == 'i')
        elif t == 'char':
            r = (32, False)
        elif t == 'bool':
            r = (1, False)
        else:
            r = False
        _TY_BITS[t] = r
    return r or None


def wrap(v, bits, signed):
    v &= (1 << bits) - 1
    if signed and v >> (bits - 1):
        v -= 1 << bits
    return v


F64 = z3.Float64()
RNE = z3.RNE()


def is_fp(v):
    return is_sym(v) and z3.is_fp(v)


def to_bv(v, bits):
    if is_sym(v):
        if z3.is_bool(v):
            return z3.If(v, z3.BitVecVal(1, bits), z3.BitVecVal(0, bits))
        if v.size() != bits:
            if v.size() < bits:
                return z3.ZeroExt(bits - v.size(), v)
            return z3.Extract(bits - 1, 0, v)
        return v
    return z3.BitVecVal(int(v), bits)


def to_fp(v):
    if is_sym(v):
        return v
    return z3.FPVal(float(v), F64)


def to_bool(v):
    if is_sym(v):
        return v
    return z3.BoolVal(bool(v))


def sym_width(a, b, bits):
    if is_sym(a) and z3.is_bv(a):
        return a.size()
    if is_sym(b) and z3.is_bv(b):
        return b.size()
    return bits or 64


def binop(op, a, b, bits, signed):
    ta = type(a)
    tb = type(b)
    if (ta is int or ta is bool) and (tb is int or tb is bool):
        if op == 'Eq':
            return a == b
        if op == 'Ne':
            return a != b
        if op == 'Lt':
            return a < b
        if op == 'Le':
            return a <= b
        if op == 'Gt':
            return a > b
        if op == 'Ge':
            return a >= b
        if ta is bool and tb is bool:
            if op == 'BitAnd':
                return a and b
            if op == 'BitOr':
                return a or b
            if op == 'BitXor':
                return a != b
        a = int(a)
        b = int(b)
        if op == 'Add':
            r = a + b
        elif op == 'Sub':
            r = a - b
        elif op == 'Mul':
            r = a * b
        elif op == 'Div':
            if b == 0:
                raise Panic('attempt to divide by zero')
            r = abs(a) // abs(b) * (1 if (a >= 0) == (b >= 0) else -1)
        elif op == 'Rem':
            if b == 0:
                raise Panic('attempt to calculate the remainder with a divisor of zero')
            r = abs(a) % abs(b) * (1 if a >= 0 else -1)
        elif op == 'BitAnd':
            r = a & b
        elif op == 'BitOr':
            r = a | b
        elif op == 'BitXor':
            r = a ^ b
        elif op == 'Shl':
            r = a << (b % (bits or 64))
        elif op == 'Shr':
            r = a >> (b % (bits or 64))
        elif op == 'Offset':
            r = a + b
        else:
            raise Unsupported('binop ' + op)
        return wrap(r, bits, signed) if bits else r
    if ta is float or tb is float or is_fp(a) or is_fp(b):
        if ta is float and tb is float or (ta in (float, int) and tb in (float, int)):
            a = float(a)
            b = float(b)
            if op == 'Add':
                return a + b
            if op == 'Sub':
                return a - b
            if op == 'Mul':
                return a * b
            if op == 'Div':
                if b == 0.0:
                    if a != a or a == 0.0:
                        return float('nan')
                    import math
                    return math.copysign(float('inf'), a) * math.copysign(1.0, b)
                return a / b
            if op == 'Rem':
                import math
                if b == 0.0 or a in (float('inf'), float('-inf')) or a != a or b != b:
                    return float('nan')
                return math.fmod(a, b)
            return {'Eq': a == b, 'Ne': a != b, 'Lt': a < b, 'Le': a <= b, 'Gt': a > b, 'Ge': a >= b}[op]
        fa = to_fp(a)
        fb = to_fp(b)
        if op == 'Add':
            return z3.fpAdd(RNE, fa, fb)
        if op == 'Sub':
            return z3.fpSub(RNE, fa, fb)
        if op == 'Mul':
            return z3.fpMul(RNE, fa, fb)
        if op == 'Div':
            return z3.fpDiv(RNE, fa, fb)
        if op == 'Rem':
            return z3.fpRem(fa, fb)   # note: IEEE remainder, Rust uses fmod; only used under stated bounds
        if op == 'Eq':
            return z3.fpEQ(fa, fb)
        if op == 'Ne':
            return z3.Not(z3.fpEQ(fa, fb))
        if op == 'Lt':
            return z3.fpLT(fa, fb)
        if op == 'Le':
            return z3.fpLEQ(fa, fb)
        if op == 'Gt':
            return z3.fpGT(fa, fb)
        if op == 'Ge':
            return z3.fpGEQ(fa, fb)
        raise Unsupported('float binop ' + op)
    if (is_sym(a) and z3.is_bool(a)) or (is_sym(b) and z3.is_bool(b)) or (ta is bool and is_sym(b) and z3.is_bool(b)):
        za = to_bool(a)
        zb = to_bool(b)
        if op == 'Eq':
            return za == zb
        if op == 'Ne':
            return za != zb
        if op == 'BitAnd':
            return z3.And(za, zb)
        if op == 'BitOr':
            return z3.Or(za, zb)
        if op == 'BitXor':
            return z3.Xor(za, zb)
        raise Unsupported('bool binop ' + op)
    if not (is_sym(a) or is_sym(b)):
        # non-numeric concrete comparison (unit, etc.)
        if op == 'Eq':
            return a == b
        if op == 'Ne':
            return a != b
        raise Unsupported('binop %s on %r %r' % (op, a, b))
    w = sym_width(a, b, bits)
    za = to_bv(a, w)
    zb = to_bv(b, w)
    if op == 'Add' or op == 'Offset':
        return za + zb
    if op == 'Sub':
        return za - zb
    if op == 'Mul':
        return za * zb
    if op == 'Div':
        return (za / zb) if signed else z3.UDiv(za, zb)
    if op == 'Rem':
        return z3.SRem(za, zb) if signed else z3.URem(za, zb)
    if op == 'Eq':
        return za == zb
    if op == 'Ne':
        return za != zb
    if op == 'Lt':
        return (za < zb) if signed else z3.ULT(za, zb)
    if op == 'Le':
        return (za <= zb) if signed else z3.ULE(za, zb)
    if op == 'Gt':
        return (za > zb) if signed else z3.UGT(za, zb)
    if op == 'Ge':
        return (za >= zb) if signed else z3.UGE(za, zb)
    if op == 'BitAnd':
        return za & zb
    if op == 'BitOr':
        return za | zb
    if op == 'BitXor':
        return za ^ zb
    if op == 'Shl':
        return za << zb
    if op == 'Shr':
        return (za >> zb) if signed else z3.LShR(za, zb)
    raise Unsupported('binop ' + op)


def overflow_flag(op, a, b, bits, signed):
    if not is_sym(a) and not is_sym(b):
        a = int(a)
        b = int(b)
        r = a + b if op == 'Add' else (a - b if op == 'Sub' else a * b)
        if signed:
            return not (-(1 << (bits - 1)) <= r <= (1 << (bits - 1)) - 1)
        return not (0 <= r <= (1 << bits) - 1)
    w = sym_width(a, b, bits)
    za = to_bv(a, w)
    zb = to_bv(b, w)
    if op == 'Add':
        return z3.Not(z3.And(z3.BVAddNoOverflow(za, zb, signed), z3.BVAddNoUnderflow(za, zb) if signed else z3.BoolVal(True)))
    if op == 'Sub':
        return z3.Not(z3.And(z3.BVSubNoOverflow(za, zb) if signed else z3.BoolVal(True), z3.BVSubNoUnderflow(za, zb, signed)))
    if op == 'Mul':
        return z3.Not(z3.And(z3.BVMulNoOverflow(za, zb, signed), z3.BVMulNoUnderflow(za, zb) if signed else z3.BoolVal(True)))
    raise Unsupported('overflow ' + op)


# ---------------------------------------------------------------- literals
_ESC = {'n': '\n', 't': '\t', 'r': '\r', '0': '\0', '\\': '\\', '"': '"', "'": "'"}


def decode_str_lit(body, as_bytes=False):
    out = bytearray() if as_bytes else []
    i = 0
    n = len(body)
    while i < n:
        c = body[i]
        if c == '\\':
            d = body[i + 1]
            if d == 'x':
                v = int(body[i + 2:i + 4], 16)
                if as_bytes:
                    out.append(v)
                else:
                    out.append(chr(v))
                i += 4
                continue
            if d == 'u':
                j = body.index('}', i)
                ch = chr(int(body[i + 3:j], 16))
                if as_bytes:
                    out.extend(ch.encode('utf-8'))
                else:
                    out.append(ch)
                i = j + 1
                continue
            if d == '\n':
                i += 2
                while i < n and body[i] in ' \t\n':
                    i += 1
                continue
            ch = _ESC.get(d, d)
            if as_bytes:
                out.extend(ch.encode('utf-8'))
            else:
                out.append(ch)
            i += 2
            continue
        if as_bytes:
            out.extend(c.encode('utf-8'))
        else:
            out.append(c)
        i += 1
    return bytes(out) if as_bytes else ''.join(out)


_NUM_RE = re.compile(r'(-?\d+)_((?:u|i)(?:\d+|size))$')
_FLT_RE = re.compile(r'(-?(?:[\d.]+(?:[eE][+-]?\d+)?|inf|NaN))(f64|f32)$')


class Program:
    """everything derived from the working tree, shared by all paths of a process"""

    def __init__(self, sources):
        self.funcs = {}
        self.consts = {}
        self.sources = sources
        self.impl_index = {}      # (selfty_last, method) -> [(Func, trait, selfty)]
        self.by_last = {}         # last segment -> [Func] (free functions / ctors / trait defaults)
        self.closure_index = {}   # closure span -> Func
        self.resolve_cache = {}
        self.builtins_exact = {}
        self.builtins_re = []
        self.overrides = {}       # normalized callee -> python fn (harness stubs); checked first
        self.static_vals = {}
        self.generic_names = set()

    def load(self, path, crate):
        mir.load_mir(path, crate, self.funcs, self.consts)

    def index(self):
        src = self.sources
        for name, f in self.funcs.items():
            m = re.search(r'\{closure@([^}]*)\}', f.header.split(',')[0]) if '{closure#' in name else None
            if '{closure#' in name:
                mm = re.match(r'fn .*?\(_1: (?:&(?:mut )?)?\{closure@([^}]*)\}', f.header)
                if mm:
                    self.closure_index.setdefault(mm.group(1), f)
            if f.impl_at:
                trait, selfty, trait_raw = src.impl_info(f.impl_at)
                meth = name[name.index('>::') + 3:] if '>::' in name else name
                last = (selfty or '?').split('::')[-1]
                self.impl_index.setdefault((last, meth), []).append((f, trait.split('::')[-1] if trait else None, selfty, _trait_arg(trait_raw)))
            else:
                self.by_last.setdefault(name.split('::')[-1] if '{closure#' not in name else name, []).append(f)
        self.known_types = {k[1] for k in src.enums} | {k[1] for k in src.structs}
        self.trait_names = {c[1] for v in self.impl_index.values() for c in v if c[1]}

    # ------------------------------------------------------------ builtin registry
    def builtin(self, *names):
        def deco(fn):
            for n in names:
                if n.startswith('re:'):
                    self.builtins_re.append((re.compile(n[3:]), fn))
                else:
                    self.builtins_exact[n] = fn
            return fn
        return deco

    def find_builtin(self, norm):
        fn = self.builtins_exact.get(norm)
        if fn:
            return fn
        for pat, fn in self.builtins_re:
            if pat.search(norm):
                return fn
        return None


_STD_TYPES = {'String', 'Vec', 'Option', 'Result', 'Box', 'Rc', 'Arc', 'PathBuf', 'Path', 'File', 'HashMap', 'BTreeMap',
              'BTreeSet', 'HashSet', 'RefCell', 'Cell', 'Ordering', 'Formatter', 'Arguments', 'Regex', 'Value', 'Number',
              'Map', 'Mapping', 'Self_', 'Iter', 'IntoIter', 'Chars', 'Bytes', 'Error', 'OsString', 'OsStr', 'Infallible'}


def norm_type(t):
    """head-normalise a type for builtin matching: strip refs, lifetimes, generics"""
    t = t.strip()
    while True:
        m = re.match(r"^(&\s*('\w+\s+)?(mut\s+)?|\*const\s+|\*mut\s+)", t)
        if not m:
            break
        t = t[m.end():]
    if t.startswith('('):
        return '()'
    if t.startswith('['):
        return '[]'
    if t.startswith('{closure@'):
        return '{closure}'
    if t.startswith('fn(') or t.startswith('unsafe fn(') or t.startswith('for<'):
        return 'fn'
    if t.startswith('dyn '):
        return 'dyn ' + strip_generics(t[4:].split(' + ')[0])
    if t.startswith('impl '):
        return 'impl ' + strip_generics(t[5:])
    return strip_generics(t)


def parse_callee(name):
    """-> dict(kind='qual'|'path', T, T_raw, trait, rest, norm)"""
    name = name.strip()
    if name.startswith('<'):
        d = 0
        for i, c in enumerate(name):
            if c == '<':
                d += 1
            elif c == '>' and name[i - 1] != '-':
                d -= 1
                if d == 0:
                    break
        inner = name[1:i]
        rest = name[i + 1:]
        if rest.startswith('::'):
            rest = rest[2:]
        # split `T as Trait` at top level
        d = 0
        k = -1
        j = 0
        while j < len(inner):
            c = inner[j]
            if c in '<([{':
                d += 1
            elif c in ')]}' or (c == '>' and inner[j - 1] != '-'):
                d -= 1
            elif d == 0 and inner.startswith(' as ', j):
                k = j
            j += 1
        trait_raw = None
        if k >= 0:
            T_raw = inner[:k]
            trait_raw = inner[k + 4:]
            trait = strip_generics(trait_raw)
        else:
            T_raw = inner
            trait = None
        T = norm_type(T_raw)
        rest_n = _strip_turbofish(rest)
        norm = '<%s%s>::%s' % (T, (' as ' + trait.split('::')[-1]) if trait else '', rest_n)
        return dict(kind='qual', T=T, T_raw=T_raw, trait=trait, trait_raw=trait_raw, rest=rest_n, norm=norm, raw=name)
    norm = _strip_turbofish(name)
    return dict(kind='path', T=None, T_raw=None, trait=None, rest=norm, norm=norm, raw=name)


def _strip_turbofish(s):
    # remove `::<...>` groups and `<impl ...>` groups, keep `{closure#n}`
    out = []
    d = 0
    i = 0
    n = len(s)
    while i < n:
        c = s[i]
        if c == '<':
            d += 1
        elif c == '>' and s[i - 1] != '-':
            d -= 1
        elif d == 0:
            out.append(c)
        i += 1
    r = ''.join(out)
    while '::::' in r:
        r = r.replace('::::', '::')
    return r.rstrip(':')


def type_tag(v):
    """run-time type name of a value, for dynamic trait dispatch"""
    v = deref_all(v)
    t = type(v)
    if t is Agg:
        return v.ty
    if t is VecV:
        return 'Vec'
    if t is str or t is SymStr:
        return 'str'
    if t is MapV:
        return v.kind
    if t is bool:
        return 'bool'
    if t is int:
        return 'int'
    if t is float:
        return 'f64'
    if t is PathV:
        return 'PathBuf'
    if t is CellV:
        return 'RefCell'
    if t is FnPtr:
        return 'fn'
    if t is Opaque:
        return v.what
    if is_sym(v):
        return 'sym'
    return t.__name__


class Ctx:
    """one path execution"""

    def __init__(self, prog, prefix=(), fuel=5_000_000, max_depth=3000):
        self.prog = prog
        self.prefix = list(prefix)
        self.decisions = []
        self.new_work = []          # sibling prefixes discovered on this path
        self.pc = []
        self.solver = z3.Solver()
        self.steps = 0
        self.fuel = fuel
        self.depth = 0
        self.max_depth = max_depth
        self.events = []
        self.funcs_touched = set()
        self.builtins_used = {}
        self.queries = 0
        self.solver_time = 0.0
        self.stack = []             # function names (for diagnostics)
        self.fresh = 0
        self.notes = []
        self.sat_cache = {}
        self.fail_stack = None
        self.fs = {}                # virtual file system for io stubs: path string -> content (str) | ('err', msg)
        self.cwd = '/cwd'
        self.links = {}             # virtual symlinks: absolute link path -> absolute target path

    # ------------------------------------------------------------ symbolic variables
    def bv(self, name, bits):
        return z3.BitVec(name, bits)

    def boolean(self, name):
        return z3.Bool(name)

    def fp(self, name):
        return z3.FP(name, F64)

    def fresh_name(self, base):
        self.fresh += 1
        return '%s!%d' % (base, self.fresh)

    def assume(self, cond):
        if is_sym(cond):
            self.pc.append(cond)
            self.solver.add(cond)
        elif not cond:
            raise Infeasible()

    # ------------------------------------------------------------ solver
    def feasible(self, cond):
        import time
        c = z3.simplify(cond) if is_sym(cond) else z3.BoolVal(bool(cond))
        if z3.is_true(c):
            return True
        if z3.is_false(c):
            return False
        t0 = time.time()
        self.queries += 1
        self.solver.push()
        self.solver.add(c)
        r = self.solver.check()
        self.solver.pop()
        self.solver_time += time.time() - t0
        if r == z3.unknown:
            raise Unsupported('solver returned unknown')
        return r == z3.sat

    def decide(self, conds):
        """conds: list of z3 Bool (exhaustive alternatives). Returns the index followed on this path."""
        i = len(self.decisions)
        if i < len(self.prefix):
            ch = self.prefix[i]
            self.decisions.append(ch)
            c = conds[ch]
            self.pc.append(c)
            self.solver.add(c)
            return ch
        feas = [k for k, c in enumerate(conds) if self.feasible(c)]
        if not feas:
            raise Infeasible()
        ch = feas[0]
        base = list(self.decisions)
        for k in feas[1:]:
            self.new_work.append(base + [k])
        self.decisions.append(ch)
        if len(feas) > 1 or True:
            c = conds[ch]
            self.pc.append(c)
            self.solver.add(c)
        return ch

    def branch(self, cond):
        """symbolic bool -> python bool (forks)"""
        if not is_sym(cond):
            return bool(cond)
        c = z3.simplify(cond)
        if z3.is_true(c):
            return True
        if z3.is_false(c):
            return False
        return self.decide([c, z3.Not(c)]) == 0

    def concretize_int(self, v, candidates):
        """fork over `candidates` (ints) for symbolic v; raises Unsupported if v can be something else"""
        if not is_sym(v):
            return int(v)
        conds = [v == z3.BitVecVal(c, v.size()) for c in candidates]
        conds.append(z3.And(*[v != z3.BitVecVal(c, v.size()) for c in candidates]) if candidates else z3.BoolVal(True))
        k = self.decide(conds)
        if k == len(candidates):
            raise Unsupported('symbolic value outside the enumerated candidates')
        return candidates[k]

    def valid(self, cond):
        """is `cond` implied by the path condition?"""
        if not is_sym(cond):
            return bool(cond)
        return not self.feasible(z3.Not(cond))

    def model(self, extra=None):
        self.solver.push()
        if extra is not None:
            self.solver.add(extra)
        r = self.solver.check()
        m = self.solver.model() if r == z3.sat else None
        self.solver.pop()
        return m

    # ------------------------------------------------------------ calls
    def call(self, name, args):
        """call a function by (MIR call-site style) name"""
        tgt = resolve(self.prog, name)
        return invoke(self, tgt, name, list(args))

    def call_value(self, f, args):
        """call a closure / fn pointer value with positional args"""
        f0 = deref_all(f)
        if type(f0) is FnPtr:
            return self.call(f0.name, args)
        if type(f0) is Agg and f0.ty.startswith('closure@'):
            fn = self.prog.closure_index.get(f0.ty[8:])
            if fn is None:
                raise Unsupported('closure body? ' + f0.ty)
            return exec_func(self, fn, [f] + list(args))
        if callable(f0):
            return f0(self, args)
        raise Unsupported('call_value on %r' % (f0,))

    def note_builtin(self, norm):
        self.builtins_used[norm] = self.builtins_used.get(norm, 0) + 1

    def event(self, *e):
        self.events.append(e)

    def where(self):
        st = self.fail_stack if self.fail_stack is not None else self.stack
        return ' > '.join(s.split('::')[-1] for s in st[-7:])


# ---------------------------------------------------------------- resolution
def resolve(prog, name):
    r = prog.resolve_cache.get(name)
    if r is None:
        r = _resolve(prog, name)
        prog.resolve_cache[name] = r
    return r


def _is_generic_param(prog, T):
    if T == 'Self':
        return True
    if '::' in T or not re.fullmatch(r'[A-Z][A-Za-z0-9]{0,11}', T):
        return False
    if T in prog.known_types or T in _STD_TYPES:
        return False
    return T in prog.sources.generic_names


def type_sig(t):
    """comparable spelling of a type: lifetimes and whitespace removed, `crate::` dropped (`&'a Rc<opcode::Value>` -> `&Rc<opcode::Value>`)"""
    t = re.sub(r"'\w+\s*,\s*", '', t)
    t = re.sub(r"'\w+\s*", '', t)
    t = re.sub(r'\bmut\s+', '', t)
    t = re.sub(r'\b(crate|self|super)::', '', t)
    t = re.sub(r'<\s*>', '', t)
    return re.sub(r'\s+', '', t)


_PATH_TOK = re.compile(r'[A-Za-z_][\w]*(?:::[A-Za-z_][\w]*)*')


def sig_match(a, b):
    """same shape, and every path in one is a `::`-suffix of the corresponding path in the other"""
    if a is None or b is None:
        return False
    pa = _PATH_TOK.findall(a)
    pb = _PATH_TOK.findall(b)
    if len(pa) != len(pb) or _PATH_TOK.sub('#', a) != _PATH_TOK.sub('#', b):
        return False
    for x, y in zip(pa, pb):
        if not (x == y or x.endswith('::' + y) or y.endswith('::' + x)):
            return False
    return True


def _trait_arg(trait_raw):
    """signature of the first generic argument of a trait reference: `From<&'a OffsetStrIter<'a>>` -> &OffsetStrIter"""
    if not trait_raw or '<' not in trait_raw:
        return None
    inner = trait_raw[trait_raw.index('<') + 1:trait_raw.rindex('>')]
    parts = [x for x in split_top(inner) if not x.strip().startswith("'")]
    if not parts:
        return None
    return type_sig(parts[0])


def _match_impl(prog, T, trait, meth, allow_any_trait=False, trait_raw=None):
    last = T.split('::')[-1]
    cands = prog.impl_index.get((last, meth), [])
    tl = trait.split('::')[-1] if trait else None
    if tl is not None:
        c2 = [c for c in cands if c[1] == tl]
    elif allow_any_trait:
        c2 = cands
    else:
        c2 = [c for c in cands if c[1] is None] or cands
    if len(c2) > 1 and trait_raw:
        ta = _trait_arg(trait_raw)
        if ta:
            c3 = [c for c in c2 if sig_match(c[3], ta)] or [c for c in c2 if c[3] and sig_match(c[3].lstrip('&'), ta.lstrip('&'))] \
                or [c for c in c2 if c[3] and sig_match(c[3].lstrip('&').split('<')[0], ta.lstrip('&').split('<')[0])]
            if c3:
                c2 = c3
            elif all(c[3] for c in c2):
                c2 = []         # every candidate names a different argument type: none of them is this impl
    elif len(c2) == 1 and trait_raw and c2[0][3]:
        ta = _trait_arg(trait_raw)
        if ta and not (sig_match(c2[0][3], ta) or sig_match(c2[0][3].lstrip('&'), ta.lstrip('&')) or sig_match(c2[0][3].lstrip('&').split('<')[0], ta.lstrip('&').split('<')[0])):
            # generic impls (`impl<T> From<T> for X`, `impl<'a, T> Span<&'a [T]> for ..`) keep matching: only reject when both are concrete paths
            if not re.fullmatch(r'&?[A-Z]\w?', c2[0][3]) and not any(re.fullmatch(r'[A-Z]\w?', t) for t in _PATH_TOK.findall(c2[0][3])):
                c2 = []
    if len(c2) > 1:
        # disambiguate by qualifier vs impl file / declared module
        qual = T.split('::')[:-1]
        if qual:
            def score(c):
                f = c[0]
                path = f.impl_at[0].replace('.rs', '').replace('/', '::')
                full = (c[2] or '')
                s = 0
                for q in qual:
                    if q in path.split('::') or q in full.split('::'):
                        s += 1
                return s
            best = max(score(c) for c in c2)
            c3 = [c for c in c2 if score(c) == best]
            if best == 0 and qual[0] in ('std', 'core', 'alloc', 'io', 'regex', 'serde_json', 'serde_yaml', 'toml', 'xml'):
                c3 = []         # a foreign type that merely shares its last segment with local ones
            c2 = c3
        if len(c2) > 1:
            # same crate preferred; else first by name order
            c2 = sorted(c2, key=lambda c: c[0].name)
    return c2[0][0] if c2 else None


def _resolve(prog, name):
    """-> ('mir', Func) | ('builtin', fn, norm) | ('dyn', info) | ('closure_call',) | ('none', norm)"""
    info = parse_callee(name)
    norm = info['norm']
    ov = prog.overrides.get(norm)
    if ov is not None:
        return ('builtin', ov, norm)
    if info['kind'] == 'qual':
        T = info['T']
        trait = info['trait']
        rest = info['rest']
        tl = trait.split('::')[-1] if trait else None
        if T in ('{closure}', 'fn') and tl in ('Fn', 'FnMut', 'FnOnce'):
            return ('closure_call',)
        if _is_generic_param(prog, T) or T.startswith('dyn ') and tl not in ('Write',) and T[4:].split('::')[-1] in prog.trait_names:
            if tl in ('Fn', 'FnMut', 'FnOnce'):
                return ('closure_call',)
            return ('dyn', info)
        f = _match_impl(prog, T, trait, rest, trait_raw=info.get('trait_raw'))
        if f is None and tl == 'Into' and rest == 'into' and info.get('trait_raw') and re.match(r'^Into<(std::\w+::)?(Box|Rc|Arc|Option)<', info['trait_raw']):
            inner_m = re.match(r'^Into<(?:std::\w+::)?(Box|Rc|Arc|Option)<(.*)>>$', info['trait_raw'], re.S)
            if inner_m and type_sig(inner_m.group(2)).split('::')[-1] == type_sig(info['T_raw']).split('::')[-1]:
                wrap_opt = inner_m.group(1) == 'Option'

                def into_wrapper(ctx, a, callee, _o=wrap_opt):
                    return some(a[0]) if _o else a[0]
                return ('builtin', into_wrapper, norm)
        if f is None and tl == 'TryInto' and rest == 'try_into' and info.get('trait_raw') and '<' in info['trait_raw']:
            tr = info['trait_raw']
            Y = tr[tr.index('<') + 1:tr.rindex('>')]
            cands = [c for c in prog.impl_index.get((norm_type(Y).split('::')[-1], 'try_from'), []) if c[1] == 'TryFrom']
            ta = type_sig(info['T_raw'])
            c3 = [c for c in cands if sig_match(c[3], ta)] or [c for c in cands if c[3] and sig_match(c[3].lstrip('&'), ta.lstrip('&'))]
            if c3:
                return ('mir', c3[0][0])
        if f is None and tl == 'Into' and rest == 'into' and info.get('trait_raw') and '<' in info['trait_raw']:
            # blanket impl: X: Into<Y> via Y: From<X>
            tr = info['trait_raw']
            Y = tr[tr.index('<') + 1:tr.rindex('>')]
            fy = _match_impl(prog, norm_type(Y), 'From', 'from', trait_raw='From<%s>' % info['T_raw'])
            if fy is not None and (prog.impl_index.get((norm_type(Y).split('::')[-1], 'from'))):
                cands = [c for c in prog.impl_index[(norm_type(Y).split('::')[-1], 'from')] if c[1] == 'From']
                ta = type_sig(info['T_raw'])
                c3 = [c for c in cands if sig_match(c[3], ta)] or [c for c in cands if c[3] and sig_match(c[3].lstrip('&'), ta.lstrip('&'))]
                if c3:
                    return ('mir', c3[0][0])
        if f is None:
            # wrappers that forward: Box<X>, Rc<X>, &X
            raw = info['T_raw'].strip()
            m = re.match(r'^(?:&\s*(?:mut\s+)?)*(?:std::boxed::|std::rc::|std::sync::)?(Box|Rc|Arc)<(.+)>$', raw)
            if m and tl in ('PartialEq', 'PartialOrd', 'Ord', 'Eq', 'Display', 'Debug', 'Hash', 'DeriveShape', 'Visitor', 'Walker'):
                return _resolve(prog, '<%s as %s>::%s' % (m.group(2), trait, rest))
        if f is not None:
            return ('mir', f)
        if tl == 'PartialEq' and rest == 'ne':
            te = _resolve(prog, name[:-2] + 'eq')
            if te[0] == 'mir':
                fe = te[1]

                def ne_via_eq(ctx, a, callee, _fe=fe):
                    r = exec_func(ctx, _fe, a)
                    return z3.Not(r) if is_sym(r) else (not r)
                return ('builtin', ne_via_eq, norm)
        b = prog.find_builtin(norm)
        if b:
            return ('builtin', b, norm)
        # trait default method
        if tl:
            for cand in (tl + '::' + rest, trait + '::' + rest):
                if cand in prog.funcs:
                    return ('mir', prog.funcs[cand])
            fl = [f for f in prog.by_last.get(rest.split('::')[-1], []) if f.name.endswith(tl + '::' + rest)]
            if len(fl) == 1:
                return ('mir', fl[0])
        return ('none', norm)
    # plain path
    if norm in prog.funcs:
        return ('mir', prog.funcs[norm])
    segs = norm.split('::')
    # closures: X::{closure#n}
    if len(segs) >= 2:
        meth = segs[-1]
        k = len(segs) - 1
        while k > 0 and segs[k].startswith('{closure#'):
            k -= 1
        if k < len(segs) - 1:
            meth = '::'.join(segs[k:])
        T = '::'.join(segs[:k])
        if T:
            f = _match_impl(prog, T, None, meth)
            if f is not None:
                return ('mir', f)
    b = prog.find_builtin(norm)
    if b:
        return ('builtin', b, norm)
    # other-crate free function referenced with a longer/shorter trimmed path
    last = segs[-1]
    fl = prog.by_last.get(last, [])
    if len(fl) >= 1:
        # prefer the candidate whose own name is a suffix of the call path or vice versa
        c = [f for f in fl if norm.endswith(f.name) or f.name.endswith(norm)]
        if len(c) == 1:
            return ('mir', c[0])
        if len(c) > 1:
            c.sort(key=lambda f: -len(f.name))
            return ('mir', c[0])
        c = [f for f in fl if f.crate == segs[0]]
        if len(c) == 1:
            return ('mir', c[0])
    return ('none', norm)


class Callee(str):
    """the callee spelling handed to a builtin. rustc prints `path::method::<turbofish>`; builtins that look at the method
    name with endswith()/rsplit('::', 1) must see `method`, not the turbofish, while the generic arguments stay searchable."""
    __slots__ = ('base',)

    def __new__(cls, s):
        o = str.__new__(cls, s)
        o.base = _strip_tail_generics(s)
        return o

    def endswith(self, suffix, *a):
        return str.endswith(self.base, suffix, *a) or str.endswith(self, suffix, *a)

    def rsplit(self, sep=None, maxsplit=-1):
        if sep == '::' and maxsplit == 1:
            return str.rsplit(self.base, sep, maxsplit)
        return str.rsplit(self, sep, maxsplit)


def _strip_tail_generics(s):
    if not s.endswith('>'):
        return s
    d = 0
    for i in range(len(s) - 1, -1, -1):
        c = s[i]
        if c == '>' and (i == 0 or s[i - 1] != '-'):
            d += 1
        elif c == '<':
            d -= 1
            if d == 0:
                return s[:i - 2] if s[max(0, i - 2):i] == '::' else s
    return s


def invoke(ctx, tgt, name, args):
    k = tgt[0]
    if k == 'mir':
        return exec_func(ctx, tgt[1], args)
    if k == 'builtin':
        ctx.note_builtin(tgt[2])
        return tgt[1](ctx, args, name if type(name) is Callee else Callee(name))
    if k == 'closure_call':
        f = args[0]
        a = args[1]
        extra = list(a.fields) if type(a) is Agg else [a]
        if deref_all(f) is None:
            # a capture-less closure is zero-sized: MIR never assigns it; its identity is in the callee's type
            mm = re.match(r'^<&?(?:mut )?\{closure@([^}]*)\} as Fn', name)
            if mm:
                f = Agg('closure@' + mm.group(1), None, ())
        return ctx.call_value(f, extra)
    if k == 'dyn':
        info = tgt[1]
        if not args:
            raise Unsupported('dynamic dispatch without receiver: ' + name)
        tag = type_tag(args[0])
        key = (name, tag)
        t2 = ctx.prog.resolve_cache.get(key)
        if t2 is None:
            rest_raw = info['raw'][info['raw'].index('>::') + 3:] if '>::' in info['raw'] else info['rest']
            if tag.startswith('closure@') and (info['trait'] or '').split('::')[-1] in ('Fn', 'FnMut', 'FnOnce'):
                t2 = ('closure_call',)
            else:
                nm = '<%s as %s>::%s' % (tag, info.get('trait_raw') or info['trait'], rest_raw) if info['trait'] else '<%s>::%s' % (tag, rest_raw)
                t2 = _resolve(ctx.prog, nm)
                if t2[0] == 'dyn':
                    t2 = ('none', nm)
                if t2[0] == 'none' and info['trait']:
                    g = '<_ as %s>::%s' % (info['trait'].split('::')[-1], info['rest'])
                    bfn = ctx.prog.find_builtin(g)
                    if bfn:
                        t2 = ('builtin', bfn, g)
            ctx.prog.resolve_cache[key] = t2
        if t2[0] == 'none':
            raise Unsupported('no MIR/builtin for %s (receiver %s) @ %s' % (name, tag, ctx.where()))
        return invoke(ctx, t2, name, args)
    raise Unsupported('no MIR/builtin for %s [%s] @ %s' % (name, tgt[1], ctx.where()))


# ---------------------------------------------------------------- execution
def exec_func(ctx, f, args):
    if not f.parsed:
        mir.parse_body(f)
    code = f.compiled
    if code is None:
        code = compile_func(ctx.prog, f)
        f.compiled = code
    L = [None] * f.nlocals
    i = 1
    for a in args:
        L[i] = a
        i += 1
    ctx.funcs_touched.add(f.name)
    ctx.depth += 1
    if ctx.depth > ctx.max_depth:
        raise BoundHit('call depth')
    ctx.stack.append(f.name)
    bb = 0
    try:
        while True:
            stmts, term = code[bb]
            ctx.steps += len(stmts) + 1
            if ctx.steps > ctx.fuel:
                raise BoundHit('fuel')
            for st in stmts:
                st(ctx, L)
            bb = term(ctx, L)
            if bb < 0:
                break
    except BaseException:
        if ctx.fail_stack is None:
            ctx.fail_stack = list(ctx.stack) + ['bb%d' % bb]
        raise
    finally:
        ctx.depth -= 1
        ctx.stack.pop()
    r = L[0]
    return UNIT if r is None else r


def compile_func(prog, f):
    code = {}
    for bb, stmts in f.blocks.items():
        cs = []
        term = None
        for st in stmts:
            k = st[0]
            if k == 'assign':
                cs.append(compile_assign(prog, f, st[1], st[2]))
            elif k == 'setdiscr':
                cs.append(compile_setdiscr(prog, f, st[1], st[2]))
            else:
                term = compile_term(prog, f, st)
        if term is None:
            def term(ctx, L, _n=f.name, _bb=bb):
                raise Unsupported('block without terminator in %s bb%d' % (_n, _bb))
        code[bb] = (tuple(cs), term)
    return code


def compile_setdiscr(prog, f, place, n):
    rd = compile_read(prog, f, place)
    wr = compile_write(prog, f, place)

    def st(ctx, L):
        v = rd(ctx, L)
        if v is None:
            v = Agg('?', n, ())
        wr(ctx, L, Agg(v.ty, n, v.fields))
    return st


def compile_assign(prog, f, place, rv):
    l, proj = parse_place(place)
    rvs = rv.strip()
    if not proj and f.types.get(l, '').startswith('std::boxed::Box<') and re.match(r'^(no_retag )?copy \(', rvs) and '(*_' in rvs:
        # `_19 = copy (*_5)` with _19: Box<T>: the compiler copies the *pointer* to project through it
        # (`&mut (*_19).field`). Box is transparent here, so keep the identity: alias the place instead of copying.
        src = rvs.split('copy ', 1)[1]
        sl, sproj = parse_place(src)
        mk = compile_mutref(prog, f, src)
        rd = compile_read(prog, f, src)

        def st_box(ctx, L):
            base = L[sl]
            if type(base) is Ref:
                L[l] = mk(ctx, L)
            else:
                L[l] = rd(ctx, L)
        return st_box
    r = compile_rvalue(prog, f, rv)
    if not proj:
        def st(ctx, L):
            L[l] = r(ctx, L)
        return st
    w = compile_write(prog, f, place)

    def st2(ctx, L):
        w(ctx, L, r(ctx, L))
    return st2


# --- places
def _step_read(ctx, v, p, L):
    k = p[0]
    if k == 'deref':
        if type(v) is Ref:
            return v.load()
        return v
    if k == 'field':
        while type(v) is Ref:
            v = v.load()
        if v is None or (type(v) is Agg and v.ty == '()' and not v.fields):
            return UNIT         # a zero-sized value is never materialised in MIR; neither are its (zero-sized) fields
        if type(v) is not Agg:
            raise Unsupported('field .%d of non-aggregate %r' % (p[1], v))
        try:
            return v.fields[p[1]]
        except IndexError:
            raise Unsupported('field .%d out of range in %r' % (p[1], v))
    if k == 'downcast':
        return v
    if k == 'index':
        idx = L[p[1]]
        items = seq_items(v)
        if is_sym(idx):
            idx = ctx.concretize_int(idx, list(range(len(items))))
        if idx >= len(items):
            raise Panic('index out of bounds')
        return items[idx]
    if k == 'cindex':
        items = seq_items(v)
        return items[len(items) - p[1]] if p[2] else items[p[1]]
    if k == 'subslice':
        items = seq_items(v)
        end = len(items) - p[2] if p[3] else p[2]
        return rebuild_seq(v, items[p[1]:end])
    raise Unsupported('projection ' + repr(p))


def compile_read(prog, f, place):
    l, proj = parse_place(place)
    if not proj:
        def rd0(ctx, L):
            return L[l]
        return rd0
    if len(proj) == 1:
        p0 = proj[0]
        if p0[0] == 'deref':
            def rd1(ctx, L):
                v = L[l]
                if type(v) is Ref:
                    return v.load()
                return v
            return rd1
        if p0[0] == 'field':
            n = p0[1]

            def rd2(ctx, L):
                v = L[l]
                if type(v) is Agg:
                    return v.fields[n]
                return _step_read(ctx, v, p0, L)
            return rd2

    def rd(ctx, L):
        v = L[l]
        for p in proj:
            v = _step_read(ctx, v, p, L)
        return v
    return rd


def _set_path(ctx, v, proj, i, new, L):
    if i == len(proj):
        return new
    p = proj[i]
    k = p[0]
    if k == 'deref':
        if type(v) is Ref:
            # write through the reference with the remaining (resolved) path
            r = v
            for q in proj[i + 1:]:
                r = _extend_ref(ctx, r, q, L)
            r.store(new)
            return v
        return _set_path(ctx, v, proj, i + 1, new, L)
    if k == 'field':
        if type(v) is Ref:
            raise Unsupported('field write on a reference without deref')
        n = p[1]
        if v is None:
            v = Agg('?', None, [None] * (n + 1))
        fl = list(v.fields)
        while len(fl) <= n:
            fl.append(None)
        fl[n] = _set_path(ctx, fl[n], proj, i + 1, new, L)
        return Agg(v.ty, v.variant, fl)
    if k == 'downcast':
        return _set_path(ctx, v, proj, i + 1, new, L)
    if k == 'index' or k == 'cindex':
        items = list(seq_items(v))
        if k == 'index':
            idx = L[p[1]]
            if is_sym(idx):
                raise Unsupported('symbolic index (write)')
        else:
            idx = len(items) - p[1] if p[2] else p[1]
        items[idx] = _set_path(ctx, items[idx], proj, i + 1, new, L)
        return rebuild_seq(v, items)
    raise Unsupported('write projection ' + repr(p))


def compile_write(prog, f, place):
    l, proj = parse_place(place)
    if not proj:
        def wr0(ctx, L, val):
            L[l] = val
        return wr0

    def wr(ctx, L, val):
        L[l] = _set_path(ctx, L[l], proj, 0, val, L)
    return wr


def _extend_ref(ctx, r, p, L):
    k = p[0]
    if k == 'field':
        return r.extend(('f', p[1]))
    if k == 'downcast':
        return r
    if k == 'index':
        idx = L[p[1]]
        if is_sym(idx):
            raise Unsupported('symbolic index (ref)')
        return r.extend(('i', idx))
    if k == 'cindex':
        if p[2]:
            n = len(seq_items(r.load()))
            return r.extend(('i', n - p[1]))
        return r.extend(('i', p[1]))
    if k == 'deref':
        v = r.load()
        if type(v) is Ref:
            return v
        return r
    raise Unsupported('ref projection ' + repr(p))


def compile_mutref(prog, f, place):
    l, proj = parse_place(place)

    def mk(ctx, L):
        r = Ref(L, l, ())
        for p in proj:
            r = _extend_ref(ctx, r, p, L)
        return r
    return mk


# --- operands
def compile_const(prog, f, s):
    s = s.strip()
    if s == 'true':
        return True
    if s == 'false':
        return False
    m = _NUM_RE.match(s)
    if m:
        return int(m.group(1))
    if s.startswith('"'):
        return decode_str_lit(s[1:s.rindex('"')])
    if s.startswith('b"'):
        return decode_str_lit(s[2:s.rindex('"')], as_bytes=True)
    if s.startswith("b'"):
        return decode_str_lit(s[2:-1], as_bytes=True)[0]
    if s.startswith("'"):
        return ord(decode_str_lit(s[1:s.rindex("'")]))
    if s == '()':
        return UNIT
    m = _FLT_RE.match(s)
    if m:
        return float(m.group(1).replace('NaN', 'nan'))
    if s.startswith('ZeroSized: '):
        t = s[len('ZeroSized: '):]
        if t.startswith('{closure@'):
            return Agg('closure@' + t[len('{closure@'):t.index('}')], None, ())
        if t.startswith('fn(') or ' {' in t:
            # fn item: `fn(args) -> ret {path}`
            m = re.search(r'\{([^{}]*(?:\{closure#\d+\})?[^{}]*)\}$', t)
            if m:
                return FnPtr(m.group(1))
        return Agg(norm_type(t), None, ())
    if '{{' in s or re.fullmatch(r'[\w:]+\(.*\)', s, re.S):
        try:
            return _const_agg(prog, f, s)
        except Unsupported:
            pass
    return ('lazy', s)


def _const_agg(prog, f, s):
    """constant aggregates as printed by rustc: `T {{ f: v }}`, `T {{  }}`, `T(v, w)`, scalars"""
    s = s.strip()
    m = re.fullmatch(r'([\w:<>, ]+?) \{\{(.*)\}\}', s, re.S)
    if m and mir.balanced(m.group(2)):
        ty, variant = _agg_head(prog, m.group(1))
        flds = []
        for x in split_top(m.group(2)):
            if x.strip():
                flds.append(_const_agg(prog, f, x.split(': ', 1)[1] if re.match(r'\w+: ', x.strip()) else x))
        return Agg(ty, variant, flds)
    m = re.fullmatch(r'([\w:<>, ]+?)\((.*)\)', s, re.S)
    if m and mir.balanced(m.group(2)) and not s.startswith('('):
        ty, variant = _agg_head(prog, m.group(1))
        return Agg(ty, variant, [_const_agg(prog, f, x) for x in split_top(m.group(2))])
    c = compile_const(prog, f, s[6:] if s.startswith('const ') else s)
    if type(c) is tuple and c and c[0] == 'lazy':
        raise Unsupported('const aggregate ' + s)
    return c


def compile_operand(prog, f, s):
    s = s.strip()
    if s.startswith('no_retag '):
        s = s[9:]
    if s.startswith('move ') or s.startswith('copy '):
        return compile_read(prog, f, s[5:])
    if s.startswith('const '):
        c = compile_const(prog, f, s[6:])
        if type(c) is tuple and c and c[0] == 'lazy':
            expr = c[1]
            cell = []

            def lazy(ctx, L):
                if cell:
                    return cell[0]
                v = eval_const_expr(ctx, f, expr)
                cell.append(v)
                return v
            return lazy
        return lambda ctx, L: c
    # bare path: a function item used as a value
    if re.match(r'^[\w<]', s):
        fp = FnPtr(s)
        return lambda ctx, L: fp
    raise Unsupported('operand? ' + s)


def eval_const_expr(ctx, f, s):
    prog = ctx.prog
    m = re.match(r'(.+)::promoted\[(\d+)\]$', s)
    if m:
        base = m.group(1)
        # the promoted belongs to the function we are in, almost always
        cand = f.name + '::promoted[%s]' % m.group(2)
        c = prog.consts.get(cand)
        if c is None:
            segs = base.split('::')
            for k in range(1, len(segs)):
                c = prog.consts.get('::'.join(segs[k:]) + '::promoted[%s]' % m.group(2))
                if c is not None:
                    break
        if c is None:
            tgt = resolve(prog, base)
            if tgt[0] == 'mir':
                c = prog.consts.get(tgt[1].name + '::promoted[%s]' % m.group(2))
        if c is None:
            raise Unsupported('promoted const? ' + s)
        return exec_func(ctx, c, [])
    m = re.match(r'\{alloc\d+: &(.+)\}$', s)
    if m:
        ty = m.group(1)
        for name, c in prog.consts.items():
            if c.header.startswith('static ') and re.match(r'static (?:mut )?\S+: ' + re.escape(ty) + r' = ', c.header):
                if name not in prog.static_vals:
                    prog.static_vals[name] = CellV(exec_func(ctx, c, []))
                return prog.static_vals[name]
        raise Unsupported('static alloc? ' + s)
    if s in prog.consts:
        return exec_func(ctx, prog.consts[s], [])
    m = re.fullmatch(r'(?:core::num::|std::)?(?:<impl )?([iu](?:8|16|32|64|128|size))>?::(MIN|MAX|BITS)', s)
    if m:
        bits, signed = ty_bits(m.group(1))
        if m.group(2) == 'BITS':
            return bits
        if signed:
            return -(1 << (bits - 1)) if m.group(2) == 'MIN' else (1 << (bits - 1)) - 1
        return 0 if m.group(2) == 'MIN' else (1 << bits) - 1
    st = strip_generics(s)
    if st in prog.consts:
        return exec_func(ctx, prog.consts[st], [])
    if st in ('Option::None', 'std::option::Option::None', 'core::option::Option::None'):
        return NONE
    if st in ('std::ops::RangeFull', 'core::ops::RangeFull', 'RangeFull'):
        return Agg('RangeFull', None, ())
    if re.match(r'^(std|core)::iter::Empty(::<.*>)?\(', s):
        return Agg('It:seq', None, ((), 0, 0))
    # a const declared inside a function: defined under a trimmed path, referenced by a longer one
    segs = st.split('::')
    for k in range(1, len(segs)):
        cand = '::'.join(segs[k:])
        if k == len(segs) - 1 and not re.fullmatch(r'_*[A-Z][A-Z0-9_]*', cand):
            break           # a bare last segment only for SCREAMING_CASE item names (consts, statics)
        if cand in prog.consts:
            return exec_func(ctx, prog.consts[cand], [])
    # unit-like enum variant / function item used as a const
    m = re.fullmatch(r'(.+)::(\w+)', st)
    if m:
        try:
            idx = prog.sources.variant_index(m.group(1), m.group(2))
            return Agg(m.group(1), idx, ())
        except KeyError:
            pass
    b = prog.find_builtin('const ' + st)
    if b:
        return b(ctx, [], s)
    tgt = resolve(prog, s)
    if tgt[0] in ('mir', 'builtin'):
        return FnPtr(s)
    if re.search(r'::\{constant#\d+\}$', st):
        return FnPtr(st)        # an anonymous (inline) const the dump prints without the `const` keyword; only its identity is used
    raise Unsupported('const? ' + s)


# --- rvalues
BINOPS = {'Add', 'Sub', 'Mul', 'Div', 'Rem', 'Eq', 'Ne', 'Lt', 'Le', 'Gt', 'Ge', 'BitAnd', 'BitOr', 'BitXor', 'Shl', 'Shr',
          'Offset', 'AddUnchecked', 'SubUnchecked', 'MulUnchecked', 'ShlUnchecked', 'ShrUnchecked', 'Cmp'}


def operand_type(f, s):
    s = s.strip()
    if s.startswith('no_retag '):
        s = s[9:]
    m = re.match(r'(?:move|copy) _(\d+)$', s)
    if m:
        return f.types.get(int(m.group(1)), '')
    m = re.search(r'_((?:u|i)(?:\d+|size))$', s)
    if m and s.startswith('const'):
        return m.group(1)
    if s.startswith('const '):
        if s[6:7] == "'":
            return 'char'
        if s[6:] in ('true', 'false'):
            return 'bool'
        if s.endswith('f64'):
            return 'f64'
        return ''
    # place with projections: type annotation of the last field projection
    m = re.search(r': ([^()]+)\)$', s)
    if m:
        return m.group(1).strip()
    return ''


def compile_rvalue(prog, f, s):
    s = s.strip()
    if s.startswith(('move ', 'copy ', 'const ', 'no_retag ')):
        m = re.fullmatch(r'(.+) as (.+?) \((\w+)(\(.*\))?\)', s, re.S)
        if m and not s.startswith('const "'):
            return compile_cast(prog, f, m.group(1), m.group(2).strip(), m.group(3))
        return compile_operand(prog, f, s)
    if s.startswith('&'):
        body = s[1:]
        mut = False
        if body.startswith('raw const '):
            body = body[len('raw const '):]
        elif body.startswith('raw mut '):
            body = body[len('raw mut '):]
            mut = True
        elif body.startswith('mut '):
            body = body[4:]
            mut = True
        body = body.replace('fake shallow ', '').replace('fake ', '')
        if mut:
            return compile_mutref(prog, f, body)
        return compile_read(prog, f, body)
    m = re.fullmatch(r'discriminant\((.+)\)', s, re.S)
    if m:
        rd = compile_read(prog, f, m.group(1))

        def disc(ctx, L):
            v = rd(ctx, L)
            while type(v) is Ref:
                v = v.load()
            if type(v) is Agg and v.variant is not None:
                return v.variant
            raise Unsupported('discriminant of %r' % (v,))
        return disc
    m = re.fullmatch(r'(\w+)\((.+)\)', s, re.S)
    if m:
        head = m.group(1)
        if head in BINOPS:
            parts = split_top(m.group(2))
            a = compile_operand(prog, f, parts[0])
            b = compile_operand(prog, f, parts[1])
            tb = ty_bits(operand_type(f, parts[0])) or ty_bits(operand_type(f, parts[1])) or (None, False)
            if operand_type(f, parts[0]) in ('f64', 'f32') or operand_type(f, parts[1]) in ('f64', 'f32'):
                tb = (None, True)
            op = head.replace('Unchecked', '')
            bits, signed = tb
            if op in ('Shl', 'Shr'):
                tb0 = ty_bits(operand_type(f, parts[0])) or (64, False)
                bits, signed = tb0
            if op == 'Cmp':
                def cmp3(ctx, L):
                    x = a(ctx, L)
                    y = b(ctx, L)
                    lt = binop('Lt', x, y, bits, signed)
                    eq = binop('Eq', x, y, bits, signed)
                    if is_sym(lt) or is_sym(eq):
                        k = ctx.decide([to_bool(lt), to_bool(eq), z3.And(z3.Not(to_bool(lt)), z3.Not(to_bool(eq)))])
                        return Agg('Ordering', (-1, 0, 1)[k], ())
                    return Agg('Ordering', -1 if lt else (0 if eq else 1), ())
                return cmp3

            def bo(ctx, L):
                return binop(op, a(ctx, L), b(ctx, L), bits, signed)
            return bo
        if head in ('AddWithOverflow', 'SubWithOverflow', 'MulWithOverflow'):
            op = head[:3]
            parts = split_top(m.group(2))
            a = compile_operand(prog, f, parts[0])
            b = compile_operand(prog, f, parts[1])
            bits, signed = ty_bits(operand_type(f, parts[0])) or ty_bits(operand_type(f, parts[1])) or (64, False)

            def wo(ctx, L):
                x = a(ctx, L)
                y = b(ctx, L)
                return Agg('tuple', None, (binop(op, x, y, bits, signed), overflow_flag(op, x, y, bits, signed)))
            return wo
        if head == 'Not':
            a = compile_operand(prog, f, m.group(2))
            tbn = ty_bits(operand_type(f, m.group(2)))

            def nt(ctx, L):
                v = a(ctx, L)
                if is_sym(v):
                    return z3.Not(v) if z3.is_bool(v) else ~v
                if type(v) is bool:
                    return not v
                if tbn:
                    return wrap(~v, tbn[0], tbn[1])
                return ~v
            return nt
        if head == 'Neg':
            a = compile_operand(prog, f, m.group(2))

            def ng(ctx, L):
                v = a(ctx, L)
                if is_fp(v):
                    return z3.fpNeg(v)
                return -v
            return ng
        if head in ('Len', 'PtrMetadata'):
            arg = m.group(2)
            a = compile_operand(prog, f, arg) if arg.startswith(('move', 'copy', 'const')) else compile_read(prog, f, arg)

            def ln(ctx, L):
                return len(seq_items(deref_all(a(ctx, L))))
            return ln
        if head == 'CopyForDeref':
            return compile_read(prog, f, m.group(2))
        if head in ('SizeOf', 'AlignOf', 'ShallowInitBox', 'UbChecks', 'ContractChecks'):
            if head == 'ShallowInitBox':
                parts = split_top(m.group(2))
                return compile_operand(prog, f, parts[0])
            return lambda ctx, L: False if head in ('UbChecks', 'ContractChecks') else 8
    if s.startswith('[') and s.endswith(']'):
        inner = s[1:-1]
        parts = split_top(inner, ';')
        if len(parts) == 2 and balanced_semicolon(inner):
            a = compile_operand(prog, f, parts[0])
            n = int(re.match(r'(?:const )?(\d+)', parts[1]).group(1))
            return lambda ctx, L: VecV([a(ctx, L)] * n)
        ops = [compile_operand(prog, f, x) for x in split_top(inner)]
        return lambda ctx, L: VecV([o(ctx, L) for o in ops])
    if s.startswith('(') and s.endswith(')'):
        ops = [compile_operand(prog, f, x) for x in split_top(s[1:-1])]
        if not ops:
            return lambda ctx, L: UNIT
        return lambda ctx, L: Agg('tuple', None, [o(ctx, L) for o in ops])
    if s.startswith('{closure@') or s.startswith('{coroutine@'):
        m = re.fullmatch(r'\{closure@([^}]*)\}(?: \{ (.*) \})?', s, re.S)
        ty = 'closure@' + m.group(1)
        flds = [x.split(': ', 1)[1] for x in split_top(m.group(2) or '')]
        ops = [compile_operand(prog, f, x) for x in flds]
        return lambda ctx, L: Agg(ty, None, [o(ctx, L) for o in ops])
    # struct literal  `Path { f: v, ... }`
    m = re.fullmatch(r'(.+?) \{ (.*) \}', s, re.S)
    if m and mir.balanced(m.group(1)) and not m.group(1).startswith(('move', 'copy')):
        head = m.group(1)
        flds = [x.split(': ', 1)[1] for x in split_top(m.group(2))]
        ops = [compile_operand(prog, f, x) for x in flds]
        ty, variant = _agg_head(prog, head)
        return lambda ctx, L: Agg(ty, variant, [o(ctx, L) for o in ops])
    m = re.fullmatch(r'(.+?) \{ \}', s) or re.fullmatch(r'(.+?) \{\}', s)
    if m:
        ty, variant = _agg_head(prog, m.group(1))
        return lambda ctx, L: Agg(ty, variant, ())
    # enum tuple variant / tuple struct  `Path::Variant(args)`
    if s.endswith(')'):
        head, args = mir.split_call(s)
        if head and re.fullmatch(r"[\w:<>', &\[\]();{}@./#\-*]+", head) and not head.startswith(('move ', 'copy ')):
            ops = [compile_operand(prog, f, x) for x in split_top(args)]
            ty, variant = _agg_head(prog, head)
            return lambda ctx, L: Agg(ty, variant, [o(ctx, L) for o in ops])
    # unit variant / unit struct
    if re.fullmatch(r'[\w:<>\', &\[\]();]+', s):
        ty, variant = _agg_head(prog, s)
        v = Agg(ty, variant, ())
        return lambda ctx, L: v
    raise Unsupported('rvalue? ' + s)


def balanced_semicolon(inner):
    return len(split_top(inner, ';')) == 2 and len(split_top(inner, ',')) == 1


_STD_ENUMS = {
    'Option': ['None', 'Some'], 'Result': ['Ok', 'Err'], 'ControlFlow': ['Continue', 'Break'],
    'Ordering': ['Less', 'Equal', 'Greater'], 'Component': ['Prefix', 'RootDir', 'CurDir', 'ParentDir', 'Normal'], 'Cow': ['Borrowed', 'Owned'], 'Bound': ['Included', 'Excluded', 'Unbounded'],
}


# variant order of third-party enums that ucg code constructs / matches (from the crates' public documentation)
EXT_ENUMS = {
    'serde_json::Value': ['Null', 'Bool', 'Number', 'String', 'Array', 'Object'],
    'serde_yaml::Value': ['Null', 'Bool', 'Number', 'String', 'Sequence', 'Mapping', 'Tagged'],
    'toml::Value': ['String', 'Integer', 'Float', 'Boolean', 'Datetime', 'Array', 'Table'],
    'xml::common::XmlVersion': ['Version10', 'Version11'],
    'XmlVersion': ['Version10', 'Version11'],
    'xml::writer::XmlEvent': ['StartDocument', 'ProcessingInstruction', 'StartElement', 'EndElement', 'CData', 'Comment', 'Characters'],
    'std::io::ErrorKind': ['NotFound', 'PermissionDenied', 'ConnectionRefused', 'ConnectionReset', 'HostUnreachable', 'NetworkUnreachable', 'ConnectionAborted', 'NotConnected', 'AddrInUse',
                           'AddrNotAvailable', 'NetworkDown', 'BrokenPipe', 'AlreadyExists', 'WouldBlock', 'NotADirectory', 'IsADirectory', 'DirectoryNotEmpty', 'ReadOnlyFilesystem',
                           'FilesystemLoop', 'StaleNetworkFileHandle', 'InvalidInput', 'InvalidData', 'TimedOut', 'WriteZero', 'StorageFull', 'NotSeekable', 'QuotaExceeded', 'FileTooLarge',
                           'ResourceBusy', 'ExecutableFileBusy', 'Deadlock', 'CrossesDevices', 'TooManyLinks', 'InvalidFilename', 'ArgumentListTooLong', 'Interrupted', 'Unsupported',
                           'UnexpectedEof', 'OutOfMemory', 'InProgress', 'Other', 'Uncategorized'],
}


def _ext_enum(ty):
    for k, vs in EXT_ENUMS.items():
        if ty == k or ty.endswith('::' + k) or k.endswith('::' + ty) and '::' in ty:
            return k, vs
    return None


def _agg_head(prog, head):
    """`path::Type::<G>::Variant` or `path::Type::<G>` -> (type name, variant index or None)"""
    h = strip_generics(head)
    segs = h.split('::')
    last = segs[-1]
    if len(segs) >= 3 or (len(segs) == 2 and segs[0] in ('XmlVersion',)):
        ee = _ext_enum('::'.join(segs[:-1]))
        if ee and last in ee[1]:
            return (ee[0], ee[1].index(last))
    if len(segs) == 1 and not prog.sources._pick(prog.sources.structs, last) and last not in ('Some', 'None', 'Ok', 'Err'):
        # rustc trims paths to the shortest unique spelling: a bare variant name of a third-party enum
        owners = [(k, vs) for k, vs in EXT_ENUMS.items() if last in vs and '::' in k and not k.startswith('std::')]
        if len(owners) == 1:
            return (owners[0][0], owners[0][1].index(last))
    if len(segs) >= 2:
        tyname = segs[-2]
        ty = '::'.join(segs[:-1])
        if tyname in _STD_ENUMS and last in _STD_ENUMS[tyname] and not prog.sources._pick(prog.sources.enums, ty):
            idx = _STD_ENUMS[tyname].index(last)
            if tyname == 'Ordering':
                idx -= 1
            return (tyname, idx)
        vs = None
        try:
            vs = prog.sources.enum_variants(ty)
        except KeyError:
            vs = None
        if vs is not None and any(v[0] == last for v in vs):
            return (_canon_ty(prog, ty), [v[0] for v in vs].index(last))
        if tyname in _STD_ENUMS and last in _STD_ENUMS[tyname]:
            idx = _STD_ENUMS[tyname].index(last)
            if tyname == 'Ordering':
                idx -= 1
            return (tyname, idx)
    return (_canon_ty(prog, h), None)


_CANON = {}


def _canon_ty(prog, ty):
    """canonical type name: declared module path + name when the type is found in the scanned sources"""
    r = _CANON.get(ty)
    if r is None:
        r = ty
        for table in (prog.sources.enums, prog.sources.structs):
            c = prog.sources._pick(table, ty)
            if len(c) >= 1 and all(x[0][1] == c[0][0][1] for x in c):
                if len(c) == 1:
                    r = c[0][0][0] + '::' + c[0][0][1]
                    break
        _CANON[ty] = r
    return r


def compile_cast(prog, f, opnd, tgt, kind):
    a = compile_operand(prog, f, opnd)
    if kind == 'IntToInt':
        tb = ty_bits(tgt)
        sb = ty_bits(operand_type(f, opnd))

        def c1(ctx, L):
            v = a(ctx, L)
            if type(v) is Agg and v.variant is not None and not v.fields:
                v = v.variant      # fieldless enum as integer
            if is_sym(v):
                if z3.is_bool(v):
                    return z3.If(v, z3.BitVecVal(1, tb[0]), z3.BitVecVal(0, tb[0]))
                sw = v.size()
                if tb[0] > sw:
                    return z3.SignExt(tb[0] - sw, v) if (sb and sb[1]) else z3.ZeroExt(tb[0] - sw, v)
                if tb[0] < sw:
                    return z3.Extract(tb[0] - 1, 0, v)
                return v
            if tb:
                return wrap(int(v), tb[0], tb[1])
            return v
        return c1
    if kind == 'IntToFloat':
        sb = ty_bits(operand_type(f, opnd)) or (64, True)

        def c2(ctx, L):
            v = a(ctx, L)
            if is_sym(v):
                return z3.fpSignedToFP(RNE, v, F64) if sb[1] else z3.fpUnsignedToFP(RNE, v, F64)
            return float(v)
        return c2
    if kind == 'FloatToInt':
        tb = ty_bits(tgt) or (64, True)

        def c3(ctx, L):
            v = a(ctx, L)
            bits, signed = tb
            lo, hi = (-(1 << (bits - 1)), (1 << (bits - 1)) - 1) if signed else (0, (1 << bits) - 1)
            if is_sym(v):
                # Rust `as`: saturating, NaN -> 0
                conv = z3.fpToSBV(z3.RTZ(), v, z3.BitVecSort(bits)) if signed else z3.fpToUBV(z3.RTZ(), v, z3.BitVecSort(bits))
                flo = z3.FPVal(float(lo), F64)
                fhi = z3.FPVal(float(hi), F64)   # note: 2^63 as f64 for i64::MAX (rounded up)
                return z3.If(z3.fpIsNaN(v), z3.BitVecVal(0, bits),
                             z3.If(z3.fpLEQ(v, flo), z3.BitVecVal(lo, bits),
                                   z3.If(z3.fpGEQ(v, fhi), z3.BitVecVal(hi, bits), conv)))
            if v != v:
                return 0
            if v <= lo:
                return lo
            if v >= hi:
                return hi
            return int(v)
        return c3
    if kind == 'FloatToFloat':
        return a
    if kind == 'PointerCoercion' or kind in ('Transmute', 'PtrToPtr', 'PointerExposeProvenance', 'PointerWithExposedProvenance', 'FnPtrToPtr'):
        # Unsize / ReifyFnPointer / ClosureFnPointer: identity on our value representation
        return a
    raise Unsupported('cast kind ' + kind)


# --- terminators
def compile_term(prog, f, st):
    k = st[0]
    if k == 'goto':
        n = st[1]
        return lambda ctx, L: n
    if k == 'return':
        return lambda ctx, L: -1
    if k == 'unreachable':
        def un(ctx, L):
            raise Panic('entered unreachable code', f.name)
        return un
    if k == 'resume':
        def rs(ctx, L):
            raise Unsupported('resume')
        return rs
    if k == 'switch':
        a = compile_operand(prog, f, st[1])
        targets = st[2]
        other = st[3]
        table = dict(targets)
        groups = {}
        for kk, b in targets:
            groups.setdefault(b, []).append(kk)
        glist = list(groups.items())

        def sw(ctx, L):
            v = a(ctx, L)
            tv = type(v)
            if tv is bool:
                v = 1 if v else 0
                return table.get(v, other)
            if tv is int:
                r = table.get(v)
                if r is None:
                    # negative discriminants are printed as their unsigned bit pattern
                    if v < 0:
                        for bits in (8, 16, 32, 64, 128):
                            r = table.get(v & ((1 << bits) - 1))
                            if r is not None:
                                return r
                    return other
                return r
            if not is_sym(v):
                raise Unsupported('switchInt on %r' % (v,))
            if z3.is_bool(v):
                conds = []
                dests = []
                t1 = table.get(1)
                t0 = table.get(0)
                conds.append(v)
                dests.append(t1 if t1 is not None else other)
                conds.append(z3.Not(v))
                dests.append(t0 if t0 is not None else other)
                return dests[ctx.decide(conds)]
            w = v.size()
            conds = []
            dests = []
            for b, ks in glist:
                conds.append(z3.Or(*[v == z3.BitVecVal(x, w) for x in ks]) if len(ks) > 1 else v == z3.BitVecVal(ks[0], w))
                dests.append(b)
            if other is not None:
                conds.append(z3.And(*[v != z3.BitVecVal(x, w) for x, _ in targets]))
                dests.append(other)
            return dests[ctx.decide(conds)]
        return sw
    if k == 'assert':
        a = compile_operand(prog, f, st[1])
        neg = st[2]
        msg = st[3]
        nb = st[4]

        def asr(ctx, L):
            c = a(ctx, L)
            if is_sym(c):
                okc = z3.Not(c) if neg else c
                if ctx.branch(okc):
                    return nb
                raise Panic(msg, f.name)
            if bool(c) == neg:
                raise Panic(msg, f.name)
            return nb
        return asr
    if k == 'call':
        return compile_call(prog, f, st)
    raise Unsupported('terminator ' + repr(st))


def compile_call(prog, f, st):
    _, dest, callee, args, nb = st
    argc = [compile_operand(prog, f, a) for a in args]
    wr = compile_write(prog, f, dest) if dest else None
    local_callee = None
    if re.match(r'(move|copy) ', callee):
        local_callee = compile_operand(prog, f, callee)
    cell = []

    def call(ctx, L):
        av = [a(ctx, L) for a in argc]
        if local_callee is not None:
            fv = local_callee(ctx, L)
            r = ctx.call_value(fv, av)
        else:
            if cell:
                tgt = cell[0]
            else:
                tgt = resolve(ctx.prog, callee)
                cell.append(tgt)
            if tgt[0] == 'mir':
                r = exec_func(ctx, tgt[1], av)
            else:
                r = invoke(ctx, tgt, callee, av)
        if nb is None:
            raise Panic('diverging call returned: ' + callee, f.name)
        if wr is not None:
            wr(ctx, L, r)
        return nb
    return call
