"""More std/alloc/core builtins (second batch): APIs that ucg does not call today but that a small refactoring could
introduce. A check whose path reaches an unknown std call is inconclusive, which is not detection, so the common surface of
Option/Result/Iterator/slice/Vec/str/String/integers/maps/sets/Rc/RefCell/Cell/char/Path/fs is modelled ahead of need.
Found by dumping the MIR of a probe crate that calls these APIs (tools/std_probes.rs, tools/probe_mir.py).
Strings: concrete `str` values are handled exactly; a SymStr is accepted where the operation is byte-wise and simple, otherwise
the builtin raises Unsupported (inconclusive), never a guess."""
import functools
import re
import z3

from .interp import (Panic, Unsupported, resolve, exec_func, binop, to_bv, to_bool, ty_bits, overflow_flag)
from .vals import inner_ref as R
from .vals import (Agg, VecV, MapV, SymStr, CellV, Ref, FnPtr, Opaque, PathV, FmtV, UNIT, NONE, some, ok, err, tup, is_sym,
                   seq_items, rebuild_seq, assemble, deref_all as D)
from .bi_core import (is_none, opt_val, sym_eq, znot, it_seq, it_next, it_drain, as_it, store_it, map_key)


def install(prog):
    B = prog.builtin

    def int_info(callee):
        m = re.search(r'impl ([iu](?:8|16|32|64|128|size))>', callee) or re.search(r'\b([iu](?:8|16|32|64|128|size))\b', callee)
        if not m:
            return 64, True
        return ty_bits(m.group(1))

    def cmpv(ctx, x, y):
        b = prog.find_builtin('<i64 as Ord>::cmp')
        r = b(ctx, [x, y], '<i64 as Ord>::cmp')
        return D(r).variant

    def concrete_str(v, what):
        v = D(v)
        if type(v) is str:
            return v
        if type(v) is SymStr and not any(is_sym(b) for b in v.bytes):
            return bytes(v.bytes).decode('utf-8', 'replace')
        if type(v) is FmtV:
            try:
                bs = seq_items(v)
                if not any(is_sym(b) or type(b) is not int for b in bs):
                    return bytes(bs).decode('utf-8', 'replace')
            except Exception:
                pass
        raise Unsupported('%s on a symbolic string' % what)

    def pat_of(ctx, p):
        """a str::pattern argument: str | char (int) | closure -> predicate over python chars / a literal string"""
        p0 = D(p)
        if type(p0) is str:
            return ('str', p0)
        if type(p0) is int:
            return ('str', chr(p0))
        if type(p0) is SymStr:
            return ('str', concrete_str(p0, 'pattern'))
        return ('fn', p)

    def split_by(ctx, s, pat):
        """-> list of (start, end) of matches of the pattern in s"""
        kind, p = pat
        out = []
        if kind == 'str':
            if p == '':
                raise Unsupported('empty pattern')
            i = 0
            while True:
                j = s.find(p, i)
                if j < 0:
                    break
                out.append((j, j + len(p)))
                i = j + len(p)
        else:
            for i, ch in enumerate(s):
                if ctx.branch(to_bool(ctx.call_value(p, [ord(ch)]))):
                    out.append((i, i + 1))
        return out

    def default_value(ctx, t):
        t = t.strip().lstrip('&').strip()
        if re.fullmatch(r'[iu](8|16|32|64|128|size)', t):
            return 0
        if t == 'bool':
            return False
        if t in ('f64', 'f32'):
            return 0.0
        if t in ('str', 'String', 'std::string::String'):
            return ''
        if t == '()':
            return UNIT
        if re.match(r'^(std::option::)?Option<', t):
            return NONE
        if re.match(r'^(std::vec::)?Vec<', t):
            return VecV(())
        m = re.match(r'^(?:std::collections::)?(BTreeMap|HashMap|BTreeSet|HashSet)<', t)
        if m:
            return MapV(m.group(1))
        tgt = resolve(ctx.prog, '<%s as Default>::default' % t)
        if tgt[0] == 'mir':
            return exec_func(ctx, tgt[1], [])
        if tgt[0] == 'builtin':
            return tgt[1](ctx, [], '<%s as Default>::default' % t)
        raise Unsupported('no Default for ' + t)

    @B('Result::unwrap_or_default')
    def b_res_unwrap_or_default(ctx, a, callee):
        v = D(a[0])
        if v.variant == 0:
            return v.fields[0]
        from .mir import split_top
        m = re.search(r'Result::<(.*)>::unwrap_or_default', callee, re.S)
        if not m:
            raise Unsupported('unwrap_or_default without type arguments')
        return default_value(ctx, split_top(m.group(1))[0])

    # ------------------------------------------------------------------ Option / Result
    @B('Option::map_or_else')
    def b_opt_map_or_else(ctx, a, callee):
        v = D(a[0])
        return ctx.call_value(a[1], []) if v.variant == 0 else ctx.call_value(a[2], [v.fields[0]])

    @B('Option::zip')
    def b_opt_zip(ctx, a, callee):
        x, y = D(a[0]), D(a[1])
        return some(tup(x.fields[0], y.fields[0])) if x.variant == 1 and y.variant == 1 else NONE

    @B('Option::xor')
    def b_opt_xor(ctx, a, callee):
        x, y = D(a[0]), D(a[1])
        if x.variant == 1 and y.variant == 0:
            return x
        if x.variant == 0 and y.variant == 1:
            return y
        return NONE

    @B('Option::get_or_insert_with', 'Option::get_or_insert', 'Option::insert')
    def b_opt_get_or_insert_with(ctx, a, callee):
        r = R(a[0])
        v = D(r.load())
        if callee.endswith('::insert'):
            r.store(some(a[1]))
        elif v.variant == 0:
            r.store(some(ctx.call_value(a[1], []) if callee.endswith('with') else a[1]))
        return r.extend(('f', 0))

    @B('Option::flatten')
    def b_opt_flatten(ctx, a, callee):
        v = D(a[0])
        return NONE if v.variant == 0 else v.fields[0]

    @B('Option::inspect', 'Result::inspect')
    def b_inspect(ctx, a, callee):
        v = D(a[0])
        if v.variant == (1 if callee.startswith('Option') else 0):
            ctx.call_value(a[1], [v.fields[0]])
        return a[0]

    @B('Result::inspect_err')
    def b_inspect_err(ctx, a, callee):
        v = D(a[0])
        if v.variant == 1:
            ctx.call_value(a[1], [v.fields[0]])
        return a[0]

    @B('Result::map_or')
    def b_res_map_or(ctx, a, callee):
        v = D(a[0])
        return ctx.call_value(a[2], [v.fields[0]]) if v.variant == 0 else a[1]

    @B('Result::map_or_else')
    def b_res_map_or_else(ctx, a, callee):
        v = D(a[0])
        return ctx.call_value(a[2], [v.fields[0]]) if v.variant == 0 else ctx.call_value(a[1], [v.fields[0]])

    @B('Result::is_ok_and', 'Result::is_err_and', 'Option::is_none_or')
    def b_res_is_and(ctx, a, callee):
        v = D(a[0])
        if callee.startswith('Option'):
            return True if v.variant == 0 else ctx.call_value(a[1], [v.fields[0]])
        want = 0 if 'is_ok_and' in callee else 1
        return ctx.call_value(a[1], [v.fields[0]]) if v.variant == want else False

    @B('Result::iter', 'Result::into_iter')
    def b_res_iter(ctx, a, callee):
        v = D(a[0])
        return it_seq([v.fields[0]] if v.variant == 0 else [])

    @B('Result::expect_err', 'Result::unwrap_err')
    def b_res_unwrap_err(ctx, a, callee):
        v = D(a[0])
        if v.variant == 0:
            raise Panic('called `Result::%s()` on an `Ok` value' % callee.rsplit('::', 1)[1], ctx.where())
        return v.fields[0]

    @B('Result::flatten')
    def b_res_flatten(ctx, a, callee):
        v = D(a[0])
        return v.fields[0] if v.variant == 0 else v

    # ------------------------------------------------------------------ iterators
    def drain(ctx, x):
        return it_drain(ctx, as_it(ctx, x))

    @B('re:^<.* as Iterator>::skip_while$')
    def b_skip_while(ctx, a, callee):
        xs = drain(ctx, a[0])
        i = 0
        while i < len(xs) and ctx.branch(to_bool(ctx.call_value(a[1], [xs[i]]))):
            i += 1
        return it_seq(xs[i:])

    @B('re:^<.* as Iterator>::(take_while|map_while)$')
    def b_take_while(ctx, a, callee):
        out = []
        mw = callee.endswith('map_while')
        for x in drain(ctx, a[0]):
            r = ctx.call_value(a[1], [x])
            if mw:
                r = D(r)
                if r.variant == 0:
                    break
                out.append(r.fields[0])
            else:
                if not ctx.branch(to_bool(r)):
                    break
                out.append(x)
        return it_seq(out)

    @B('re:^<.* as Iterator>::step_by$')
    def b_step_by(ctx, a, callee):
        n = D(a[1])
        if n == 0:
            raise Panic('assertion failed: step != 0', ctx.where())
        return it_seq(drain(ctx, a[0])[::n])

    @B('re:^<.* as Iterator>::(min_by_key|max_by_key)$')
    def b_minmax_by_key(ctx, a, callee):
        xs = drain(ctx, a[0])
        if not xs:
            return NONE
        best, bk = xs[0], ctx.call_value(a[1], [xs[0]])
        mx = callee.endswith('max_by_key')
        for x in xs[1:]:
            k = ctx.call_value(a[1], [x])
            c = cmpv(ctx, k, bk)
            if (mx and c >= 0) or (not mx and c < 0):
                best, bk = x, k
        return some(best)

    @B('re:^<.* as Iterator>::(min_by|max_by)$')
    def b_minmax_by(ctx, a, callee):
        xs = drain(ctx, a[0])
        if not xs:
            return NONE
        best = xs[0]
        mx = callee.endswith('max_by')
        for x in xs[1:]:
            c = D(ctx.call_value(a[1], [x, best])).variant
            if (mx and c >= 0) or (not mx and c < 0):
                best = x
        return some(best)

    @B('re:^<.* as Iterator>::product$')
    def b_product(ctx, a, callee):
        m = re.search(r'product::<(\w+)>', callee)
        t = m.group(1) if m else 'i64'
        if t.startswith('f'):
            acc = 1.0
            for x in drain(ctx, a[0]):
                acc = binop('Mul', acc, D(x), None, True)
            return acc
        bits, signed = ty_bits(t)
        acc = 1
        for x in drain(ctx, a[0]):
            x = D(x)
            if ctx.branch(overflow_flag('Mul', acc, x, bits, signed)):
                raise Panic('attempt to multiply with overflow', ctx.where())
            acc = binop('Mul', acc, x, bits, signed)
        return acc

    @B('re:^<.* as Iterator>::reduce$')
    def b_reduce(ctx, a, callee):
        xs = drain(ctx, a[0])
        if not xs:
            return NONE
        acc = xs[0]
        for x in xs[1:]:
            acc = ctx.call_value(a[1], [acc, x])
        return some(acc)

    @B('re:^<.* as Iterator>::(try_fold|try_for_each)$')
    def b_try_fold(ctx, a, callee):
        fold = callee.endswith('try_fold')
        acc = a[1] if fold else UNIT
        f = a[2] if fold else a[1]
        it = as_it(ctx, a[0])
        while True:
            o, it = it_next(ctx, it)
            if is_none(o):
                break
            r = D(ctx.call_value(f, [acc, opt_val(o)] if fold else [opt_val(o)]))
            # Try: Option (None=0 stops) / Result (Err=1 stops) / ControlFlow (Break=1 stops)
            if r.ty in ('Option',):
                if r.variant == 0:
                    store_it(a[0], it)
                    return r
                acc = r.fields[0]
            else:
                if r.variant == 1:
                    store_it(a[0], it)
                    return r
                acc = r.fields[0] if r.fields else UNIT
        store_it(a[0], it)
        m = re.search(r'(Option|Result|ControlFlow)<', callee)
        kind = m.group(1) if m else None
        if kind == 'Option':
            return some(acc)
        return Agg(kind or 'Result', 0, (acc,))

    @B('re:^<.* as Iterator>::partition$')
    def b_partition(ctx, a, callee):
        yes, no = [], []
        for x in drain(ctx, a[0]):
            (yes if ctx.branch(to_bool(ctx.call_value(a[1], [x]))) else no).append(x)
        return tup(VecV(yes), VecV(no))

    @B('re:^<.* as Iterator>::scan$')
    def b_scan(ctx, a, callee):
        st = CellV(a[1])
        out = []
        for x in drain(ctx, a[0]):
            r = D(ctx.call_value(a[2], [Ref(st.slot, 0, ()), x]))
            if r.variant == 0:
                break
            out.append(r.fields[0])
        return it_seq(out)

    @B('re:^<.* as Iterator>::(eq|ne)$')
    def b_it_eq(ctx, a, callee):
        xs, ys = drain(ctx, a[0]), drain(ctx, a[1])
        if len(xs) != len(ys):
            r = False
        else:
            cs = [sym_eq(ctx, p, q) for p, q in zip(xs, ys)]
            if any(c is False for c in cs):
                r = False
            else:
                cs = [c for c in cs if c is not True]
                r = z3.And(*cs) if cs else True
        return znot(r) if callee.endswith('ne') else r

    @B('re:^<.* as Iterator>::(cmp|partial_cmp)$')
    def b_it_cmp(ctx, a, callee):
        xs, ys = drain(ctx, a[0]), drain(ctx, a[1])
        c = 0
        for p, q in zip(xs, ys):
            c = cmpv(ctx, p, q)
            if c:
                break
        if c == 0:
            c = -1 if len(xs) < len(ys) else (0 if len(xs) == len(ys) else 1)
        o = Agg('Ordering', c, ())
        return some(o) if callee.endswith('partial_cmp') else o

    @B('re:^<.* as Iterator>::rposition$')
    def b_rposition(ctx, a, callee):
        xs = drain(ctx, a[0])
        for i in range(len(xs) - 1, -1, -1):
            if ctx.branch(to_bool(ctx.call_value(a[1], [xs[i]]))):
                return some(i)
        return NONE

    @B('re:^<.* as DoubleEndedIterator>::rfold$')
    def b_rfold(ctx, a, callee):
        acc = a[1]
        for x in reversed(drain(ctx, a[0])):
            acc = ctx.call_value(a[2], [acc, x])
        return acc

    @B('re:^<.* as DoubleEndedIterator>::nth_back$')
    def b_nth_back(ctx, a, callee):
        xs = drain(ctx, a[0])
        n = D(a[1])
        return some(xs[len(xs) - 1 - n]) if n < len(xs) else NONE

    @B('Peekable::next_if', 'std::iter::Peekable::next_if', 'Peekable::next_if_eq', 'std::iter::Peekable::next_if_eq')
    def b_next_if(ctx, a, callee):
        it = as_it(ctx, a[0])
        o, it2 = it_next(ctx, it)
        if is_none(o):
            return NONE
        if callee.endswith('next_if_eq'):
            take = ctx.branch(to_bool(sym_eq(ctx, opt_val(o), a[1])))
        else:
            take = ctx.branch(to_bool(ctx.call_value(a[1], [opt_val(o)])))
        if take:
            store_it(a[0], it2)
            return o
        return NONE

    @B('std::iter::repeat', 'repeat', 'core::iter::repeat')
    def b_repeat(ctx, a, callee):
        return Agg('It:repeat', None, (a[0],))

    @B('re:^<(std::iter::)?Repeat as Iterator>::take$')
    def b_repeat_take(ctx, a, callee):
        it = D(a[0])
        n = D(a[1])
        if is_sym(n):
            raise Unsupported('repeat(..).take(symbolic)')
        return it_seq([it.fields[0]] * n)

    @B('successors', 'std::iter::successors', 'core::iter::successors')
    def b_successors(ctx, a, callee):
        out = []
        cur = D(a[0])
        while cur.variant == 1:
            out.append(cur.fields[0])
            if len(out) > 10000:
                raise Unsupported('successors: more than 10000 items')
            cur = D(ctx.call_value(a[1], [cur.fields[0]]))
        return it_seq(out)

    @B('re:^<(i8|i16|i32|i64|isize|u8|u16|u32|u64|usize|f64) as (AddAssign|SubAssign|MulAssign|DivAssign|RemAssign)>::(add|sub|mul|div|rem)_assign$')
    def b_op_assign(ctx, a, callee):
        m = re.match(r'^<&?(\w+) as (\w+)Assign', callee)
        t, op = m.group(1), m.group(2)
        r = R(a[0])
        x, y = D(r.load()), D(a[1])
        if t == 'f64':
            r.store(binop(op, x, y, None, True))
            return UNIT
        bits, signed = ty_bits(t)
        if op in ('Div', 'Rem'):
            if ctx.branch(to_bool(binop('Eq', y, 0, bits, signed))):
                raise Panic('attempt to divide by zero', ctx.where())
        elif ctx.branch(overflow_flag(op, x, y, bits, signed)):
            raise Panic('attempt to %s with overflow' % op.lower(), ctx.where())
        r.store(binop(op, x, y, bits, signed))
        return UNIT

    # ------------------------------------------------------------------ slices / Vec
    def items_of(v):
        v = D(v)
        if type(v) is VecV:
            return list(v.items)
        return list(seq_items(v))

    @B('core::slice::windows', 'slice::windows')
    def b_windows(ctx, a, callee):
        xs, n = items_of(a[0]), D(a[1])
        if n == 0:
            raise Panic('window size must be non-zero', ctx.where())
        return it_seq([VecV(xs[i:i + n]) for i in range(0, len(xs) - n + 1)])

    @B('core::slice::chunks', 'slice::chunks', 'core::slice::chunks_exact')
    def b_chunks(ctx, a, callee):
        xs, n = items_of(a[0]), D(a[1])
        if n == 0:
            raise Panic('chunk size must be non-zero', ctx.where())
        cs = [VecV(xs[i:i + n]) for i in range(0, len(xs), n)]
        if callee.endswith('exact'):
            cs = [c for c in cs if len(c.items) == n]
        return it_seq(cs)

    @B('core::slice::starts_with', 'core::slice::ends_with', 'slice::starts_with', 'slice::ends_with')
    def b_slice_starts(ctx, a, callee):
        xs, ys = items_of(a[0]), items_of(a[1])
        if len(ys) > len(xs):
            return False
        part = xs[:len(ys)] if callee.endswith('starts_with') else xs[len(xs) - len(ys):]
        cs = [sym_eq(ctx, p, q) for p, q in zip(part, ys)]
        if any(c is False for c in cs):
            return False
        cs = [c for c in cs if c is not True]
        return z3.And(*cs) if cs else True

    @B('core::slice::binary_search', 'slice::binary_search', 'core::slice::binary_search_by', 'core::slice::binary_search_by_key')
    def b_binary_search(ctx, a, callee):
        xs = items_of(a[0])

        def f(i):
            if callee.endswith('binary_search_by'):
                return D(ctx.call_value(a[1], [xs[i]])).variant
            if callee.endswith('binary_search_by_key'):
                return cmpv(ctx, ctx.call_value(a[2], [xs[i]]), a[1])
            return cmpv(ctx, xs[i], a[1])
        size = len(xs)
        if size == 0:
            return err(0)
        base = 0
        while size > 1:
            half = size // 2
            mid = base + half
            if f(mid) <= 0:
                base = mid
            size -= half
        c = f(base)
        if c == 0:
            return ok(base)
        return err(base + (1 if c < 0 else 0))

    @B('core::slice::swap', 'slice::swap', 'Vec::swap')
    def b_slice_swap(ctx, a, callee):
        r = R(a[0])
        v = r.load()
        xs = list(D(v).items)
        i, j = D(a[1]), D(a[2])
        if is_sym(i) or is_sym(j):
            raise Unsupported('swap with symbolic index')
        if i >= len(xs) or j >= len(xs):
            raise Panic('index out of bounds', ctx.where())
        xs[i], xs[j] = xs[j], xs[i]
        r.store(VecV(xs))
        return UNIT

    @B('core::slice::split', 'slice::split')
    def b_slice_split(ctx, a, callee):
        xs = items_of(a[0])
        out, cur = [], []
        for x in xs:
            if ctx.branch(to_bool(ctx.call_value(a[1], [x]))):
                out.append(VecV(cur))
                cur = []
            else:
                cur.append(x)
        out.append(VecV(cur))
        return it_seq(out)

    @B('slice::repeat', 'core::slice::repeat')
    def b_slice_repeat(ctx, a, callee):
        return VecV(items_of(a[0]) * D(a[1]))

    @B('core::slice::fill', 'slice::fill')
    def b_slice_fill(ctx, a, callee):
        r = R(a[0])
        r.store(VecV([a[1]] * len(D(r.load()).items)))
        return UNIT

    @B('core::slice::rotate_left', 'core::slice::rotate_right')
    def b_rotate(ctx, a, callee):
        r = R(a[0])
        xs = list(D(r.load()).items)
        n = D(a[1])
        if n > len(xs):
            raise Panic('rotate out of range', ctx.where())
        if callee.endswith('right'):
            n = len(xs) - n
        r.store(VecV(xs[n:] + xs[:n]))
        return UNIT

    @B('Vec::retain', 'Vec::retain_mut')
    def b_vec_retain(ctx, a, callee):
        r = R(a[0])
        keep = [x for x in D(r.load()).items if ctx.branch(to_bool(ctx.call_value(a[1], [x])))]
        r.store(VecV(keep))
        return UNIT

    @B('Vec::split_off')
    def b_vec_split_off(ctx, a, callee):
        r = R(a[0])
        xs = list(D(r.load()).items)
        n = D(a[1])
        if n > len(xs):
            raise Panic('`at` split index (is %d) should be <= len (is %d)' % (n, len(xs)), ctx.where())
        r.store(VecV(xs[:n]))
        return VecV(xs[n:])

    @B('Vec::resize')
    def b_vec_resize(ctx, a, callee):
        r = R(a[0])
        xs = list(D(r.load()).items)
        n = D(a[1])
        r.store(VecV(xs[:n] + [a[2]] * max(0, n - len(xs))))
        return UNIT

    @B('Vec::swap_remove')
    def b_vec_swap_remove(ctx, a, callee):
        r = R(a[0])
        xs = list(D(r.load()).items)
        i = D(a[1])
        if i >= len(xs):
            raise Panic('swap_remove index out of bounds', ctx.where())
        x = xs[i]
        xs[i] = xs[-1]
        xs.pop()
        r.store(VecV(xs))
        return x

    @B('Vec::dedup_by_key')
    def b_dedup_by_key(ctx, a, callee):
        r = R(a[0])
        out, lastk = [], None
        for x in D(r.load()).items:
            k = ctx.call_value(a[1], [x])
            if not out or not ctx.branch(to_bool(sym_eq(ctx, lastk, k))):
                out.append(x)
                lastk = k
        r.store(VecV(out))
        return UNIT

    # ------------------------------------------------------------------ str
    def mkstr_list(parts):
        return it_seq(parts)

    @B('core::str::rsplit', 'str::rsplit')
    def b_rsplit(ctx, a, callee):
        s = concrete_str(a[0], 'rsplit')
        ms = split_by(ctx, s, pat_of(ctx, a[1]))
        parts, i = [], 0
        for st, en in ms:
            parts.append(s[i:st])
            i = en
        parts.append(s[i:])
        return it_seq(parts[::-1])

    @B('core::str::rsplitn', 'str::rsplitn')
    def b_rsplitn(ctx, a, callee):
        s = concrete_str(a[0], 'rsplitn')
        n = D(a[1])
        ms = split_by(ctx, s, pat_of(ctx, a[2]))
        parts = []
        end = len(s)
        for st, en in reversed(ms):
            if len(parts) + 1 >= n:
                break
            parts.append(s[en:end])
            end = st
        if n > 0:
            parts.append(s[:end])
        return it_seq(parts)

    @B('core::str::split_once', 'str::split_once', 'core::str::rsplit_once', 'str::rsplit_once')
    def b_split_once(ctx, a, callee):
        s = concrete_str(a[0], 'split_once')
        ms = split_by(ctx, s, pat_of(ctx, a[1]))
        if not ms:
            return NONE
        st, en = ms[-1] if 'rsplit' in callee else ms[0]
        return some(tup(s[:st], s[en:]))

    @B('str::to_ascii_uppercase', 'str::to_ascii_lowercase', 'core::str::to_ascii_uppercase', 'core::str::to_ascii_lowercase')
    def b_str_ascii_case(ctx, a, callee):
        s = concrete_str(a[0], 'to_ascii_*case')
        up = callee.endswith('uppercase')
        return ''.join((c.upper() if up else c.lower()) if c.isascii() else c for c in s)

    @B('str::replacen', 'core::str::replacen')
    def b_replacen(ctx, a, callee):
        s = concrete_str(a[0], 'replacen')
        ms = split_by(ctx, s, pat_of(ctx, a[1]))[:D(a[3])]
        to = concrete_str(a[2], 'replacen')
        out, i = [], 0
        for st, en in ms:
            out.append(s[i:st])
            out.append(to)
            i = en
        out.append(s[i:])
        return ''.join(out)

    @B('core::str::is_char_boundary', 'str::is_char_boundary')
    def b_is_char_boundary(ctx, a, callee):
        bs = concrete_str(a[0], 'is_char_boundary').encode()
        i = D(a[1])
        if is_sym(i):
            raise Unsupported('is_char_boundary with a symbolic index')
        if i == 0 or i == len(bs):
            return True
        return i < len(bs) and (bs[i] & 0xC0) != 0x80

    @B('core::str::eq_ignore_ascii_case', 'str::eq_ignore_ascii_case')
    def b_str_eq_ignore_case(ctx, a, callee):
        x, y = concrete_str(a[0], 'eq_ignore_ascii_case'), concrete_str(a[1], 'eq_ignore_ascii_case')
        f = lambda s: ''.join(c.lower() if c.isascii() else c for c in s)
        return f(x) == f(y)

    @B('core::str::matches', 'str::matches', 'core::str::match_indices', 'str::match_indices')
    def b_matches(ctx, a, callee):
        s = concrete_str(a[0], 'matches')
        ms = split_by(ctx, s, pat_of(ctx, a[1]))
        if callee.endswith('match_indices'):
            return it_seq([tup(len(s[:st].encode()), s[st:en]) for st, en in ms])
        return it_seq([s[st:en] for st, en in ms])

    @B('core::str::escape_debug', 'str::escape_debug', 'core::str::escape_default', 'str::escape_default')
    def b_escape(ctx, a, callee):
        s = concrete_str(a[0], 'escape')
        out = []
        for ch in s:
            if ch in '"\'\\':
                out.append('\\' + ch)
            elif ch == '\n':
                out.append('\\n')
            elif ch == '\r':
                out.append('\\r')
            elif ch == '\t':
                out.append('\\t')
            elif callee.endswith('default') and not (' ' <= ch <= '~'):
                out.append('\\u{%x}' % ord(ch))
            elif ord(ch) < 0x20 or ord(ch) == 0x7f:
                out.append('\\u{%x}' % ord(ch))
            else:
                out.append(ch)
        return it_seq([ord(c) for c in ''.join(out)])

    @B('core::str::is_ascii', 'str::is_ascii')
    def b_str_is_ascii(ctx, a, callee):
        v = D(a[0])
        if type(v) is str:
            return v.isascii()
        cs = [z3.ULT(b, 0x80) if is_sym(b) else b < 0x80 for b in seq_items(v)]
        if any(c is False for c in cs):
            return False
        cs = [c for c in cs if c is not True]
        return z3.And(*cs) if cs else True

    # ------------------------------------------------------------------ String (mutating)
    def str_update(ctx, a0, fn, what):
        r = R(a0)
        s = concrete_str(r.load(), what)
        ns, ret = fn(s)
        r.store(ns)
        return ret

    def byte_index(ctx, s, i, what):
        i = D(i)
        if is_sym(i):
            raise Unsupported('%s with a symbolic index' % what)
        bs = s.encode()
        if i > len(bs) or (i < len(bs) and (bs[i] & 0xC0) == 0x80):
            raise Panic('assertion failed: self.is_char_boundary(idx)', ctx.where())
        return len(bs[:i].decode())

    @B('String::insert')
    def b_string_insert(ctx, a, callee):
        def f(s):
            k = byte_index(ctx, s, a[1], 'String::insert')
            return s[:k] + chr(D(a[2])) + s[k:], UNIT
        return str_update(ctx, a[0], f, 'String::insert')

    @B('String::insert_str')
    def b_string_insert_str(ctx, a, callee):
        def f(s):
            k = byte_index(ctx, s, a[1], 'String::insert_str')
            return s[:k] + concrete_str(a[2], 'insert_str') + s[k:], UNIT
        return str_update(ctx, a[0], f, 'String::insert_str')

    @B('String::remove')
    def b_string_remove(ctx, a, callee):
        def f(s):
            k = byte_index(ctx, s, a[1], 'String::remove')
            if k >= len(s):
                raise Panic('cannot remove a char from the end of a string', ctx.where())
            return s[:k] + s[k + 1:], ord(s[k])
        return str_update(ctx, a[0], f, 'String::remove')

    @B('String::retain')
    def b_string_retain(ctx, a, callee):
        def f(s):
            return ''.join(c for c in s if ctx.branch(to_bool(ctx.call_value(a[1], [ord(c)])))), UNIT
        return str_update(ctx, a[0], f, 'String::retain')

    def range_bounds(ctx, rng, n):
        rng = D(rng)
        ty = rng.ty.split('::')[-1]
        f = [D(x) for x in rng.fields]
        if any(is_sym(x) for x in f):
            raise Unsupported('symbolic range bound')
        if ty.startswith('RangeFull'):
            return 0, n
        if ty.startswith('RangeToInclusive'):
            return 0, f[0] + 1
        if ty.startswith('RangeTo'):
            return 0, f[0]
        if ty.startswith('RangeFrom'):
            return f[0], n
        if ty.startswith('RangeInclusive'):
            return f[0], f[1] + 1
        return f[0], f[1]

    def on_boundary(bs, i):
        return i == 0 or i == len(bs) or (i < len(bs) and (bs[i] & 0xC0) != 0x80)

    @B('String::drain')
    def b_string_drain(ctx, a, callee):
        def f(s):
            bs = s.encode()
            lo, hi = range_bounds(ctx, a[1], len(bs))
            if lo > hi or hi > len(bs) or not on_boundary(bs, lo) or not on_boundary(bs, hi):
                raise Panic('range out of bounds or not on a char boundary', ctx.where())
            return (bs[:lo] + bs[hi:]).decode(), it_seq([ord(c) for c in bs[lo:hi].decode()])
        return str_update(ctx, a[0], f, 'String::drain')

    @B('String::replace_range')
    def b_string_replace_range(ctx, a, callee):
        def f(s):
            bs = s.encode()
            lo, hi = range_bounds(ctx, a[1], len(bs))
            if lo > hi or hi > len(bs) or not on_boundary(bs, lo) or not on_boundary(bs, hi):
                raise Panic('range out of bounds or not on a char boundary', ctx.where())
            return (bs[:lo] + concrete_str(a[2], 'replace_range').encode() + bs[hi:]).decode(), UNIT
        return str_update(ctx, a[0], f, 'String::replace_range')

    @B('String::split_off')
    def b_string_split_off(ctx, a, callee):
        def f(s):
            k = byte_index(ctx, s, a[1], 'String::split_off')
            return s[:k], s[k:]
        return str_update(ctx, a[0], f, 'String::split_off')

    @B('<String as Extend>::extend', '<std::string::String as Extend>::extend')
    def b_string_extend(ctx, a, callee):
        r = R(a[0])
        pieces = [r.load()]
        for x in drain(ctx, a[1]):
            x = D(x)
            pieces.append(chr(x) if type(x) is int else x)
        r.store(assemble(pieces))
        return UNIT

    # ------------------------------------------------------------------ integers
    @B('re:^core::num::pow$', 're:^core::num::(checked_pow|wrapping_pow|saturating_pow)$')
    def b_pow(ctx, a, callee):
        bits, signed = int_info(callee)
        x, e = D(a[0]), D(a[1])
        if is_sym(e):
            raise Unsupported('pow with a symbolic exponent')
        kind = callee.rsplit('::', 1)[1]
        acc = 1
        for _ in range(e):
            if kind != 'wrapping_pow' and ctx.branch(overflow_flag('Mul', acc, x, bits, signed)):
                if kind == 'checked_pow':
                    return NONE
                if kind == 'saturating_pow':
                    raise Unsupported('saturating_pow overflow')
                raise Panic('attempt to multiply with overflow', ctx.where())
            acc = binop('Mul', acc, x, bits, signed)
        return some(acc) if kind == 'checked_pow' else acc

    @B('re:^core::num::signum$')
    def b_signum(ctx, a, callee):
        bits, signed = int_info(callee)
        x = D(a[0])
        if is_sym(x):
            return z3.If(x > 0, z3.BitVecVal(1, bits), z3.If(x == 0, z3.BitVecVal(0, bits), z3.BitVecVal(-1, bits)))
        return (x > 0) - (x < 0)

    @B('re:^core::num::(rem_euclid|div_euclid)$')
    def b_euclid(ctx, a, callee):
        bits, signed = int_info(callee)
        x, y = D(a[0]), D(a[1])
        if ctx.branch(to_bool(binop('Eq', y, 0, bits, signed))):
            raise Panic('attempt to divide by zero', ctx.where())
        if signed and ctx.branch(to_bool(z3.And(to_bool(binop('Eq', x, -(1 << (bits - 1)), bits, True)), to_bool(binop('Eq', y, -1, bits, True))) if (is_sym(x) or is_sym(y)) else (x == -(1 << (bits - 1)) and y == -1))):
            raise Panic('attempt to divide with overflow', ctx.where())
        r = binop('Rem', x, y, bits, signed)
        neg = ctx.branch(to_bool(binop('Lt', r, 0, bits, True))) if signed else False
        if callee.endswith('rem_euclid'):
            if not neg:
                return r
            ypos = not ctx.branch(to_bool(binop('Lt', y, 0, bits, True)))
            return binop('Add', r, y, bits, signed) if ypos else binop('Sub', r, y, bits, signed)
        q = binop('Div', x, y, bits, signed)
        if not neg:
            return q
        ypos = not ctx.branch(to_bool(binop('Lt', y, 0, bits, True)))
        return binop('Sub', q, 1, bits, signed) if ypos else binop('Add', q, 1, bits, signed)

    @B('re:^core::num::(checked_neg|wrapping_neg|checked_abs|wrapping_abs|overflowing_neg)$')
    def b_neg_abs(ctx, a, callee):
        bits, signed = int_info(callee)
        x = D(a[0])
        kind = callee.rsplit('::', 1)[1]
        is_min = binop('Eq', x, -(1 << (bits - 1)), bits, True) if signed else binop('Ne', x, 0, bits, False)
        if kind.endswith('neg'):
            val = binop('Sub', 0, x, bits, signed)
            if kind == 'wrapping_neg':
                return val
            ovf = ctx.branch(to_bool(is_min))
            if kind == 'overflowing_neg':
                return tup(val, ovf)
            return NONE if ovf else some(val)
        negative = ctx.branch(to_bool(binop('Lt', x, 0, bits, True))) if signed else False
        if not negative:
            return some(x) if kind.startswith('checked') else x
        if kind == 'wrapping_abs':
            return binop('Sub', 0, x, bits, signed)
        if ctx.branch(to_bool(is_min)):
            return NONE
        return some(binop('Sub', 0, x, bits, signed))

    @B('re:^core::num::saturating_mul$')
    def b_sat_mul(ctx, a, callee):
        bits, signed = int_info(callee)
        x, y = D(a[0]), D(a[1])
        if ctx.branch(overflow_flag('Mul', x, y, bits, signed)):
            if not signed:
                return (1 << bits) - 1
            same = ctx.branch(to_bool(binop('Lt', x, 0, bits, True))) == ctx.branch(to_bool(binop('Lt', y, 0, bits, True)))
            return (1 << (bits - 1)) - 1 if same else -(1 << (bits - 1))
        return binop('Mul', x, y, bits, signed)

    @B('re:^core::num::(overflowing_add|overflowing_sub|overflowing_mul)$')
    def b_overflowing(ctx, a, callee):
        bits, signed = int_info(callee)
        op = {'add': 'Add', 'sub': 'Sub', 'mul': 'Mul'}[callee.rsplit('_', 1)[1]]
        x, y = D(a[0]), D(a[1])
        return tup(binop(op, x, y, bits, signed), overflow_flag(op, x, y, bits, signed))

    @B('re:^core::num::(leading_zeros|trailing_zeros|count_ones|count_zeros|is_power_of_two)$')
    def b_bits(ctx, a, callee):
        bits, signed = int_info(callee)
        x = D(a[0])
        if is_sym(x):
            x = ctx.concretize_int(x, []) if False else None
            raise Unsupported('%s of a symbolic integer' % callee.rsplit('::', 1)[1])
        u = x & ((1 << bits) - 1)
        k = callee.rsplit('::', 1)[1]
        if k == 'leading_zeros':
            return bits - u.bit_length()
        if k == 'trailing_zeros':
            return bits if u == 0 else (u & -u).bit_length() - 1
        if k == 'count_ones':
            return bin(u).count('1')
        if k == 'count_zeros':
            return bits - bin(u).count('1')
        return u != 0 and (u & (u - 1)) == 0

    @B('re:^core::num::abs_diff$')
    def b_abs_diff(ctx, a, callee):
        bits, signed = int_info(callee)
        x, y = D(a[0]), D(a[1])
        if ctx.branch(to_bool(binop('Lt', x, y, bits, signed))):
            return binop('Sub', y, x, bits, False)
        return binop('Sub', x, y, bits, False)

    @B('re:^<(i8|i16|i32|i64|isize|u8|u16|u32|u64|usize) as Ord>::clamp$', 're:^core::num::clamp$')
    def b_clamp(ctx, a, callee):
        m = re.match(r'^<(\w+) as Ord', callee)
        bits, signed = ty_bits(m.group(1)) if m else int_info(callee)
        x, lo, hi = D(a[0]), D(a[1]), D(a[2])
        if ctx.branch(to_bool(binop('Gt', lo, hi, bits, signed))):
            raise Panic('assertion failed: min <= max', ctx.where())
        if ctx.branch(to_bool(binop('Lt', x, lo, bits, signed))):
            return lo
        if ctx.branch(to_bool(binop('Gt', x, hi, bits, signed))):
            return hi
        return x

    @B('re:^core::num::from_str_radix$')
    def b_from_str_radix(ctx, a, callee):
        bits, signed = int_info(callee)
        s = concrete_str(a[0], 'from_str_radix')
        radix = D(a[1])
        try:
            body = s[1:] if s[:1] in '+-' else s
            if not body or any(c in '+-_ ' for c in body):
                raise ValueError
            n = int(s, radix)
        except ValueError:
            return err(Opaque('ParseIntError'))
        lo, hi = (-(1 << (bits - 1)), (1 << (bits - 1)) - 1) if signed else (0, (1 << bits) - 1)
        if not lo <= n <= hi or (s.startswith('-') and not signed):
            return err(Opaque('ParseIntError'))
        return ok(n)

    @B('re:^core::num::(is_positive|is_negative)$')
    def b_is_pos(ctx, a, callee):
        bits, signed = int_info(callee)
        x = D(a[0])
        return binop('Gt' if callee.endswith('positive') else 'Lt', x, 0, bits, True)

    @B('f64::sqrt', 'f64::powi', 'core::f64::max', 'core::f64::min', 'f64::max', 'f64::min', 'f64::powf', 'f64::ln', 'f64::exp', 're:^(core|std)::f64::(<impl f64>::)?(sqrt|powi|powf|max|min)$')
    def b_f64_more(ctx, a, callee):
        import math
        k = callee.rsplit('::', 1)[1]
        x = D(a[0])
        if is_sym(x) or (len(a) > 1 and is_sym(D(a[1]))):
            if k == 'sqrt':
                return z3.fpSqrt(z3.RNE(), x)
            if k in ('max', 'min'):
                y = D(a[1])
                fx = x if is_sym(x) else z3.FPVal(x, z3.Float64())
                fy = y if is_sym(y) else z3.FPVal(y, z3.Float64())
                return z3.fpMax(fx, fy) if k == 'max' else z3.fpMin(fx, fy)
            raise Unsupported('f64::%s on a symbolic float' % k)
        x = float(x)
        if k == 'sqrt':
            return math.sqrt(x) if x >= 0 else float('nan')
        if k == 'powi':
            try:
                return float(x ** D(a[1]))
            except (OverflowError, ZeroDivisionError):
                return float('inf')
        if k == 'powf':
            try:
                return math.pow(x, float(D(a[1])))
            except (OverflowError, ValueError, ZeroDivisionError):
                return float('nan')
        if k in ('max', 'min'):
            y = float(D(a[1]))
            if x != x:
                return y
            if y != y:
                return x
            return max(x, y) if k == 'max' else min(x, y)
        if k == 'ln':
            return math.log(x) if x > 0 else (float('-inf') if x == 0 else float('nan'))
        return math.exp(x)

    # ------------------------------------------------------------------ maps / sets
    def is_ordered(m):
        return m.kind.startswith('BTree')

    @B('BTreeMap::retain', 'HashMap::retain')
    def b_map_retain(ctx, a, callee):
        r = R(a[0])
        m = r.load()
        cell_items = []
        for k, v in m.items:
            c = CellV(v)
            if ctx.branch(to_bool(ctx.call_value(a[1], [k, Ref(c.slot, 0, ())]))):
                cell_items.append((k, c.slot[0]))
        r.store(MapV(m.kind, cell_items))
        return UNIT

    @B('BTreeSet::retain', 'HashSet::retain')
    def b_set_retain(ctx, a, callee):
        r = R(a[0])
        m = r.load()
        r.store(MapV(m.kind, [(k, v) for k, v in m.items if ctx.branch(to_bool(ctx.call_value(a[1], [k])))]))
        return UNIT

    @B('BTreeMap::values_mut', 'HashMap::values_mut')
    def b_values_mut(ctx, a, callee):
        from .bi_str import MapSlot
        r = R(a[0])
        m = r.load()
        return it_seq([Ref(MapSlot(r, k), 0, ()) for k, _ in m.items])

    @B('BTreeMap::pop_first', 'BTreeMap::pop_last', 'BTreeSet::pop_first', 'BTreeSet::pop_last')
    def b_pop_first(ctx, a, callee):
        r = R(a[0])
        m = r.load()
        if not m.items:
            return NONE
        k, v = m.items[0] if callee.endswith('first') else m.items[-1]
        r.store(m.remove(k))
        return some(tup(k, v)) if 'Map' in callee else some(k)

    @B('BTreeMap::split_off', 'BTreeSet::split_off')
    def b_map_split_off(ctx, a, callee):
        r = R(a[0])
        m = r.load()
        key = map_key(a[1])
        lo = [(k, v) for k, v in m.items if cmpv(ctx, k, key) < 0]
        hi = [(k, v) for k, v in m.items if cmpv(ctx, k, key) >= 0]
        r.store(MapV(m.kind, lo))
        return MapV(m.kind, hi)

    @B('BTreeMap::range', 'BTreeSet::range')
    def b_map_range(ctx, a, callee):
        m = D(a[0])
        rng = D(a[1])
        ty = rng.ty.split('::')[-1]
        f = list(rng.fields)

        def inside(k):
            if ty.startswith('RangeFull'):
                return True
            if ty.startswith('RangeToInclusive'):
                return cmpv(ctx, k, f[0]) <= 0
            if ty.startswith('RangeTo'):
                return cmpv(ctx, k, f[0]) < 0
            if ty.startswith('RangeFrom'):
                return cmpv(ctx, k, f[0]) >= 0
            if ty.startswith('RangeInclusive'):
                return cmpv(ctx, k, f[0]) >= 0 and cmpv(ctx, k, f[1]) <= 0
            return cmpv(ctx, k, f[0]) >= 0 and cmpv(ctx, k, f[1]) < 0
        sel = [(k, v) for k, v in m.items if inside(k)]
        return it_seq([tup(k, v) for k, v in sel] if 'Map' in callee else [k for k, _ in sel])

    @B('std::collections::btree_map::Entry::and_modify', 'std::collections::hash_map::Entry::and_modify', 'Entry::and_modify')
    def b_entry_and_modify(ctx, a, callee):
        e = D(a[0])
        # Entry aggregates are built by bi_str's entry builtin: Occupied carries a reference to the slot
        occ = 1 if 'btree' in callee or e.ty.startswith('btree') else 0
        if e.variant == occ and e.fields:
            ctx.call_value(a[1], [e.fields[-1]])
        elif e.variant not in (0, 1):
            raise Unsupported('Entry::and_modify on an unknown entry')
        return a[0]

    @B('HashMap::get_key_value', 'BTreeMap::get_key_value')
    def b_get_key_value(ctx, a, callee):
        m = D(a[0])
        k = map_key(a[1])
        return some(tup(k, m.get(k))) if m.has(k) else NONE

    @B('HashMap::remove_entry', 'BTreeMap::remove_entry')
    def b_remove_entry(ctx, a, callee):
        r = R(a[0])
        m = r.load()
        k = map_key(a[1])
        if not m.has(k):
            return NONE
        v = m.get(k)
        r.store(m.remove(k))
        return some(tup(k, v))

    @B('HashMap::reserve', 'HashSet::reserve', 'HashMap::shrink_to_fit', 'String::reserve', 'String::shrink_to_fit', 'Vec::shrink_to_fit')
    def b_noop_capacity(ctx, a, callee):
        return UNIT

    @B('BTreeSet::first', 'BTreeSet::last')
    def b_set_first(ctx, a, callee):
        m = D(a[0])
        if not m.items:
            return NONE
        return some(m.items[0][0] if callee.endswith('first') else m.items[-1][0])

    @B('BTreeSet::is_subset', 'HashSet::is_subset', 'BTreeSet::is_superset', 'HashSet::is_superset', 'BTreeSet::is_disjoint', 'HashSet::is_disjoint')
    def b_set_rel(ctx, a, callee):
        x, y = D(a[0]), D(a[1])
        xs, ys = [k for k, _ in x.items], [k for k, _ in y.items]
        if callee.endswith('is_subset'):
            return all(y.has(k) for k in xs)
        if callee.endswith('is_superset'):
            return all(x.has(k) for k in ys)
        return not any(y.has(k) for k in xs)

    @B('BTreeSet::union', 'HashSet::union', 'BTreeSet::intersection', 'HashSet::intersection', 'BTreeSet::difference', 'HashSet::difference',
       'BTreeSet::symmetric_difference', 'HashSet::symmetric_difference')
    def b_set_ops(ctx, a, callee):
        x, y = D(a[0]), D(a[1])
        xs, ys = [k for k, _ in x.items], [k for k, _ in y.items]
        k = callee.rsplit('::', 1)[1]
        if k == 'union':
            out = xs + [e for e in ys if not x.has(e)]
        elif k == 'intersection':
            out = [e for e in xs if y.has(e)]
        elif k == 'difference':
            out = [e for e in xs if not y.has(e)]
        else:
            out = [e for e in xs if not y.has(e)] + [e for e in ys if not x.has(e)]
        if x.kind.startswith('BTree'):
            out.sort(key=functools.cmp_to_key(lambda p, q: cmpv(ctx, p, q)))
        return it_seq(out)

    # ------------------------------------------------------------------ Rc / RefCell / Cell
    @B('Rc::ptr_eq', 'std::rc::Rc::ptr_eq', 'Arc::ptr_eq')
    def b_rc_ptr_eq(ctx, a, callee):
        x, y = a[0], a[1]
        while type(x) is Ref and type(x.load()) is Ref:
            x = x.load()
        while type(y) is Ref and type(y.load()) is Ref:
            y = y.load()
        # shared values are immutable trees here: identity of the Python object stands for pointer identity
        return D(x) is D(y)

    @B('Rc::strong_count', 'Rc::weak_count', 'Arc::strong_count')
    def b_rc_count(ctx, a, callee):
        raise Unsupported('reference counts are not modelled (%s)' % callee)

    @B('Rc::try_unwrap', 'Rc::unwrap_or_clone', 'Rc::into_inner')
    def b_rc_try_unwrap(ctx, a, callee):
        if callee.endswith('unwrap_or_clone'):
            return D(a[0]) if type(a[0]) is not Ref else a[0].load()
        raise Unsupported('reference counts are not modelled (%s)' % callee)

    @B('Rc::make_mut', 'Rc::get_mut', 'Arc::make_mut')
    def b_rc_make_mut(ctx, a, callee):
        r = R(a[0])
        return r if callee.endswith('make_mut') else some(r)

    @B('RefCell::take', 'Cell::take')
    def b_cell_take(ctx, a, callee):
        c = D(a[0]) if type(D(a[0])) is CellV else None
        cell = a[0]
        while type(cell) is Ref:
            cell = cell.load()
        if type(cell) is not CellV:
            raise Unsupported('%s on %r' % (callee, cell))
        old = cell.slot[0]
        m = re.search(r'(?:RefCell|Cell)::<(.*)>::take', callee, re.S)
        t = m.group(1) if m else ''
        if type(old) is VecV:
            new = VecV(())
        elif type(old) is MapV:
            new = MapV(old.kind)
        elif type(old) in (str, SymStr, FmtV):
            new = ''
        elif type(old) is int or is_sym(old):
            new = 0
        elif type(old) is bool:
            new = False
        elif type(old) is Agg and old.ty == 'Option':
            new = NONE
        else:
            tgt = resolve(ctx.prog, '<%s as Default>::default' % (old.ty if type(old) is Agg else t))
            if tgt[0] != 'mir':
                raise Unsupported('%s: no Default for %r' % (callee, old))
            new = exec_func(ctx, tgt[1], [])
        cell.slot[0] = new
        return old

    @B('Cell::replace')
    def b_cell_replace(ctx, a, callee):
        cell = a[0]
        while type(cell) is Ref:
            cell = cell.load()
        old = cell.slot[0]
        cell.slot[0] = a[1]
        return old

    @B('RefCell::swap', 'Cell::swap')
    def b_cell_swap(ctx, a, callee):
        x, y = a[0], a[1]
        while type(x) is Ref:
            x = x.load()
        while type(y) is Ref:
            y = y.load()
        x.slot[0], y.slot[0] = y.slot[0], x.slot[0]
        return UNIT

    @B('RefCell::try_borrow', 'RefCell::try_borrow_mut')
    def b_try_borrow(ctx, a, callee):
        b = prog.find_builtin('RefCell::borrow_mut' if callee.endswith('mut') else 'RefCell::borrow')
        return ok(b(ctx, a, callee))

    # ------------------------------------------------------------------ char
    def char_fn(name, conc, sym=None):
        @B('char::methods::' + name, 'core::char::methods::' + name, 're:^(core::)?char::(methods::)?<impl char>::' + name + '$')
        def f(ctx, a, callee):
            c = D(a[0])
            if is_sym(c):
                if sym is None:
                    raise Unsupported('char::%s on a symbolic char' % name)
                return sym(c)
            return conc(ctx, c, a)
        return f

    def rng(c, lo, hi):
        w = c.size()
        return z3.And(z3.UGE(c, z3.BitVecVal(lo, w)), z3.ULE(c, z3.BitVecVal(hi, w)))
    char_fn('is_ascii_hexdigit', lambda ctx, c, a: chr(c) in '0123456789abcdefABCDEF', lambda c: z3.Or(rng(c, 0x30, 0x39), rng(c, 0x41, 0x46), rng(c, 0x61, 0x66)))
    char_fn('is_ascii_control', lambda ctx, c, a: c < 0x20 or c == 0x7f, lambda c: z3.Or(z3.ULT(c, 0x20), c == 0x7f))
    char_fn('is_ascii_graphic', lambda ctx, c, a: 0x21 <= c <= 0x7e, lambda c: rng(c, 0x21, 0x7e))
    char_fn('is_uppercase', lambda ctx, c, a: chr(c).isupper())
    char_fn('is_lowercase', lambda ctx, c, a: chr(c).islower())
    char_fn('to_ascii_uppercase', lambda ctx, c, a: c - 32 if 0x61 <= c <= 0x7a else c, lambda c: z3.If(rng(c, 0x61, 0x7a), c - 32, c))
    char_fn('to_ascii_lowercase', lambda ctx, c, a: c + 32 if 0x41 <= c <= 0x5a else c, lambda c: z3.If(rng(c, 0x41, 0x5a), c + 32, c))
    char_fn('to_uppercase', lambda ctx, c, a: it_seq([ord(x) for x in chr(c).upper()]))
    char_fn('to_lowercase', lambda ctx, c, a: it_seq([ord(x) for x in chr(c).lower()]))
    char_fn('len_utf16', lambda ctx, c, a: 2 if c >= 0x10000 else 1)
    char_fn('encode_utf8', lambda ctx, c, a: chr(c))
    char_fn('eq_ignore_ascii_case', lambda ctx, c, a: chr(c).lower() == chr(D(a[1])).lower() if chr(c).isascii() and chr(D(a[1])).isascii() else c == D(a[1]))

    @B('char::methods::from_digit', 'core::char::methods::from_digit', 'char::from_digit', 're:^(core::)?char::(methods::)?<impl char>::from_digit$')
    def b_from_digit(ctx, a, callee):
        n, radix = D(a[0]), D(a[1])
        if is_sym(n) or is_sym(radix):
            raise Unsupported('from_digit with symbolic arguments')
        if radix > 36:
            raise Panic('from_digit: radix is too high (maximum 36)', ctx.where())
        if n >= radix:
            return NONE
        return some(ord('0123456789abcdefghijklmnopqrstuvwxyz'[n]))

    @B('char::methods::from_u32', 'core::char::methods::from_u32', 'char::from_u32', 're:^(core::)?char::(methods::)?<impl char>::from_u32$')
    def b_from_u32(ctx, a, callee):
        n = D(a[0])
        if is_sym(n):
            bad = z3.Or(z3.UGT(n, 0x10FFFF), z3.And(z3.UGE(n, 0xD800), z3.ULE(n, 0xDFFF)))
            return NONE if ctx.branch(bad) else some(n)
        return NONE if n > 0x10FFFF or 0xD800 <= n <= 0xDFFF else some(n)

    # ------------------------------------------------------------------ paths and the virtual file system
    to_path = prog.to_path

    @B('Path::ancestors')
    def b_ancestors(ctx, a, callee):
        p = to_path(a[0])
        c = p.trimmed()
        out = [PathV(p.absolute, c[:i]) for i in range(len(c), -1, -1)]
        if not p.absolute and out and not out[-1].comps:
            pass
        return it_seq(out)

    @B('Path::strip_prefix')
    def b_strip_prefix(ctx, a, callee):
        p, q = to_path(a[0]), to_path(a[1])
        pc, qc = p.canon(), q.canon()
        if p.absolute != q.absolute and q.comps:
            return err(Agg('StripPrefixError', None, ()))
        if pc[:len(qc)] != qc:
            return err(Agg('StripPrefixError', None, ()))
        return ok(PathV(False, pc[len(qc):]))

    @B('Path::ends_with')
    def b_path_ends_with(ctx, a, callee):
        p, q = to_path(a[0]), to_path(a[1])
        pc, qc = p.canon(), q.canon()
        if q.absolute:
            return p.absolute and pc == qc
        return len(qc) <= len(pc) and pc[len(pc) - len(qc):] == qc

    @B('Path::iter')
    def b_path_iter(ctx, a, callee):
        p = to_path(a[0])
        return it_seq((['/'] if p.absolute else []) + list(p.canon()))

    @B('PathBuf::set_file_name')
    def b_set_file_name(ctx, a, callee):
        r = R(a[0])
        p = to_path(r.load())
        name = D(a[1])
        name = name.to_str() if type(name) is PathV else name
        c = p.trimmed()
        if c and c[-1] != '..':
            c = c[:-1]
        r.store(PathV(p.absolute, tuple(c) + (name,)))
        return UNIT

    @B('PathBuf::clear')
    def b_pathbuf_clear(ctx, a, callee):
        R(a[0]).store(PathV(False, ()))
        return UNIT

    def fs_path(ctx, v):
        b = prog.find_builtin('canonicalize')
        # resolve like the OS does (cwd, `.`/`..`, symlinks) without requiring existence
        import posixpath
        p = to_path(v)
        s = p.to_str()
        if not p.absolute:
            s = posixpath.join(ctx.cwd, s)
        s = posixpath.normpath(s)
        for _ in range(16):
            hit = next((l for l in ctx.links if s == l or s.startswith(l + '/')), None)
            if hit is None:
                break
            s = posixpath.normpath(ctx.links[hit] + s[len(hit):])
        return s

    def io_err(msg):
        b = prog.find_builtin('std::io::Error::other')
        return Agg('io::Error', None, (msg, None))

    def is_dir(ctx, p):
        return any(type(k) is str and k.startswith(p.rstrip('/') + '/') for k in ctx.fs)

    @B('std::fs::read', 'read')
    def b_fs_read(ctx, a, callee):
        p = fs_path(ctx, a[0])
        c = ctx.fs.get(p)
        if c is None or type(c) is tuple:
            return err(io_err('No such file or directory (os error 2)' if c is None else c[1]))
        return ok(VecV(tuple(seq_items(c))))

    @B('std::fs::metadata', 'metadata', 'Path::metadata', 'std::fs::symlink_metadata')
    def b_fs_metadata(ctx, a, callee):
        p = fs_path(ctx, a[0])
        if p in ctx.fs and type(ctx.fs[p]) is not tuple:
            return ok(Agg('Metadata', None, ('file', len(seq_items(ctx.fs[p])))))
        if is_dir(ctx, p):
            return ok(Agg('Metadata', None, ('dir', 0)))
        return err(io_err('No such file or directory (os error 2)'))

    @B('Metadata::len', 'Metadata::is_dir', 'Metadata::is_file', 'std::fs::Metadata::len', 'std::fs::Metadata::is_dir', 'std::fs::Metadata::is_file')
    def b_metadata_q(ctx, a, callee):
        m = D(a[0])
        k = callee.rsplit('::', 1)[1]
        return m.fields[1] if k == 'len' else (m.fields[0] == ('dir' if k == 'is_dir' else 'file'))

    @B('std::fs::write', 'write')
    def b_fs_write(ctx, a, callee):
        if len(a) != 2:
            raise Unsupported('write with %d arguments' % len(a))
        p = to_path(a[0]).to_str()
        ctx.event('create', p)
        if ctx.fs.get('!create:' + p):
            return err(io_err('Permission denied (os error 13)'))
        from .bi_str import mkstr, sbytes
        ctx.event('write', p, mkstr(sbytes(a[1])) if type(D(a[1])) is not str else D(a[1]))
        return ok(UNIT)

    @B('create_dir_all', 'std::fs::create_dir_all', 'std::fs::create_dir', 'create_dir')
    def b_create_dir(ctx, a, callee):
        ctx.event('mkdir', to_path(a[0]).to_str())
        return ok(UNIT)

    @B('remove_file', 'std::fs::remove_file')
    def b_remove_file(ctx, a, callee):
        p = fs_path(ctx, a[0])
        ctx.event('remove', p)
        if p not in ctx.fs:
            return err(io_err('No such file or directory (os error 2)'))
        return ok(UNIT)

    @B('rename', 'std::fs::rename', 'std::fs::copy')
    def b_rename(ctx, a, callee):
        src, dst = fs_path(ctx, a[0]), to_path(a[1]).to_str()
        if src not in ctx.fs:
            return err(io_err('No such file or directory (os error 2)'))
        ctx.event('rename' if callee.endswith('rename') else 'copy', src, dst)
        return ok(UNIT if callee.endswith('rename') else len(seq_items(ctx.fs[src])))

    @B('Path::canonicalize')
    def b_path_canonicalize(ctx, a, callee):
        return prog.find_builtin('canonicalize')(ctx, a, 'canonicalize')

    @B('Path::read_dir')
    def b_path_read_dir(ctx, a, callee):
        return prog.find_builtin('read_dir')(ctx, a, 'read_dir')

    @B('Path::is_symlink')
    def b_is_symlink(ctx, a, callee):
        import posixpath
        p = to_path(a[0])
        s = p.to_str() if p.absolute else posixpath.join(ctx.cwd, p.to_str())
        return posixpath.normpath(s) in ctx.links

    @B('var_os', 'std::env::var_os')
    def b_var_os(ctx, a, callee):
        return NONE

    @B('args', 'std::env::args', 'vars', 'std::env::vars', 'args_os', 'std::env::args_os', 'vars_os', 'std::env::vars_os')
    def b_env_iter(ctx, a, callee):
        # the process environment is what the harness says it is (ctx.process_env: list of (name, value)); empty by default
        if 'vars' in callee:
            env = list(getattr(ctx, 'process_env', ()))
            if not callee.endswith('_os'):
                # std::env::vars: "the returned iterator will panic if any key or value in the environment is not valid unicode"
                for n, v in env:
                    for x in (n, v):
                        if not_unicode(ctx, x):
                            raise Panic('called `Result::unwrap()` on an `Err` value: environment variable is not valid unicode', ctx.where())
            return it_seq([tup(n, v) for n, v in env])
        return it_seq([])

    def not_unicode(ctx, x):
        """is this OS string (str | SymStr | bytes) not valid UTF-8? (symbolic strings: decided for one-byte strings, the bound of the
        harnesses that use them)"""
        if type(x) is bytes:
            try:
                x.decode('utf-8')
                return False
            except UnicodeDecodeError:
                return True
        if type(x) is SymStr and any(is_sym(c) for c in x.bytes):
            if len(x.bytes) != 1:
                for c in x.bytes:
                    if is_sym(c) and ctx.branch(z3.UGE(c, 0x80)):
                        raise Unsupported('unicode validity of a symbolic multi-byte OS string')
                return False
            return ctx.branch(z3.UGE(x.bytes[0], 0x80))
        return False

    @B('OsString::into_string', 'std::ffi::OsString::into_string')
    def b_osstring_into_string(ctx, a, callee):
        v = D(a[0])
        if type(v) is PathV:
            v = v.to_str()
        return err(v) if not_unicode(ctx, v) else ok(v)

    @B('OsStr::len', 'OsString::len', 'OsStr::is_empty')
    def b_osstr_len(ctx, a, callee):
        v = D(a[0])
        v = v.to_str() if type(v) is PathV else v
        n = len(v.encode()) if type(v) is str else len(seq_items(v))
        return n if callee.endswith('len') else n == 0

    @B('File::create_new', 'std::fs::File::create_new')
    def b_file_create_new(ctx, a, callee):
        p = fs_path(ctx, a[0])
        if p in ctx.fs:
            return err(io_err('File exists (os error 17)'))
        ctx.event('create', to_path(a[0]).to_str())
        return ok(Agg('OutFile', None, (to_path(a[0]).to_str(),)))

    @B('File::sync_all', 'File::sync_data', 'std::fs::File::sync_all', 're:^<(OutFile|std::fs::File|File|BufWriter) as (std::io::)?Write>::flush$')
    def b_file_sync(ctx, a, callee):
        return ok(UNIT)

    @B('BufWriter::new', 'std::io::BufWriter::new', 'BufWriter::with_capacity', 'LineWriter::new')
    def b_bufwriter_new(ctx, a, callee):
        return a[-1]            # buffering is transparent for what is eventually written

    @B('BufReader::new', 'std::io::BufReader::new', 'BufReader::with_capacity')
    def b_bufreader_new(ctx, a, callee):
        return a[-1]

    # ------------------------------------------------------------------ third batch: found by tools/std_selftest.py
    @B('re:^core::num::(to_ascii_uppercase|to_ascii_lowercase|is_ascii_[a-z]+|is_ascii|eq_ignore_ascii_case)$')
    def b_u8_ascii(ctx, a, callee):
        k = callee.rsplit('::', 1)[1]
        b = prog.find_builtin('char::methods::' + k)
        if b is None:
            raise Unsupported('u8::' + k)
        return b(ctx, a, 'char::methods::' + k)

    @B('std::cmp::Ordering::reverse', 'std::cmp::Ordering::then', 'std::cmp::Ordering::then_with', 'Ordering::reverse', 'Ordering::then', 'Ordering::then_with')
    def b_ordering_ops(ctx, a, callee):
        o = D(a[0])
        if callee.endswith('reverse'):
            return Agg('Ordering', -o.variant, ())
        if o.variant != 0:
            return o
        return D(ctx.call_value(a[1], [])) if callee.endswith('then_with') else D(a[1])

    @B('re:^core::num::next_power_of_two$', 're:^core::num::checked_next_power_of_two$')
    def b_next_pow2(ctx, a, callee):
        bits, signed = int_info(callee)
        x = D(a[0])
        if is_sym(x):
            raise Unsupported('next_power_of_two of a symbolic integer')
        p = 1
        while p < x:
            p <<= 1
        if p >= (1 << bits):
            if 'checked' in callee:
                return NONE
            raise Panic('attempt to add with overflow', ctx.where())
        return some(p) if 'checked' in callee else p

    @B('re:^std::ops::(Range|RangeInclusive|RangeFrom|RangeTo|RangeToInclusive)::contains$', 're:^(core::ops::)?(Range|RangeInclusive)::contains$')
    def b_range_contains(ctx, a, callee):
        r = D(a[0])
        x = D(a[1])
        f = [D(v) for v in r.fields]
        m = re.search(r'(Range\w*)::<(\w+)>', callee)
        ty = m.group(1) if m else r.ty.split('::')[-1]
        bits, signed = ty_bits(m.group(2)) if m and ty_bits(m.group(2)) else (64, True)

        def le(p, q):
            r = binop('Le', p, q, bits, signed)
            return r if type(r) is bool else to_bool(r)

        def lt(p, q):
            r = binop('Lt', p, q, bits, signed)
            return r if type(r) is bool else to_bool(r)

        def conj(*cs):
            if all(type(c) is bool for c in cs):
                return all(cs)
            return z3.And(*[c if is_sym(c) else z3.BoolVal(c) for c in cs])
        if ty == 'RangeInclusive':
            return conj(le(f[0], x), le(x, f[1]))
        if ty == 'RangeFrom':
            return le(f[0], x)
        if ty == 'RangeToInclusive':
            return le(x, f[0])
        if ty == 'RangeTo':
            return lt(x, f[0])
        return conj(le(f[0], x), lt(x, f[1]))

    @B('std::ops::RangeInclusive::new', 'RangeInclusive::new', 'core::ops::RangeInclusive::new')
    def b_range_inclusive_new(ctx, a, callee):
        return Agg('RangeInclusive', None, (a[0], a[1], False))

    @B('std::ops::RangeInclusive::start', 'std::ops::RangeInclusive::end', 'RangeInclusive::start', 'RangeInclusive::end', 'std::ops::RangeInclusive::into_inner')
    def b_range_inclusive_get(ctx, a, callee):
        r = D(a[0])
        if callee.endswith('into_inner'):
            return tup(r.fields[0], r.fields[1])
        return r.fields[0] if callee.endswith('start') else r.fields[1]

    @B('re:^<.* as Iterator>::unzip$')
    def b_unzip(ctx, a, callee):
        xs, ys = [], []
        for p in drain(ctx, a[0]):
            p = D(p)
            xs.append(p.fields[0])
            ys.append(p.fields[1])
        return tup(VecV(xs), VecV(ys))

    @B('re:^<(Option|std::option::Option|\\[\\]|Vec|std::vec::Vec|str|String|std::string::String|\\(\\)|tuple) as PartialOrd>::(lt|le|gt|ge)$')
    def b_generic_ord_ops(ctx, a, callee):
        c = cmpv(ctx, a[0], a[1])
        k = callee.rsplit('::', 1)[1]
        return {'lt': c < 0, 'le': c <= 0, 'gt': c > 0, 'ge': c >= 0}[k]

    @B('core::str::make_ascii_lowercase', 'core::str::make_ascii_uppercase', 'str::make_ascii_lowercase', 'str::make_ascii_uppercase', 'String::make_ascii_lowercase', 'String::make_ascii_uppercase')
    def b_make_ascii_case(ctx, a, callee):
        r = R(a[0])
        s = concrete_str(r.load(), 'make_ascii_*case')
        up = callee.endswith('uppercase')
        r.store(''.join((c.upper() if up else c.lower()) if c.isascii() else c for c in s))
        return UNIT

    @B('re:^<(EscapeDebug|EscapeDefault|core::str::EscapeDebug|core::str::EscapeDefault|std::str::EscapeDebug|std::str::EscapeDefault) as ToString>::to_string$')
    def b_escape_to_string(ctx, a, callee):
        return ''.join(chr(D(c)) for c in drain(ctx, a[0]))

    @B('core::str::trim_end_matches', 'core::str::trim_start_matches', 'core::str::trim_matches', 'str::trim_end_matches', 'str::trim_start_matches', 'str::trim_matches')
    def b_trim_matches(ctx, a, callee):
        s = concrete_str(a[0], 'trim_matches')
        kind, p = pat_of(ctx, a[1])

        def at_start(t):
            if kind == 'str':
                return len(p) if p and t.startswith(p) else 0
            return 1 if t and ctx.branch(to_bool(ctx.call_value(p, [ord(t[0])]))) else 0

        def at_end(t):
            if kind == 'str':
                return len(p) if p and t.endswith(p) else 0
            return 1 if t and ctx.branch(to_bool(ctx.call_value(p, [ord(t[-1])]))) else 0
        k = callee.rsplit('::', 1)[1]
        if k in ('trim_start_matches', 'trim_matches'):
            while True:
                n = at_start(s)
                if not n:
                    break
                s = s[n:]
        if k in ('trim_end_matches', 'trim_matches'):
            while True:
                n = at_end(s)
                if not n:
                    break
                s = s[:len(s) - n]
        return s

    # closure / fn / char-set patterns on concrete haystacks for the str builtins that only knew str and char patterns
    def is_fn_pattern(p):
        p0 = D(p)
        return type(p0) is FnPtr or (type(p0) is Agg and str(p0.ty).startswith('closure@')) or type(p0) is VecV

    def pat_pred(ctx, p):
        p0 = D(p)
        if type(p0) is VecV:
            chars = [D(c) for c in p0.items]
            return lambda ch: ord(ch) in chars
        return lambda ch: ctx.branch(to_bool(ctx.call_value(p, [ord(ch)])))

    def wrap_pattern_builtin(names, pat_index, impl):
        for nm in names:
            orig = prog.builtins_exact.get(nm)

            def make(orig, nm):
                def f(ctx, a, callee):
                    if len(a) > pat_index and is_fn_pattern(a[pat_index]):
                        return impl(ctx, a, callee, concrete_str(a[0], nm), pat_pred(ctx, a[pat_index]))
                    if orig is None:
                        raise Unsupported('no builtin for %s' % nm)
                    return orig(ctx, a, callee)
                return f
            prog.builtins_exact[nm] = make(orig, nm)

    def fn_split(ctx, a, callee, s, pred):
        parts, cur = [], []
        for ch in s:
            if pred(ch):
                parts.append(''.join(cur))
                cur = []
            else:
                cur.append(ch)
        parts.append(''.join(cur))
        if callee.endswith('terminator') and parts and parts[-1] == '':
            parts.pop()
        return it_seq(parts)
    wrap_pattern_builtin(['core::str::split', 'core::str::split_terminator', 'str::split'], 1, fn_split)
    wrap_pattern_builtin(['core::str::contains', 'str::contains'], 1, lambda ctx, a, callee, s, pred: any(pred(ch) for ch in s))
    wrap_pattern_builtin(['core::str::find', 'str::find'], 1, lambda ctx, a, callee, s, pred: next((some(len(s[:i].encode())) for i, ch in enumerate(s) if pred(ch)), NONE))
    wrap_pattern_builtin(['core::str::rfind', 'str::rfind'], 1, lambda ctx, a, callee, s, pred: next((some(len(s[:i].encode())) for i in range(len(s) - 1, -1, -1) if pred(s[i])), NONE))
    wrap_pattern_builtin(['core::str::starts_with', 'str::starts_with'], 1, lambda ctx, a, callee, s, pred: bool(s) and pred(s[0]))
    wrap_pattern_builtin(['core::str::ends_with', 'str::ends_with'], 1, lambda ctx, a, callee, s, pred: bool(s) and pred(s[-1]))

    @B('std::iter::once', 'core::iter::once', 'once')
    def b_once(ctx, a, callee):
        return it_seq([a[0]])

    @B('std::iter::empty', 'core::iter::empty', 'empty')
    def b_empty(ctx, a, callee):
        return it_seq([])

    @B('re:^<(Option|std::option::Option|\\[\\]|Vec|str|String|tuple|\\(\\)) as Ord>::(max|min)$')
    def b_generic_ord_maxmin(ctx, a, callee):
        c = cmpv(ctx, a[0], a[1])
        if callee.endswith('max'):
            return a[1] if c <= 0 else a[0]
        return a[0] if c <= 0 else a[1]

    @B('const core::f64::MIN', 'const core::f64::MAX', 'const core::f64::EPSILON', 'const core::f64::INFINITY', 'const core::f64::NEG_INFINITY', 'const core::f64::NAN',
       'const f64::MIN', 'const f64::MAX', 'const f64::EPSILON', 'const f64::INFINITY', 'const f64::NEG_INFINITY', 'const f64::NAN', 'const core::f64::MIN_POSITIVE', 'const f64::MIN_POSITIVE')
    def b_f64_consts(ctx, a, callee):
        import sys as _s
        k = str(callee).rsplit('::', 1)[1]
        return {'MIN': -_s.float_info.max, 'MAX': _s.float_info.max, 'EPSILON': _s.float_info.epsilon, 'INFINITY': float('inf'), 'NEG_INFINITY': float('-inf'), 'NAN': float('nan'),
                'MIN_POSITIVE': _s.float_info.min}[k]

    # ------------------------------------------------------------------ thread_local! and raw slice pointers
    @B('LocalKey::new', 'std::thread::LocalKey::new')
    def b_localkey_new(ctx, a, callee):
        f = a[0]
        name = f.name if type(f) is FnPtr else repr(f)
        return Agg('LocalKey', None, (name,))

    @B('LocalKey::with', 'std::thread::LocalKey::with', 'LocalKey::try_with', 'std::thread::LocalKey::try_with')
    def b_localkey_with(ctx, a, callee):
        """one value per key and per path (a path is one thread of execution); initialised from the `const { .. }` initialiser"""
        key = D(a[0]).fields[0]
        tls = getattr(ctx, 'tls', None)
        if tls is None:
            tls = ctx.tls = {}
        if key not in tls:
            base = re.sub(r'::\{constant#\d+\}.*$', '', key)
            from .interp import eval_const_expr
            try:
                init = eval_const_expr(ctx, None, base + '::__RUST_STD_INTERNAL_INIT')
            except Unsupported:
                raise Unsupported('thread_local %s: lazily initialised keys are not modelled' % key)
            tls[key] = init
        r = ctx.call_value(a[1], [tls[key]])
        return ok(r) if callee.endswith('try_with') else r

    @B('core::slice::as_ptr', 'slice::as_ptr', 'Vec::as_ptr', 'core::slice::as_mut_ptr', 'core::str::as_ptr', 'str::as_ptr')
    def b_slice_as_ptr(ctx, a, callee):
        # the only thing a harnessed program may do with it is compare addresses: the identity of the (immutable) backing
        # tuple stands for the address of the first element
        v = D(a[0])
        if type(v) is VecV:
            return id(v.items) & 0x7fffffffffff
        return id(v) & 0x7fffffffffff
