"""Builtins, part 2: str/String/char, the formatting lowering (fmt::Arguments byte templates), io::Write sinks,
BTreeMap/HashMap/sets. Strings are python `str` when concrete, SymStr (bytes, some symbolic) otherwise."""
import re
import z3
from decimal import Decimal

from .interp import (Panic, Unsupported, HarnessStop, resolve, exec_func, binop, to_bv, to_bool, ty_bits, norm_type)
from .vals import inner_ref as R
from .vals import (Agg, VecV, MapV, SymStr, CellV, Ref, FnPtr, Opaque, PathV, FmtV, UNIT, NONE, some, ok, err, tup, is_sym,
                   seq_items, rebuild_seq, assemble, deref_all as D)
from .bi_core import it_seq, sym_eq, map_key, as_it, it_drain, znot


def sbytes(s):
    """string value -> tuple of bytes (int | BV8)"""
    s = D(s)
    if type(s) is str:
        return tuple(s.encode('utf-8'))
    if type(s) is SymStr:
        return s.bytes
    if type(s) is bytes:
        return tuple(s)
    if type(s) is VecV:
        return s.items
    if type(s) is PathV:
        return tuple(s.to_str().encode('utf-8'))
    raise Unsupported('not a string: %r' % (s,))


def mkstr(bs):
    bs = tuple(bs)
    if any(type(b) is tuple for b in bs):
        # a byte buffer that carries opaque rendering pieces (symbolic numbers written into a Vec<u8>)
        pieces = []
        cur = []
        for b in bs:
            if type(b) is tuple:
                if cur:
                    pieces.append(mkstr(cur))
                    cur = []
                pieces.append(b)
            else:
                cur.append(b)
        if cur:
            pieces.append(mkstr(cur))
        return assemble(pieces)
    if all(type(b) is int for b in bs):
        try:
            return bytes(bs).decode('utf-8')
        except UnicodeDecodeError:
            return SymStr(bs)
    return SymStr(bs)


def concat_strs(ctx, items):
    pieces = []
    for x in items:
        x = D(x)
        if type(x) is int:          # char
            pieces.append(chr(x))
        elif is_sym(x):
            pieces.append(char_to_str(ctx, x))
        else:
            pieces.append(x)
    return assemble(pieces)


def char_to_str(ctx, c):
    """a (possibly symbolic) char -> string. Symbolic chars are assumed/forked to be ASCII (1 byte) else unsupported."""
    if type(c) is int:
        return chr(c)
    if c.size() == 8:
        return SymStr((c,))
    if ctx.branch(z3.ULT(c, z3.BitVecVal(0x80, c.size()))):
        return SymStr((z3.Extract(7, 0, c),))
    raise Unsupported('non-ASCII symbolic char')


def fmt_f64(v):
    """Rust `Display for f64`: shortest round-trip digits, never an exponent"""
    if v != v:
        return 'NaN'
    if v in (float('inf'), float('-inf')):
        return 'inf' if v > 0 else '-inf'
    r = repr(float(v))
    d = Decimal(r)
    s = format(d, 'f')
    if '.' in s:
        s = s.rstrip('0').rstrip('.')
    if s in ('', '-'):
        s += '0'
    if v == 0 and str(v).startswith('-'):
        s = '-0'
    return s


def fmt_f64_debug(v):
    """Rust `Debug for f64`: like Display with at least one fractional digit, but scientific for |v| >= 1e16 or 0 < |v| < 1e-4"""
    if v != v or v in (float('inf'), float('-inf')):
        return fmt_f64(v)
    a = abs(v)
    if a != 0 and (a >= 1e16 or a < 1e-4):
        d = Decimal(repr(float(v)))
        sign, digits, exp = d.as_tuple()
        ds = ''.join(str(x) for x in digits).rstrip('0') or '0'
        e10 = len(digits) - 1 + exp
        mant = ds[0] + ('.' + ds[1:] if len(ds) > 1 else '')
        return ('-' if sign else '') + mant + 'e' + str(e10)
    s = fmt_f64(v)
    return s if '.' in s else s + '.0'


def escape_debug_str(s):
    out = ['"']
    for ch in s:
        if ch == '"':
            out.append('\\"')
        elif ch == '\\':
            out.append('\\\\')
        elif ch == '\n':
            out.append('\\n')
        elif ch == '\t':
            out.append('\\t')
        elif ch == '\r':
            out.append('\\r')
        elif ch == '\0':
            out.append('\\0')
        elif ord(ch) < 0x20 or ord(ch) == 0x7f:
            out.append('\\u{%x}' % ord(ch))
        else:
            out.append(ch)
    out.append('"')
    return ''.join(out)


class Fmt:
    """std::fmt::Formatter stand-in: collects pieces"""
    pass


def new_formatter():
    return Agg('Formatter', None, (CellV(()),))


def fmt_push(f, piece):
    c = D(f).fields[0]
    c.slot[0] = c.slot[0] + (piece,)


def fmt_pieces(f):
    return D(f).fields[0].slot[0]


def render_value(ctx, v, kind, tyname, out):
    """append the rendering of `v` ({} or {:?}) to formatter `out`"""
    v0 = D(v)
    t = type(v0)
    if t is Agg and v0.ty == 'FmtArguments':
        render_arguments(ctx, v0, out)
        return
    if kind == 'display':
        if t is str or t is SymStr or t is FmtV:
            fmt_push(out, v0)
            return
        if t is bool:
            fmt_push(out, 'true' if v0 else 'false')
            return
        if t is int:
            fmt_push(out, chr(v0) if tyname == 'char' else str(v0))
            return
        if t is float:
            fmt_push(out, fmt_f64(v0))
            return
        if is_sym(v0):
            if z3.is_bool(v0):
                fmt_push(out, 'true' if ctx.branch(v0) else 'false')
                return
            if tyname == 'char':
                fmt_push(out, char_to_str(ctx, v0))
                return
            if z3.is_fp(v0):
                fmt_push(out, ('f64', v0))
                return
            fmt_push(out, ('int', v0, tyname))
            return
        if t is PathV:
            fmt_push(out, v0.to_str())
            return
        if t is Agg and v0.ty == 'It:seq' and all(type(c) is int for c in v0.fields[0]):
            items, i, j = v0.fields
            fmt_push(out, ''.join(chr(c) for c in items[i:j]))      # char iterators that implement Display
            return
        if t is Agg and '::' in v0.ty or (t is Agg and v0.ty not in ('tuple', 'Option', 'Result')):
            tgt = resolve(ctx.prog, '<%s as Display>::fmt' % v0.ty)
            if tgt[0] == 'mir':
                r = exec_func(ctx, tgt[1], [v0, out])
                return
            if tgt[0] == 'builtin':
                tgt[1](ctx, [v0, out], '<%s as Display>::fmt' % v0.ty)
                return
        if t is Opaque:
            fmt_push(out, ('opaque', v0))
            return
        if t is Agg and v0.ty.endswith('Error') and v0.fields and type(v0.fields[0]) in (str, SymStr, FmtV):
            fmt_push(out, v0.fields[0])         # third-party / io error values carry their message
            return
        raise Unsupported('Display of %r' % (v0,))
    # debug and everything else
    if t is str and kind == 'debug':
        fmt_push(out, escape_debug_str(v0))
        return
    if t is int and tyname != 'char' and kind == 'debug':
        fmt_push(out, str(v0))
        return
    if t is bool and kind == 'debug':
        fmt_push(out, 'true' if v0 else 'false')
        return
    if t is float and kind == 'debug':
        fmt_push(out, fmt_f64_debug(v0))
        return
    if kind == 'debug' and t is SymStr:
        # `{:?}` of a string with symbolic bytes (ASCII): fork per byte on the escape class, like str::escape_debug does
        out_bytes = [0x22]
        for b in v0.bytes:
            if not is_sym(b):
                out_bytes.extend(escape_debug_str(chr(b))[1:-1].encode() if b < 0x80 else [b])
                continue
            if ctx.branch(z3.UGE(b, 0x80)):
                raise Unsupported('Debug of a symbolic non-ASCII byte')
            k = ctx.decide([b == 0x22, b == 0x5c, b == 0x0a, b == 0x0d, b == 0x09, b == 0x00, z3.Or(z3.ULT(b, 0x20), b == 0x7f), z3.BoolVal(True)])
            if k == 0:
                out_bytes.extend(b'\\"')
            elif k == 1:
                out_bytes.extend(b'\\\\')
            elif k == 2:
                out_bytes.extend(b'\\n')
            elif k == 3:
                out_bytes.extend(b'\\r')
            elif k == 4:
                out_bytes.extend(b'\\t')
            elif k == 5:
                out_bytes.extend(b'\\0')
            elif k == 6:
                # \u{..} with lowercase hex digits of the byte: fork over the (few) control values
                val = ctx.concretize_int(b, list(range(1, 0x20)) + [0x7f])
                out_bytes.extend(('\\u{%x}' % val).encode())
            else:
                out_bytes.append(b)
        out_bytes.append(0x22)
        fmt_push(out, SymStr(tuple(out_bytes)))
        return
    if kind == 'debug':
        txt = debug_text(v0, tyname)
        if txt is not None:
            fmt_push(out, txt)
            return
    fmt_push(out, (kind, v0))


def debug_text(v, tyname=''):
    """`{:?}` of concrete std values (Option, Result, Vec/slices, tuples, unit); None when it cannot be rendered exactly"""
    v = D(v)
    t = type(v)
    if t is bool:
        return 'true' if v else 'false'
    if t is int:
        return ("'" + chr(v) + "'") if tyname == 'char' else str(v)
    if t is float:
        return fmt_f64_debug(v)
    if t is str:
        return escape_debug_str(v)
    if t is VecV:
        parts = [debug_text(x) for x in v.items]
        return None if any(p is None for p in parts) else '[' + ', '.join(parts) + ']'
    if t is Agg and v.ty == 'Option':
        if v.variant == 0:
            return 'None'
        inner = debug_text(v.fields[0])
        return None if inner is None else 'Some(%s)' % inner
    if t is Agg and v.ty == 'Result':
        inner = debug_text(v.fields[0])
        return None if inner is None else '%s(%s)' % ('Ok' if v.variant == 0 else 'Err', inner)
    if t is Agg and v.ty in ('tuple', '()') and v.variant is None:
        parts = [debug_text(x) for x in v.fields]
        if any(p is None for p in parts):
            return None
        return '(' + ', '.join(parts) + (',' if len(parts) == 1 else '') + ')'
    return None


def render_arguments(ctx, args, out):
    for p in args.fields[0]:
        if type(p) is str:
            fmt_push(out, p)
        else:
            arg, opts = p
            a = D(arg)
            if opts:
                fl = opts.get('flags')
                if set(opts) <= {'flags'} and a.fields[1] == 'debug' and not ((fl or 0) & (1 << 23)):
                    render_value(ctx, a.fields[0], 'debug', a.fields[2], out)
                    continue
                fmt_push(out, render_with_options(ctx, a, opts))
                continue
            if a.fields[1] in ('lower_hex', 'upper_hex', 'octal', 'binary', 'lower_exp'):
                fmt_push(out, render_with_options(ctx, a, {}))
                continue
            render_value(ctx, a.fields[0], a.fields[1], a.fields[2], out)


def render_with_options(ctx, a, opts):
    """`{:>5}`, `{:05}`, `{:+}`, `{:x}`, `{:#x}`, `{:b}`, `{:.2}`, `{:e}` ... for concrete values (std::fmt::Formatter::pad /
    pad_integral / float formatting); symbolic values with layout options are not modelled"""
    v = D(a.fields[0])
    kind = a.fields[1]
    ty = a.fields[2] or ''
    flags = opts.get('flags', 0x60000020)
    fill = chr(flags & 0x1FFFFF) if flags & 0x1FFFFF else ' '
    plus = bool(flags & (1 << 21))
    alt = bool(flags & (1 << 23))
    zero = bool(flags & (1 << 24))
    align = (flags >> 29) & 3

    def optval(k):
        x = opts.get(k)
        if type(x) is tuple and x[0] == 'arg':
            x = D(D(x[1]).fields[0])
        if x is not None and is_sym(x):
            raise Unsupported('symbolic format %s' % k)
        return x
    width = optval('width')
    prec = optval('precision')
    if is_sym(v) or type(v) in (SymStr, FmtV) and any(is_sym(b) for b in seq_items(v)):
        raise Unsupported('format options %r on a symbolic value' % (opts,))
    if type(v) in (SymStr, FmtV):
        v = bytes(seq_items(v)).decode('utf-8', 'replace')
    numeric = False
    prefix = ''
    sign = ''
    if type(v) is bool:
        body = 'true' if v else 'false'
        if prec is not None:
            body = body[:prec]
    elif type(v) is int and ty != 'char':
        numeric = True
        if kind in ('lower_hex', 'upper_hex', 'octal', 'binary'):
            bits = (ty_bits(ty.lstrip('&')) or (64, True))[0] if ty else 64
            u = v & ((1 << bits) - 1)
            body = {'lower_hex': '%x' % u, 'upper_hex': '%X' % u, 'octal': '%o' % u, 'binary': bin(u)[2:]}[kind]
            prefix = {'lower_hex': '0x', 'upper_hex': '0x', 'octal': '0o', 'binary': '0b'}[kind] if alt else ''
        elif kind == 'lower_exp':
            raise Unsupported('{:e} of an integer')
        else:
            body = str(abs(v))
            sign = '-' if v < 0 else ('+' if plus else '')
    elif type(v) is float:
        numeric = True
        neg = v < 0 or (v == 0 and str(v).startswith('-'))
        av = abs(v)
        if v != v:
            body = 'NaN'
            neg = False
        elif av == float('inf'):
            body = 'inf'
        elif kind == 'lower_exp':
            from decimal import Decimal
            d = Decimal(repr(av))
            sg, digits, ex = d.as_tuple()
            ds = ''.join(map(str, digits)).rstrip('0') or '0'
            e10 = len(digits) - 1 + ex if av != 0 else 0
            if prec is not None:
                ds = ('%.*e' % (prec, av)).split('e')[0].replace('.', '')
            body = ds[0] + ('.' + ds[1:] if len(ds) > 1 else '') + 'e' + str(e10)
        elif prec is not None:
            from decimal import Decimal, ROUND_HALF_EVEN
            body = str(Decimal(av).quantize(Decimal(1).scaleb(-prec), rounding=ROUND_HALF_EVEN)) if prec > 0 else str(Decimal(av).quantize(Decimal(1), rounding=ROUND_HALF_EVEN))
        else:
            body = fmt_f64_debug(av) if kind == 'debug' else fmt_f64(av)
        sign = '-' if neg else ('+' if plus else '')
    elif type(v) is int and ty == 'char':
        body = chr(v) if kind != 'debug' else repr(chr(v)).replace('"', "'") if False else ("'" + chr(v) + "'")
    elif type(v) is str:
        body = escape_debug_str(v) if kind == 'debug' else v
        if prec is not None and kind != 'debug':
            body = body[:prec]
    else:
        sub = new_formatter()
        render_value(ctx, v, kind, ty, sub)
        body = assemble(fmt_pieces(sub))
        if type(body) is not str:
            raise Unsupported('format options %r on %r' % (opts, v))
    text = sign + prefix + body
    if width is None or len(text) >= width:
        return text
    pad = width - len(text)
    if numeric and zero:
        return sign + prefix + '0' * pad + body
    if align == 3:
        align = 1 if numeric else 0
    if align == 0:
        return text + fill * pad
    if align == 1:
        return fill * pad + text
    left = pad // 2
    return fill * left + text + fill * (pad - left)


def format_to_value(ctx, args):
    out = new_formatter()
    render_arguments(ctx, D(args), out)
    return assemble(fmt_pieces(out))


def decode_template(tmpl, argv):
    """fmt::Arguments byte template (see library/core/src/fmt/mod.rs) -> list of str | (arg, opts)"""
    pieces = []
    i = 0
    ai = 0
    n = len(tmpl)
    while i < n:
        b = tmpl[i]
        i += 1
        if b == 0:
            break
        if b < 0x80:
            pieces.append(bytes(tmpl[i:i + b]).decode('utf-8'))
            i += b
        elif b == 0x80:
            ln = tmpl[i] | (tmpl[i + 1] << 8)
            i += 2
            pieces.append(bytes(tmpl[i:i + ln]).decode('utf-8'))
            i += ln
        elif b == 0xC0:
            pieces.append((argv[ai], None))
            ai += 1
        else:
            opts = {}
            if b & 1:
                opts['flags'] = int.from_bytes(bytes(tmpl[i:i + 4]), 'little')
                i += 4
            if b & 2:
                opts['width'] = int.from_bytes(bytes(tmpl[i:i + 2]), 'little')
                i += 2
            if b & 4:
                opts['precision'] = int.from_bytes(bytes(tmpl[i:i + 2]), 'little')
                i += 2
            if b & 8:
                ai = int.from_bytes(bytes(tmpl[i:i + 2]), 'little')
                i += 2
            if b & 16 and 'width' in opts:
                opts['width'] = ('arg', argv[opts['width']])
            if b & 32 and 'precision' in opts:
                opts['precision'] = ('arg', argv[opts['precision']])
            pieces.append((argv[ai], opts or None))
            ai += 1
    return pieces


def sink_new():
    """an io::Write / fmt::Write sink for harnesses"""
    return Agg('Sink', None, (CellV(()),))


def sink_pieces(s):
    return D(s).fields[0].slot[0]


def sink_value(s):
    return assemble(sink_pieces(s))


def write_to(ctx, w, val):
    """append a rendered string value to writer `w` (Sink, Vec<u8>, String, Formatter, Cursor, stdout/stderr opaque)"""
    while type(w) is Ref and type(w.load()) is Ref:
        w = w.load()
    w0 = D(w)
    t = type(w0)
    if t is Agg and w0.ty in ('Sink', 'Formatter'):
        c = w0.fields[0]
        c.slot[0] = c.slot[0] + (val,)
        return
    if t is Agg and w0.ty in ('Stdout', 'Stderr'):
        ctx.event(w0.ty.lower(), val)
        return
    if t is Agg and w0.ty == 'Cursor':
        r = w
        while type(r) is Ref and type(r.load()) is Ref:
            r = r.load()
        if type(r) is Ref:
            write_to(ctx, r.extend(('f', 0)), val)
        else:
            write_to(ctx, w0.fields[0], val)
        return
    if t is Agg and w0.ty == 'OutFile':
        ctx.event('write', w0.fields[0], val)
        return
    if t is VecV and type(w) is Ref:
        if type(val) is FmtV:
            items = []
            for p in val.pieces:
                if type(p) is tuple:
                    items.append(p)         # opaque piece kept as one buffer element
                else:
                    items.extend(sbytes(p))
            w.store(VecV(w0.items + tuple(items)))
            return
        w.store(VecV(w0.items + tuple(sbytes(val))))
        return
    if t in (str, SymStr, FmtV) and type(w) is Ref:
        w.store(assemble([w0, val]))
        return
    raise Unsupported('write to %r' % (w0,))


def install(prog):
    B = prog.builtin

    # ---------------------------------------------------------------- conversions
    @B('re:^<(str|String|std::string::String|Rc|Box|char|Cow|std::borrow::Cow) as (Into|From|ToString|ToOwned)>::(into|from|to_string|to_owned)$', 'String::from', 'std::string::String::from',
       'core::str::to_string', 'str::to_string', 'String::into_boxed_str', 'core::str::to_owned', 'String::from_utf8_unchecked', 'core::str::from_utf8_unchecked',
       'std::string::String::from_utf8_unchecked', 'std::str::from_utf8_unchecked', 'std::string::String::into_bytes', 'String::into_bytes', 'Cow::into_owned', 'std::borrow::Cow::into_owned',
       'String::into_string', 'str::into_string')
    def b_str_conv(ctx, a, callee):
        v = D(a[0])
        if callee.startswith('<char as ToString>') or callee.startswith('<char as Into'):
            return char_to_str(ctx, v)
        if callee.endswith('::to_string') and type(v) not in (str, SymStr, FmtV):
            return b_generic_to_string(ctx, a, callee)
        if type(v) is int and ('From<char>' in callee or 'as From<char>' in callee):
            return chr(v)
        m = re.match(r'^<(.*) as (?:Into|From)<(.*)>>::(into|from)$', callee, re.S)
        if m:
            src, dst = (m.group(1), m.group(2)) if m.group(3) == 'into' else (m.group(2), m.group(1))
            dn = norm_type(dst).split('::')[-1]
            if dn in ('PathBuf', 'Path'):
                return to_path(v)
            sn = norm_type(src).split('::')[-1]
            if sn in ('PathBuf',) and dn in ('String',):
                return v.to_str()
            if dn == 'Vec' and type(v) in (str, SymStr):
                return VecV(sbytes(v))
        if type(v) is Agg and v.ty == 'Cow':
            return v.fields[0]
        return v

    def to_path(v):
        v = D(v)
        if type(v) is PathV:
            return v
        if type(v) is str:
            # a PathBuf keeps its string: interior `.` segments, doubled and trailing slashes survive to_string_lossy();
            # only components()/comparison ignore them (PathV.canon). '' components stand for a doubled or trailing slash.
            absolute = v.startswith('/')
            body = v[1:] if absolute else v
            comps = body.split('/') if body != '' else []
            return PathV(absolute, comps)
        if type(v) is Agg and v.ty == 'Component':
            if v.variant == 1:
                return PathV(True, ())
            if v.variant == 2:
                return PathV(False, ('.',))
            if v.variant == 3:
                return PathV(False, ('..',))
            if v.variant == 4:
                return PathV(False, (v.fields[0],))
        raise Unsupported('path from %r' % (v,))
    prog.to_path = to_path

    @B('<_ as Into>::into', '<_ as From>::from', '<_ as ToOwned>::to_owned', '<_ as AsRef>::as_ref', '<_ as Borrow>::borrow', '<_ as Clone>::clone')
    def b_generic_into(ctx, a, callee):
        v = D(a[0])
        if re.search(r'AsRef<(std::path::)?Path>', callee) and type(v) is str:
            return to_path(v)
        m = re.match(r'^<(.*) as (?:Into|From)<(.*)>>::(into|from)$', callee, re.S)
        if m:
            dst = m.group(2) if m.group(3) == 'into' else m.group(1)
            dn = norm_type(dst).split('::')[-1]
            if dn in ('PathBuf', 'Path'):
                return to_path(v)
            if dn == 'String' and type(v) is PathV:
                return v.to_str()
        if type(v) is CellV and callee.endswith('clone'):
            return CellV(v.slot[0])
        return v

    @B('<_ as ToString>::to_string')
    def b_generic_to_string(ctx, a, callee):
        out = new_formatter()
        render_value(ctx, a[0], 'display', 'char' if callee.startswith('<char') else '', out)
        return assemble(fmt_pieces(out))

    @B('<_ as PartialEq>::eq')
    def b_generic_eq(ctx, a, callee):
        return prog.find_builtin('<Vec as PartialEq>::eq')(ctx, a, callee)

    @B('<_ as PartialEq>::ne')
    def b_generic_ne(ctx, a, callee):
        return znot(prog.find_builtin('<Vec as PartialEq>::eq')(ctx, a, callee))

    @B('re:^<(Rc|Box|Arc) as From>::from$')
    def b_rc_from(ctx, a, callee):
        return D(a[0])

    @B('re:^<(u8|u16|u32|u64|usize|i8|i16|i32|i64|isize|f64|bool) as (Into|From)>::(into|from)$')
    def b_num_conv(ctx, a, callee):
        v = D(a[0])
        m = re.match(r'^<(.*) as (?:Into|From)<(.*)>>::(into|from)$', callee, re.S)
        src, dst = (m.group(1), m.group(2)) if m.group(3) == 'into' else (m.group(2), m.group(1))
        sb = ty_bits(norm_type(src))
        db = ty_bits(norm_type(dst))
        if norm_type(dst) == 'f64':
            if is_sym(v):
                return z3.fpSignedToFP(z3.RNE(), v, z3.Float64()) if sb and sb[1] else z3.fpUnsignedToFP(z3.RNE(), v, z3.Float64())
            return float(v)
        if is_sym(v) and sb and db and db[0] > sb[0]:
            return z3.SignExt(db[0] - sb[0], v) if sb[1] else z3.ZeroExt(db[0] - sb[0], v)
        return v

    @B('re:^<(u8|u16|u32|u64|usize|i8|i16|i32|i64|isize) as TryFrom>::try_from$', 're:^<(u8|u16|u32|u64|usize|i8|i16|i32|i64|isize) as TryInto>::try_into$')
    def b_try_from(ctx, a, callee):
        v = D(a[0])
        m = re.match(r'^<(.*) as (?:TryInto|TryFrom)<(.*)>>::(try_into|try_from)$', callee, re.S)
        src, dst = (m.group(1), m.group(2)) if m.group(3) == 'try_into' else (m.group(2), m.group(1))
        sb = ty_bits(norm_type(src))
        db = ty_bits(norm_type(dst))
        lo, hi = (-(1 << (db[0] - 1)), (1 << (db[0] - 1)) - 1) if db[1] else (0, (1 << db[0]) - 1)
        if is_sym(v):
            w = v.size()
            if sb[1]:
                inr = z3.And(v >= max(lo, -(1 << (w - 1))), v <= min(hi, (1 << (w - 1)) - 1))
            else:
                inr = z3.ULE(v, min(hi, (1 << w) - 1)) if hi < (1 << w) - 1 else z3.BoolVal(True)
            if ctx.branch(inr):
                if db[0] > w:
                    v = z3.SignExt(db[0] - w, v) if sb[1] else z3.ZeroExt(db[0] - w, v)
                elif db[0] < w:
                    v = z3.Extract(db[0] - 1, 0, v)
                return ok(v)
            return err(Opaque('TryFromIntError'))
        return ok(v) if lo <= v <= hi else err(Opaque('TryFromIntError'))

    # ---------------------------------------------------------------- str basics
    @B('core::str::len', 'String::len', 'std::string::String::len')
    def b_str_len(ctx, a, callee):
        return len(sbytes(a[0]))

    @B('core::str::is_empty', 'String::is_empty', 'std::string::String::is_empty')
    def b_str_is_empty(ctx, a, callee):
        return len(sbytes(a[0])) == 0

    @B('core::str::as_bytes', 'String::as_bytes', 'std::string::String::as_bytes', 'core::str::as_ptr')
    def b_as_bytes(ctx, a, callee):
        v = D(a[0])
        if type(v) is str:
            return v.encode('utf-8')
        return VecV(sbytes(v))

    @B('core::str::bytes')
    def b_bytes(ctx, a, callee):
        return it_seq(sbytes(a[0]))

    def chars_of(ctx, s):
        s = D(s)
        if type(s) is str:
            return [ord(c) for c in s]
        out = []
        bs = sbytes(s)
        i = 0
        while i < len(bs):
            b = bs[i]
            if type(b) is int:
                if b < 0x80:
                    out.append(b)
                    i += 1
                    continue
                n = 2 if b < 0xE0 else (3 if b < 0xF0 else 4)
                chunk = bs[i:i + n]
                if all(type(x) is int for x in chunk):
                    out.append(ord(bytes(chunk).decode('utf-8')))
                    i += n
                    continue
                raise Unsupported('partially symbolic multi-byte char')
            # symbolic byte: ASCII or unsupported
            if ctx.branch(z3.ULT(b, z3.BitVecVal(0x80, 8))):
                out.append(z3.ZeroExt(24, b))
                i += 1
            else:
                raise Unsupported('symbolic non-ASCII byte in chars()')
        return out

    @B('core::str::chars')
    def b_chars(ctx, a, callee):
        return it_seq(chars_of(ctx, a[0]))

    @B('core::str::char_indices')
    def b_char_indices(ctx, a, callee):
        out = []
        off = 0
        for c in chars_of(ctx, a[0]):
            out.append(tup(off, c))
            off += len(chr(c).encode('utf-8')) if type(c) is int else 1
        return it_seq(out)

    @B('String::push', 'std::string::String::push')
    def b_string_push(ctx, a, callee):
        s = R(a[0]).load()
        R(a[0]).store(assemble([s, char_to_str(ctx, D(a[1]))]))
        return UNIT

    @B('String::push_str', 'std::string::String::push_str', '<std::string::String as AddAssign>::add_assign', '<String as AddAssign>::add_assign')
    def b_string_push_str(ctx, a, callee):
        s = R(a[0]).load()
        R(a[0]).store(assemble([s, D(a[1])]))
        return UNIT

    @B('<std::string::String as Add>::add', '<String as Add>::add')
    def b_string_add(ctx, a, callee):
        return assemble([D(a[0]), D(a[1])])

    @B('String::new', 'std::string::String::new', 'String::with_capacity', 'std::string::String::with_capacity')
    def b_string_new(ctx, a, callee):
        return ''

    @B('String::clear', 'std::string::String::clear')
    def b_string_clear(ctx, a, callee):
        R(a[0]).store('')
        return UNIT

    @B('String::pop', 'std::string::String::pop')
    def b_string_pop(ctx, a, callee):
        s = R(a[0]).load()
        if type(s) is str:
            if not s:
                return NONE
            R(a[0]).store(s[:-1])
            return some(ord(s[-1]))
        bs = sbytes(s)
        if not bs:
            return NONE
        last = bs[-1]
        if is_sym(last):
            if not ctx.branch(z3.ULT(last, 0x80)):
                raise Unsupported('symbolic non-ASCII pop')
            R(a[0]).store(mkstr(bs[:-1]))
            return some(z3.ZeroExt(24, last))
        raise Unsupported('String::pop on mixed string')

    @B('String::truncate', 'std::string::String::truncate')
    def b_string_truncate(ctx, a, callee):
        s = R(a[0]).load()
        bs = sbytes(s)
        n = D(a[1])
        if is_sym(n):
            raise Unsupported('String::truncate with a symbolic length')
        if n < len(bs):
            b = bs[n]
            # truncating inside a multi-byte character panics (assert!(self.is_char_boundary(new_len)))
            inside = z3.And(z3.UGE(b, 0x80), z3.ULT(b, 0xC0)) if is_sym(b) else 0x80 <= b < 0xC0
            if ctx.branch(inside):
                raise Panic('assertion failed: self.is_char_boundary(new_len)', ctx.where())
            R(a[0]).store(mkstr(bs[:n]))
        return UNIT

    @B('String::from_utf8', 'std::string::String::from_utf8', 'core::str::from_utf8', 'std::str::from_utf8')
    def b_from_utf8(ctx, a, callee):
        v = D(a[0])
        bs = sbytes(v)
        if all(type(b) is int for b in bs):
            try:
                return ok(bytes(bs).decode('utf-8'))
            except UnicodeDecodeError:
                return err(Opaque('Utf8Error'))
        # symbolic bytes: valid iff ASCII (multi-byte symbolic sequences are outside the encoding)
        for b in bs:
            if is_sym(b) and not ctx.branch(z3.ULT(b, z3.BitVecVal(0x80, 8))):
                raise Unsupported('symbolic non-ASCII byte in from_utf8')
        return ok(mkstr(bs))

    @B('String::from_utf8_lossy', 'std::string::String::from_utf8_lossy')
    def b_from_utf8_lossy(ctx, a, callee):
        bs = sbytes(a[0])
        if all(type(b) is int for b in bs):
            return bytes(bs).decode('utf-8', 'replace')
        return mkstr(bs)

    def find_sub(ctx, hay, needle, start=0):
        """first index >= start where needle occurs (forks on symbolic bytes); -1 if none"""
        n = len(needle)
        for i in range(start, len(hay) - n + 1):
            conds = []
            dead = False
            for k in range(n):
                e = sym_eq(ctx, hay[i + k], needle[k])
                if e is False:
                    dead = True
                    break
                if e is not True:
                    conds.append(e)
            if dead:
                continue
            if not conds or ctx.branch(z3.And(*conds)):
                return i
        return -1

    def pattern_bytes(ctx, p):
        p = D(p)
        if type(p) is int:
            return tuple(chr(p).encode('utf-8'))
        if is_sym(p):
            return sbytes(char_to_str(ctx, p))
        if type(p) in (str, SymStr):
            return sbytes(p)
        if type(p) is VecV:      # &[char]
            raise Unsupported('char-set pattern')
        raise Unsupported('pattern %r' % (p,))

    @B('str::replace', 'core::str::replace')
    def b_replace(ctx, a, callee):
        hay = sbytes(a[0])
        pat = pattern_bytes(ctx, a[1])
        rep = sbytes(a[2])
        if not pat:
            raise Unsupported('replace with empty pattern')
        out = []
        i = 0
        while True:
            j = find_sub(ctx, hay, pat, i)
            if j < 0:
                out.extend(hay[i:])
                break
            out.extend(hay[i:j])
            out.extend(rep)
            i = j + len(pat)
        return mkstr(out)

    @B('core::str::contains')
    def b_str_contains(ctx, a, callee):
        p = D(a[1])
        if type(p) is Agg and p.ty.startswith('closure@') or type(p) is FnPtr:
            for c in chars_of(ctx, a[0]):
                if ctx.branch(ctx.call_value(p, [c])):
                    return True
            return False
        return find_sub(ctx, sbytes(a[0]), pattern_bytes(ctx, a[1])) >= 0

    @B('core::str::find')
    def b_str_find(ctx, a, callee):
        p = D(a[1])
        if type(p) is Agg and p.ty.startswith('closure@') or type(p) is FnPtr:
            off = 0
            for c in chars_of(ctx, a[0]):
                if ctx.branch(ctx.call_value(p, [c])):
                    return some(off)
                off += len(chr(c).encode('utf-8')) if type(c) is int else 1
            return NONE
        j = find_sub(ctx, sbytes(a[0]), pattern_bytes(ctx, a[1]))
        return some(j) if j >= 0 else NONE

    @B('core::str::rfind')
    def b_str_rfind(ctx, a, callee):
        hay = sbytes(a[0])
        pat = pattern_bytes(ctx, a[1])
        for i in range(len(hay) - len(pat), -1, -1):
            if find_sub(ctx, hay[i:i + len(pat)], pat) == 0:
                return some(i)
        return NONE

    @B('core::str::starts_with')
    def b_starts_with(ctx, a, callee):
        hay = sbytes(a[0])
        pat = pattern_bytes(ctx, a[1])
        if len(pat) > len(hay):
            return False
        return find_sub(ctx, hay[:len(pat)], pat) == 0

    @B('core::str::ends_with')
    def b_ends_with(ctx, a, callee):
        hay = sbytes(a[0])
        pat = pattern_bytes(ctx, a[1])
        if len(pat) > len(hay):
            return False
        return find_sub(ctx, hay[len(hay) - len(pat):], pat) == 0

    def is_ws_byte(ctx, b):
        if type(b) is int:
            return b in (0x20, 0x09, 0x0a, 0x0b, 0x0c, 0x0d)
        return ctx.branch(z3.Or(b == 0x20, z3.And(z3.UGE(b, 9), z3.ULE(b, 13))))

    @B('core::str::trim', 'core::str::trim_end', 'core::str::trim_start')
    def b_trim(ctx, a, callee):
        v = D(a[0])
        if type(v) is str:
            return v.strip() if callee.endswith('trim') else (v.rstrip() if callee.endswith('end') else v.lstrip())
        bs = list(sbytes(v))
        if not callee.endswith('trim_start'):
            while bs and is_ws_byte(ctx, bs[-1]):
                bs.pop()
        if not callee.endswith('trim_end'):
            while bs and is_ws_byte(ctx, bs[0]):
                bs.pop(0)
        return mkstr(bs)

    @B('core::str::trim_matches', 'core::str::trim_end_matches', 'core::str::trim_start_matches')
    def b_trim_matches(ctx, a, callee):
        bs = list(sbytes(a[0]))
        pat = pattern_bytes(ctx, a[1])
        n = len(pat)
        if not callee.endswith('trim_start_matches'):
            while len(bs) >= n and find_sub(ctx, tuple(bs[-n:]), pat) == 0:
                del bs[-n:]
        if not callee.endswith('trim_end_matches'):
            while len(bs) >= n and find_sub(ctx, tuple(bs[:n]), pat) == 0:
                del bs[:n]
        return mkstr(bs)

    @B('core::str::strip_prefix', 'core::str::strip_suffix')
    def b_strip(ctx, a, callee):
        bs = sbytes(a[0])
        pat = pattern_bytes(ctx, a[1])
        n = len(pat)
        if n > len(bs):
            return NONE
        if callee.endswith('prefix'):
            return some(mkstr(bs[n:])) if find_sub(ctx, bs[:n], pat) == 0 else NONE
        return some(mkstr(bs[:len(bs) - n])) if find_sub(ctx, bs[len(bs) - n:], pat) == 0 else NONE

    @B('core::str::split', 'core::str::splitn', 'core::str::split_terminator')
    def b_split(ctx, a, callee):
        if callee.endswith('splitn'):
            limit, pat = a[1], pattern_bytes(ctx, a[2])
        else:
            limit, pat = None, pattern_bytes(ctx, a[1])
        hay = sbytes(a[0])
        out = []
        i = 0
        while limit is None or len(out) < limit - 1:
            j = find_sub(ctx, hay, pat, i)
            if j < 0:
                break
            out.append(mkstr(hay[i:j]))
            i = j + len(pat)
        out.append(mkstr(hay[i:]))
        if callee.endswith('terminator') and out and len(sbytes(out[-1])) == 0:
            out.pop()
        return it_seq(out)

    @B('core::str::lines')
    def b_lines(ctx, a, callee):
        v = D(a[0])
        if type(v) is not str:
            raise Unsupported('lines() on symbolic string')
        ls = v.split('\n')
        if ls and ls[-1] == '':
            ls.pop()
        return it_seq([l[:-1] if l.endswith('\r') else l for l in ls])

    @B('core::str::split_whitespace')
    def b_split_ws(ctx, a, callee):
        v = D(a[0])
        if type(v) is not str:
            raise Unsupported('split_whitespace on symbolic string')
        return it_seq(v.split())

    @B('core::str::split_at')
    def b_str_split_at(ctx, a, callee):
        bs = sbytes(a[0])
        return tup(mkstr(bs[:a[1]]), mkstr(bs[a[1]:]))

    @B('<str as Index>::index', '<String as Index>::index', '<std::string::String as Index>::index', 'core::str::get')
    def b_str_index(ctx, a, callee):
        bs = sbytes(a[0])
        lo, hi = prog.range_bounds(D(a[1]), len(bs))
        n = len(bs)
        # symbolic bounds: fork over the positions inside the string; anything else is out of range
        if is_sym(lo):
            lo = ctx.concretize_int(lo, list(range(n + 1))) if ctx.branch(z3.ULE(lo, n)) else n + 1
        if is_sym(hi):
            hi = ctx.concretize_int(hi, list(range(n + 1))) if ctx.branch(z3.ULE(hi, n)) else n + 1

        def boundary(i):
            if i == 0 or i == n:
                return True
            b = bs[i]
            if is_sym(b):
                return not ctx.branch(z3.And(z3.UGE(b, 0x80), z3.ULT(b, 0xC0)))
            return not (0x80 <= b < 0xC0)
        if lo > hi or hi > n or not boundary(lo) or not boundary(hi):
            if callee.endswith('get'):
                return NONE
            raise Panic('byte index out of range of string or not on a char boundary', ctx.where())
        r = mkstr(bs[lo:hi])
        return some(r) if callee.endswith('::get') else r

    @B('str::repeat', 'core::str::repeat')
    def b_repeat(ctx, a, callee):
        return mkstr(sbytes(a[0]) * a[1])

    @B('core::str::to_lowercase', 'str::to_lowercase', 'core::str::to_ascii_lowercase', 'str::to_ascii_lowercase', 'core::str::to_uppercase', 'str::to_uppercase')
    def b_case(ctx, a, callee):
        v = D(a[0])
        if type(v) is not str:
            raise Unsupported('case conversion on symbolic string')
        return v.lower() if 'lower' in callee else v.upper()

    @B('slice::join', 'core::slice::join', 'std::slice::join')
    def b_join(ctx, a, callee):
        items = seq_items(D(a[0]))
        sep = D(a[1])
        pieces = []
        for i, x in enumerate(items):
            if i:
                pieces.append(sep)
            pieces.append(D(x))
        return assemble(pieces) if pieces else ''

    @B('core::str::parse', 'str::parse', 're:^<(i64|f64|usize|u32|i32|u64|u8|u16) as FromStr>::from_str$')
    def b_parse(ctx, a, callee):
        v = D(a[0])
        m = re.search(r'parse::<(\w+)>$', callee) or re.match(r'^<(\w+) as FromStr', callee)
        t = m.group(1)
        if type(v) is not str:
            bs = sbytes(v)
            if t != 'f64' and bs and all(True for _ in bs):
                # symbolic digit string: value is a polynomial in the bytes when all are digits
                conds = [z3.And(z3.UGE(b, 0x30), z3.ULE(b, 0x39)) if is_sym(b) else z3.BoolVal(0x30 <= b <= 0x39) for b in bs]
                if ctx.branch(z3.And(*conds)) and len(bs) <= 18:
                    acc = z3.BitVecVal(0, 64)
                    for b in bs:
                        acc = acc * 10 + z3.ZeroExt(56, to_bv(b, 8) - 0x30)
                    return ok(acc)
            nsym = sum(1 for b in bs if is_sym(b))
            if nsym > 3:
                raise Unsupported('parse of symbolic string')
            # few symbolic bytes (already classified by the caller's path condition): fork over their feasible values
            v = bytes(ctx.concretize_int(b, list(range(0, 256))) if is_sym(b) else b for b in bs).decode('latin-1')
        try:
            if t == 'f64':
                if not re.fullmatch(r'[+-]?(\d+\.?\d*([eE][+-]?\d+)?|\.\d+([eE][+-]?\d+)?|inf|infinity|nan)', v, re.I):
                    return err(Opaque('ParseFloatError'))
                return ok(float(v))
            if not re.fullmatch(r'[+-]?\d+', v) or (v.startswith('-') and t.startswith('u')):
                return err(Opaque('ParseIntError'))
            n = int(v)
            bits, signed = ty_bits(t)
            lo, hi = (-(1 << (bits - 1)), (1 << (bits - 1)) - 1) if signed else (0, (1 << bits) - 1)
            if not lo <= n <= hi:
                return err(Opaque('ParseIntError'))
            return ok(n)
        except ValueError:
            return err(Opaque('ParseError'))

    # ---------------------------------------------------------------- char
    def char_pred(name, conc, symf):
        @B('char::methods::' + name, 'core::char::methods::' + name, 're:^(core::)?char::(methods::)?<impl char>::' + name + '$', 'u8::' + name, 'core::num::' + name)
        def f(ctx, a, callee):
            c = D(a[0])
            if is_sym(c):
                return symf(c)
            return conc(c)
        return f

    def rng(c, lo, hi):
        w = c.size()
        return z3.And(z3.UGE(c, z3.BitVecVal(lo, w)), z3.ULE(c, z3.BitVecVal(hi, w)))
    char_pred('is_ascii_digit', lambda c: 0x30 <= c <= 0x39, lambda c: rng(c, 0x30, 0x39))
    char_pred('is_ascii_alphabetic', lambda c: 0x41 <= c <= 0x5a or 0x61 <= c <= 0x7a, lambda c: z3.Or(rng(c, 0x41, 0x5a), rng(c, 0x61, 0x7a)))
    char_pred('is_ascii_alphanumeric', lambda c: 0x30 <= c <= 0x39 or 0x41 <= c <= 0x5a or 0x61 <= c <= 0x7a,
              lambda c: z3.Or(rng(c, 0x30, 0x39), rng(c, 0x41, 0x5a), rng(c, 0x61, 0x7a)))
    char_pred('is_ascii_whitespace', lambda c: c in (0x20, 9, 10, 12, 13), lambda c: z3.Or(c == 0x20, c == 9, c == 10, c == 12, c == 13))
    char_pred('is_ascii_uppercase', lambda c: 0x41 <= c <= 0x5a, lambda c: rng(c, 0x41, 0x5a))
    char_pred('is_ascii_lowercase', lambda c: 0x61 <= c <= 0x7a, lambda c: rng(c, 0x61, 0x7a))
    char_pred('is_ascii', lambda c: c < 0x80, lambda c: z3.ULT(c, z3.BitVecVal(0x80, c.size())))
    char_pred('is_ascii_punctuation', lambda c: chr(c) in '!"#$%&\'()*+,-./:;<=>?@[\\]^_`{|}~',
              lambda c: z3.Or(rng(c, 0x21, 0x2f), rng(c, 0x3a, 0x40), rng(c, 0x5b, 0x60), rng(c, 0x7b, 0x7e)))

    @B('char::methods::is_whitespace', 'core::char::methods::is_whitespace')
    def b_is_whitespace(ctx, a, callee):
        c = D(a[0])
        if is_sym(c):
            if ctx.branch(z3.ULT(c, z3.BitVecVal(0x80, c.size()))):
                return z3.Or(c == 0x20, rng(c, 9, 13))
            raise Unsupported('is_whitespace on non-ASCII symbolic char')
        return chr(c).isspace()

    @B('char::methods::is_alphabetic', 'char::methods::is_alphanumeric', 'char::methods::is_numeric', 'char::methods::is_control')
    def b_is_alpha(ctx, a, callee):
        c = D(a[0])
        if is_sym(c):
            raise Unsupported('unicode class on symbolic char')
        ch = chr(c)
        k = callee.rsplit('::', 1)[1]
        return {'is_alphabetic': ch.isalpha(), 'is_alphanumeric': ch.isalnum(), 'is_numeric': ch.isnumeric(), 'is_control': ord(ch) < 32 or 0x7f <= ord(ch) < 0xa0}[k]

    @B('char::methods::len_utf8', 'core::char::methods::len_utf8')
    def b_len_utf8(ctx, a, callee):
        c = D(a[0])
        if is_sym(c):
            if ctx.branch(z3.ULT(c, z3.BitVecVal(0x80, c.size()))):
                return 1
            raise Unsupported('len_utf8 of non-ASCII symbolic char')
        return len(chr(c).encode('utf-8'))

    @B('char::methods::to_digit', 'core::char::methods::to_digit')
    def b_to_digit(ctx, a, callee):
        c = D(a[0])
        if is_sym(c):
            raise Unsupported('to_digit symbolic')
        ch = chr(c)
        try:
            d = int(ch, a[1])
            return some(d)
        except ValueError:
            return NONE

    @B('char::from_u32', 'core::char::from_u32', 'std::char::from_u32')
    def b_from_u32(ctx, a, callee):
        c = D(a[0])
        if is_sym(c):
            raise Unsupported('from_u32 symbolic')
        if c > 0x10ffff or 0xd800 <= c <= 0xdfff:
            return NONE
        return some(c)

    # ---------------------------------------------------------------- formatting
    @B('core::fmt::rt::Argument::new_display', 'core::fmt::rt::Argument::new_debug', 'core::fmt::rt::Argument::new_lower_hex',
       'core::fmt::rt::Argument::new_upper_hex', 'core::fmt::rt::Argument::new_lower_exp', 'core::fmt::rt::Argument::new_pointer',
       'core::fmt::rt::Argument::new_octal', 'core::fmt::rt::Argument::new_binary')
    def b_fmt_arg(ctx, a, callee):
        m = re.search(r'::new_(\w+)::<(.*)>$', callee, re.S)
        kind = m.group(1) if m else 'display'
        ty = norm_type(m.group(2)) if m else ''
        return Agg('FmtArg', None, (a[0], kind, ty))

    @B('core::fmt::rt::Argument::from_usize')
    def b_fmt_arg_usize(ctx, a, callee):
        return Agg('FmtArg', None, (a[0], 'display', 'usize'))

    @B('Arguments::new', 'std::fmt::Arguments::new', 'core::fmt::Arguments::new')
    def b_arguments_new(ctx, a, callee):
        tmpl = D(a[0])
        tb = list(seq_items(tmpl))
        argv = seq_items(D(a[1]))
        return Agg('FmtArguments', None, (tuple(decode_template(tb, argv)),))

    @B('Arguments::from_str', 'Arguments::from_str_nonconst', 'std::fmt::Arguments::from_str', 'Arguments::new_const')
    def b_arguments_from_str(ctx, a, callee):
        v = D(a[0])
        if type(v) is VecV:      # new_const(&[&str])
            return Agg('FmtArguments', None, (tuple(D(x) for x in v.items),))
        return Agg('FmtArguments', None, ((v,),))

    @B('format', 'std::fmt::format', 'alloc::fmt::format', 'std::fmt::format::format_inner')
    def b_format(ctx, a, callee):
        return format_to_value(ctx, a[0])

    @B('std::fmt::Formatter::write_fmt', 'Formatter::write_fmt', 'std::fmt::write', 'core::fmt::write')
    def b_formatter_write_fmt(ctx, a, callee):
        f = a[0]
        f0 = D(f)
        if type(f0) is Agg and f0.ty == 'Formatter':
            render_arguments(ctx, D(a[1]), f0)
        else:
            write_to(ctx, f, format_to_value(ctx, a[1]))
        return ok(UNIT)

    @B('std::fmt::Formatter::write_str', 'Formatter::write_str', 'std::fmt::Formatter::pad', 'Formatter::pad', '<str as Display>::fmt', '<String as Display>::fmt',
       '<std::string::String as Display>::fmt', '<std::fmt::Formatter as std::fmt::Write>::write_str', '<Formatter as Write>::write_str')
    def b_formatter_write_str(ctx, a, callee):
        if callee.startswith('<s') or callee.startswith('<S'):
            fmt_push(a[1], D(a[0]))
        else:
            fmt_push(a[0], D(a[1]))
        return ok(UNIT)

    @B('std::fmt::Formatter::write_char', 'Formatter::write_char', '<std::fmt::Formatter as std::fmt::Write>::write_char')
    def b_formatter_write_char(ctx, a, callee):
        fmt_push(a[0], char_to_str(ctx, D(a[1])))
        return ok(UNIT)

    @B('re:^<(i64|u64|usize|u32|i32|u8|u16|isize|bool|f64|char) as (Display|Debug)>::fmt$')
    def b_prim_display(ctx, a, callee):
        m = re.match(r'^<&*(\w+) as (\w+)', callee)
        render_value(ctx, a[0], 'display' if m.group(2) == 'Display' or m.group(1) != 'char' else 'debug', m.group(1), a[1])
        return ok(UNIT)

    @B('re:^<.* as ToString>::to_string$')
    def b_to_string_any(ctx, a, callee):
        return b_generic_to_string(ctx, a, callee)

    @B('re:^<(Rc|Box|Cow) as (Display|Debug)>::fmt$')
    def b_wrap_display(ctx, a, callee):
        render_value(ctx, a[0], 'display' if ' as Display' in callee else 'debug', '', a[1])
        return ok(UNIT)

    @B('re:^(std::fmt::)?Formatter::debug_(tuple|struct)_field\\d_finish$', 're:^(std::fmt::)?Formatter::debug_(tuple|struct)_fields_finish$',
       're:^(std::fmt::)?Formatter::debug_(list|map|set|struct|tuple)$')
    def b_debug_finish(ctx, a, callee):
        fmt_push(a[0], ('debug', tuple(D(x) for x in a[1:])))
        return ok(UNIT)

    @B('re:^<.* as Debug>::fmt$')
    def b_any_debug(ctx, a, callee):
        fmt_push(a[1], ('debug', D(a[0])))
        return ok(UNIT)

    @B('<Arguments as Display>::fmt', '<std::fmt::Arguments as Display>::fmt')
    def b_arguments_display(ctx, a, callee):
        render_arguments(ctx, D(a[0]), a[1])
        return ok(UNIT)

    @B('Arguments::as_str', 'std::fmt::Arguments::as_str')
    def b_arguments_as_str(ctx, a, callee):
        p = D(a[0]).fields[0]
        if all(type(x) is str for x in p):
            return some(''.join(p))
        return NONE

    # panics / process
    @B('std::rt::panic_fmt', 'core::panicking::panic_fmt', 'std::rt::begin_panic', 'core::panicking::unreachable_display', 'core::panicking::panic_display')
    def b_panic_fmt(ctx, a, callee):
        try:
            msg = format_to_value(ctx, a[0]) if type(D(a[0])) is Agg else D(a[0])
        except Unsupported:
            msg = '<panic message>'
        raise Panic('explicit panic: %r' % (msg,), 'panic!')

    @B('core::panicking::panic', 'core::panicking::panic_nounwind', 'core::panicking::panic_explicit', 'std::process::abort',
       'core::option::unwrap_failed', 'core::result::unwrap_failed', 'core::option::expect_failed', 'core::panicking::panic_bounds_check',
       'core::panicking::assert_failed', 'core::str::slice_error_fail')
    def b_panic(ctx, a, callee):
        raise Panic('explicit panic: %r' % (D(a[0]) if a else callee,), 'panic!')

    @B('exit', 'std::process::exit')
    def b_exit(ctx, a, callee):
        ctx.event('exit', a[0])
        raise HarnessStop('exit', a[0])

    # ---------------------------------------------------------------- io::Write
    @B('re:^<(Sink|Vec|std::io::Cursor|Cursor|Stdout|Stderr|std::io::Stdout|std::io::Stderr|dyn std::io::Write|dyn Write|std::string::String|String|StdoutLock|StderrLock|std::fs::File|File|std::io::BufWriter|BufWriter|str) as (std::io::|std::fmt::)?Write>::write_fmt$')
    def b_write_fmt(ctx, a, callee):
        write_to(ctx, a[0], format_to_value(ctx, a[1]))
        return ok(UNIT)

    @B('re:^<(Sink|Vec|std::io::Cursor|Cursor|Stdout|Stderr|std::io::Stdout|std::io::Stderr|dyn std::io::Write|dyn Write|StdoutLock|StderrLock|std::fs::File|File|std::io::BufWriter|BufWriter) as (std::io::)?Write>::(write_all|write)$')
    def b_write_all(ctx, a, callee):
        v = D(a[1])
        write_to(ctx, a[0], mkstr(sbytes(v)))
        return ok(UNIT) if callee.endswith('write_all') else ok(len(sbytes(v)))

    @B('re:^<(Sink|std::string::String|String|Formatter|std::fmt::Formatter) as (std::fmt::)?Write>::write_str$')
    def b_fmt_write_str(ctx, a, callee):
        write_to(ctx, a[0], D(a[1]))
        return ok(UNIT)

    @B('re:^<(Sink|std::string::String|String|Formatter|std::fmt::Formatter) as (std::fmt::)?Write>::write_char$')
    def b_fmt_write_char(ctx, a, callee):
        write_to(ctx, a[0], char_to_str(ctx, D(a[1])))
        return ok(UNIT)

    @B('re:^<.* as (std::io::)?Write>::flush$')
    def b_flush(ctx, a, callee):
        return ok(UNIT)

    @B('std::io::_print', 'std::io::_eprint')
    def b_print(ctx, a, callee):
        ctx.event('stdout' if callee.endswith('_print') else 'stderr', format_to_value(ctx, a[0]))
        return UNIT

    @B('stdout', 'std::io::stdout', 'stderr', 'std::io::stderr')
    def b_stdout(ctx, a, callee):
        return Agg('Stdout' if callee.endswith('out') else 'Stderr', None, ())

    @B('std::io::Cursor::new', 'Cursor::new')
    def b_cursor_new(ctx, a, callee):
        return Agg('Cursor', None, (a[0],))

    @B('std::io::Cursor::set_position', 'Cursor::set_position')
    def b_cursor_set_position(ctx, a, callee):
        if a[1] != 0:
            raise Unsupported('Cursor::set_position to a non-zero offset')
        return UNIT

    @B('std::io::copy', 'copy')
    def b_io_copy(ctx, a, callee):
        src = D(a[0])
        if not (type(src) is Agg and src.ty == 'Cursor'):
            raise Unsupported('io::copy from %r' % (src,))
        data = D(src.fields[0])
        write_to(ctx, a[1], mkstr(sbytes(data)))
        return ok(len(sbytes(data)))

    @B('std::io::Cursor::into_inner', 'Cursor::into_inner', 'std::io::Cursor::get_ref', 'Cursor::get_ref')
    def b_cursor_inner(ctx, a, callee):
        return D(a[0]).fields[0]

    # ---------------------------------------------------------------- maps / sets
    @B('BTreeMap::new', 'HashMap::new', 'BTreeSet::new', 'HashSet::new', 'HashMap::with_capacity', 'HashSet::with_capacity',
       're:^<(BTreeMap|HashMap|BTreeSet|HashSet) as Default>::default$')
    def b_map_new(ctx, a, callee):
        m = re.search(r'(BTreeMap|HashMap|BTreeSet|HashSet)', callee)
        return MapV(m.group(1))

    @B('BTreeMap::insert', 'HashMap::insert')
    def b_map_insert(ctx, a, callee):
        m = R(a[0]).load()
        k = map_key(a[1], ctx, m)
        old = m.get(k)
        had = m.has(k)
        R(a[0]).store(m.insert(k, a[2]))
        return some(old) if had else NONE

    @B('BTreeSet::insert', 'HashSet::insert')
    def b_set_insert(ctx, a, callee):
        m = R(a[0]).load()
        k = map_key(a[1], ctx, m)
        had = m.has(k)
        R(a[0]).store(m.insert(k, UNIT))
        return not had

    @B('BTreeMap::get', 'HashMap::get', 'BTreeSet::get', 'HashSet::get')
    def b_map_get(ctx, a, callee):
        m = D(a[0])
        k = D(a[1])
        if is_sym(k) or type(k) is SymStr or any(type(kk) is SymStr for kk, _ in m.items):
            # symbolic key: fork over the entries
            for kk, v in m.items:
                if ctx.branch(sym_eq(ctx, kk, k)):
                    return some(v if not m.kind.endswith('Set') else kk)
            return NONE
        if m.has(k):
            return some(m.get(k) if not m.kind.endswith('Set') else k)
        return NONE

    @B('BTreeMap::get_mut', 'HashMap::get_mut')
    def b_map_get_mut(ctx, a, callee):
        r = a[0]
        while type(r.load()) is Ref:
            r = r.load()
        m = r.load()
        k = map_key(a[1], ctx, m)
        if not m.has(k):
            return NONE
        return some(MapRef(r, k, m))

    class MapSlot:
        """root container of a reference to a map value: reads and writes go through to the map (which is itself an
        immutable value behind `mref`)"""
        __slots__ = ('mref', 'mkey')

        def __init__(self, mref, k):
            self.mref = mref
            self.mkey = k

        def __getitem__(self, i):
            return self.mref.load().get(self.mkey)

        def __setitem__(self, i, v):
            self.mref.store(self.mref.load().insert(self.mkey, v))

    def MapRef(mref, k, m=None, path=()):
        return Ref(MapSlot(mref, k), 0, path)

    @B('BTreeMap::contains_key', 'HashMap::contains_key', 'BTreeSet::contains', 'HashSet::contains')
    def b_map_contains(ctx, a, callee):
        m = D(a[0])
        k = D(a[1])
        if is_sym(k) or type(k) is SymStr or any(type(kk) is SymStr for kk, _ in m.items):
            for kk, _ in m.items:
                if ctx.branch(sym_eq(ctx, kk, k)):
                    return True
            return False
        return m.has(k)

    @B('BTreeMap::remove', 'HashMap::remove')
    def b_map_remove(ctx, a, callee):
        m = R(a[0]).load()
        k = map_key(a[1], ctx, m)
        if not m.has(k):
            return NONE
        R(a[0]).store(m.remove(k))
        return some(m.get(k))

    @B('BTreeSet::remove', 'HashSet::remove')
    def b_set_remove(ctx, a, callee):
        m = R(a[0]).load()
        k = map_key(a[1], ctx, m)
        had = m.has(k)
        R(a[0]).store(m.remove(k))
        return had

    @B('BTreeMap::len', 'HashMap::len', 'BTreeSet::len', 'HashSet::len')
    def b_map_len(ctx, a, callee):
        return len(D(a[0]).items)

    @B('BTreeMap::is_empty', 'HashMap::is_empty', 'BTreeSet::is_empty', 'HashSet::is_empty')
    def b_map_is_empty(ctx, a, callee):
        return len(D(a[0]).items) == 0

    @B('BTreeMap::clear', 'HashMap::clear', 'HashSet::clear', 'BTreeSet::clear')
    def b_map_clear(ctx, a, callee):
        R(a[0]).store(MapV(R(a[0]).load().kind))
        return UNIT

    @B('BTreeMap::append')
    def b_map_append(ctx, a, callee):
        m = R(a[0]).load()
        o = R(a[1]).load()
        for k, v in o.items:
            m = m.insert(k, v)
        R(a[0]).store(m)
        R(a[1]).store(MapV(o.kind))
        return UNIT

    @B('re:^<(BTreeMap|HashMap|BTreeSet|HashSet) as Extend>::extend$')
    def b_map_extend(ctx, a, callee):
        m = R(a[0]).load()
        for x in it_drain(ctx, as_it(ctx, a[1])):
            x = D(x)
            if m.kind.endswith('Set'):
                m = m.insert(map_key(x), UNIT)
            else:
                m = m.insert(map_key(x.fields[0]), x.fields[1])
        R(a[0]).store(m)
        return UNIT

    @B('re:^<(BTreeMap|HashMap|BTreeSet|HashSet) as From>::from$')
    def b_map_from(ctx, a, callee):
        kind = re.match(r'^<&*(\w+)', callee).group(1)
        m = MapV(kind)
        for x in seq_items(D(a[0])):
            x = D(x)
            if kind.endswith('Set'):
                m = m.insert(map_key(x), UNIT)
            else:
                m = m.insert(map_key(x.fields[0]), x.fields[1])
        return m

    @B('BTreeMap::entry', 'HashMap::entry')
    def b_map_entry(ctx, a, callee):
        r = a[0]
        while type(r.load()) is Ref:
            r = r.load()
        m = r.load()
        k = map_key(a[1])
        # std: btree_map::Entry { Vacant, Occupied } but hash_map::Entry { Occupied, Vacant }
        occ_idx = 1 if m.kind == 'BTreeMap' else 0
        if m.has(k):
            return Agg('Entry', occ_idx, (Agg('OccupiedEntry', None, (r, k)),))
        return Agg('Entry', 1 - occ_idx, (Agg('VacantEntry', None, (r, k)),))

    @B('re:^(std::collections::(btree_map|hash_map)::)?(Entry)::(or_insert|or_insert_with|or_default)$')
    def b_entry_or_insert(ctx, a, callee):
        e = D(a[0])
        r, k = e.fields[0].fields
        m = r.load()
        if not m.has(k):
            if callee.endswith('or_insert'):
                v = a[1]
            elif callee.endswith('or_insert_with'):
                v = ctx.call_value(a[1], [])
            else:
                mm = re.search(r'Entry::<.*, (.*)>::or_default$', callee, re.S)
                t = norm_type(mm.group(1)).split('::')[-1] if mm else 'Vec'
                v = VecV() if t == 'Vec' else (MapV(t) if t in ('BTreeMap', 'HashMap', 'BTreeSet', 'HashSet') else (0 if ty_bits(t) else ''))
            m = m.insert(k, v)
            r.store(m)
        return MapRef(r, k, m)

    @B('re:^(std::collections::(btree_map|hash_map)::)?OccupiedEntry::(get|into_mut|get_mut)$')
    def b_occupied_get(ctx, a, callee):
        r, k = D(a[0]).fields
        if callee.endswith('::get'):
            return r.load().get(k)
        return MapRef(r, k, r.load())

    @B('re:^(std::collections::(btree_map|hash_map)::)?OccupiedEntry::insert$')
    def b_occupied_insert(ctx, a, callee):
        r, k = D(a[0]).fields
        m = r.load()
        old = m.get(k)
        r.store(m.insert(k, a[1]))
        return old

    @B('re:^(std::collections::(btree_map|hash_map)::)?VacantEntry::insert$')
    def b_vacant_insert(ctx, a, callee):
        r, k = D(a[0]).fields
        m = r.load().insert(k, a[1])
        r.store(m)
        return MapRef(r, k, m)

    @B('re:^(std::collections::(btree_map|hash_map)::)?(OccupiedEntry|VacantEntry|Entry)::key$')
    def b_entry_key(ctx, a, callee):
        e = D(a[0])
        if e.ty == 'Entry':
            e = e.fields[0]
        return e.fields[1]

    @B('BTreeMap::first_key_value', 'BTreeMap::last_key_value')
    def b_first_kv(ctx, a, callee):
        m = D(a[0])
        if not m.items:
            return NONE
        k, v = m.items[0 if 'first' in callee else -1]
        return some(tup(k, v))

    # ---------------------------------------------------------------- lazy statics
    @B('LazyLock::new', 'std::sync::LazyLock::new', 'OnceCell::new', 'std::cell::OnceCell::new')
    def b_lazy_new(ctx, a, callee):
        return Agg('Lazy', None, (CellV(None), a[0] if a else None))

    @B('<LazyLock as Deref>::deref', '<std::sync::LazyLock as Deref>::deref', 'LazyLock::force', 'std::sync::LazyLock::force')
    def b_lazy_force(ctx, a, callee):
        l = D(a[0])
        if type(l) is CellV:
            l = l.slot[0]
        c = l.fields[0]
        if c.slot[0] is None:
            c.slot[0] = (ctx.call_value(l.fields[1], []),)
        return c.slot[0][0]
