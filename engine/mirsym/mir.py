"""MIR text loader: rustc `-Zunpretty=mir` output -> Func objects with pre-parsed statements.

Nothing here knows about ucg; it parses whatever the compiler printed for the working tree.
Bodies are parsed lazily (on first execution) so that loading 9 MB of MIR costs ~1 s.
"""
import re


class MirParseError(Exception):
    pass


def hash_lines(header, lines):
    import hashlib
    h = hashlib.blake2b(digest_size=12)
    h.update(header.encode())
    for l in lines:
        h.update(l.encode())
    return h.hexdigest()


class Func:
    __slots__ = ('name', 'header', 'lines', 'blocks', 'nargs', 'types', 'nlocals', 'parsed', 'crate',
                 'impl_at', 'kind', 'compiled', 'span_file', 'src_hash')

    def __init__(self, name, header, lines, crate, kind='fn'):
        self.name = name
        self.header = header
        self.lines = lines
        self.crate = crate
        self.kind = kind
        self.blocks = None
        self.nargs = 0
        self.types = {}
        self.nlocals = 0
        self.parsed = False
        self.compiled = None
        self.src_hash = hash_lines(header, lines)
        m = re.search(r'<impl at ([^:]+):(\d+):(\d+): (\d+):(\d+)>', name)
        self.impl_at = (m.group(1), int(m.group(2)), int(m.group(3)), int(m.group(4)), int(m.group(5))) if m else None

    def __repr__(self):
        return '<Func %s>' % self.name


# ---------------------------------------------------------------- text helpers
def split_top(s, sep=','):
    """split on `sep` at nesting depth 0; aware of string/char literals and generics."""
    out = []
    depth = 0
    cur = []
    i = 0
    n = len(s)
    while i < n:
        c = s[i]
        if c == '"':
            j = i + 1
            while s[j] != '"':
                j += 2 if s[j] == '\\' else 1
            cur.append(s[i:j + 1])
            i = j + 1
            continue
        if c == "'":
            m = _CHAR_RE.match(s, i)
            if m:
                cur.append(m.group(0))
                i = m.end()
                continue
        if c in '([{':
            depth += 1
        elif c in ')]}':
            depth -= 1
        elif c == '<':
            if i + 1 < n and s[i + 1] not in ' =<' and (i == 0 or s[i - 1] != ' ' or s[i + 1].isalpha() or s[i + 1] in "'&([*_"):
                depth += 1
        elif c == '>':
            if i > 0 and s[i - 1] not in '-=' and depth > 0 and not (i + 1 < n and s[i + 1] == '='):
                # only count as a closing angle if it is not a comparison (MIR has no infix comparisons)
                depth -= 1
        if c == sep and depth == 0:
            out.append(''.join(cur).strip())
            cur = []
        else:
            cur.append(c)
        i += 1
    t = ''.join(cur).strip()
    if t:
        out.append(t)
    return out


_CHAR_RE = re.compile(r"'(\\u\{[0-9a-fA-F]+\}|\\x[0-9a-fA-F]{2}|\\.|[^\\'])'")


def balanced(s):
    d = 0
    for c in s:
        if c in '([':
            d += 1
        elif c in ')]':
            d -= 1
            if d < 0:
                return False
    return d == 0


def strip_generics(path):
    """remove every <...> group (turbofish or type args) from a path string"""
    out = []
    d = 0
    i = 0
    n = len(path)
    while i < n:
        c = path[i]
        if c == '<':
            d += 1
        elif c == '>' and (i == 0 or path[i - 1] != '-'):
            d -= 1
        elif d == 0:
            out.append(c)
        i += 1
    s = ''.join(out)
    return s.replace('::::', '::').rstrip(':')


# ---------------------------------------------------------------- places
def parse_place(s):
    """-> (local, projections) ; projections: ('deref',) ('field', n) ('downcast', name) ('index', local)
    ('cindex', n, from_end) ('subslice', a, b, from_end)"""
    s = s.strip()
    r = _PLACE_CACHE.get(s)
    if r is None:
        r = _parse_place(s)
        _PLACE_CACHE[s] = r
    return r


_PLACE_CACHE = {}
_LOCAL_RE = re.compile(r'_(\d+)$')


def _parse_place(s):
    m = _LOCAL_RE.match(s)
    if m:
        return (int(m.group(1)), ())
    m = re.fullmatch(r'(.+)\[(_\d+)\]', s)
    if m and balanced(m.group(1)):
        l, p = parse_place(m.group(1))
        return (l, p + (('index', int(m.group(2)[1:])),))
    m = re.fullmatch(r'(.+)\[(-?)(\d+) of (\d+)\]', s)
    if m and balanced(m.group(1)):
        l, p = parse_place(m.group(1))
        return (l, p + (('cindex', int(m.group(3)), m.group(2) == '-'),))
    m = re.fullmatch(r'(.+)\[(\d+):(-?)(\d*)\]', s)
    if m and balanced(m.group(1)):
        l, p = parse_place(m.group(1))
        return (l, p + (('subslice', int(m.group(2)), int(m.group(4) or 0), m.group(3) == '-'),))
    if s.startswith('(*') and s.endswith(')') and balanced(s[2:-1]):
        l, p = parse_place(s[2:-1])
        return (l, p + (('deref',),))
    if s.startswith('(') and s.endswith(')'):
        inner = s[1:-1]
        # field projection: <place>.N: <type>
        depth = 0
        for i, c in enumerate(inner):
            if c in '([':
                depth += 1
            elif c in ')]':
                depth -= 1
            elif c == '.' and depth == 0:
                mm = re.match(r'\.(\d+): (.*)$', inner[i:], re.S)
                if mm:
                    l, p = parse_place(inner[:i])
                    ty = mm.group(2)
                    if ty.startswith(('std::ptr::Unique<', 'std::ptr::NonNull<', 'std::mem::ManuallyDrop<', 'std::mem::MaybeDangling<')):
                        return (l, p)          # Box / MaybeUninit internals: transparent
                    pre = inner[:i]
                    if pre.startswith('(') and re.search(r': std::mem::(ManuallyDrop|MaybeDangling|MaybeUninit)<', pre) and _outer_type(pre).startswith(('std::mem::ManuallyDrop<', 'std::mem::MaybeDangling<')):
                        return (l, p)          # field of a transparent wrapper
                    return (l, p + (('field', int(mm.group(1)), ty),))
                break
        m = re.fullmatch(r'(.+) as (\w+)', inner, re.S)
        if m and balanced(m.group(1)):
            l, p = parse_place(m.group(1))
            return (l, p + (('downcast', m.group(2)),))
    raise MirParseError('place? ' + s)


def _outer_type(place):
    """declared type of a parenthesised field place `(<p>.N: T)` -> T"""
    inner = place[1:-1]
    depth = 0
    for i, c in enumerate(inner):
        if c in '([':
            depth += 1
        elif c in ')]':
            depth -= 1
        elif c == '.' and depth == 0:
            mm = re.match(r'\.(\d+): (.*)$', inner[i:], re.S)
            if mm:
                return mm.group(2)
    return ''


# ---------------------------------------------------------------- statements
SKIP_PREFIXES = ('StorageLive', 'StorageDead', 'PlaceMention', 'FakeRead', 'nop', 'Retag', 'AscribeUserType',
                 'Coverage', 'ConstEvalCounter', 'BackwardIncompatibleDropHint', 'Deinit')
_CALL_RE = re.compile(r'(?:(.+?) = )?(.+\)) -> (?:\[return: bb(\d+), unwind[^\]]*\]|unwind [^;]*|bb(\d+));$', re.S)
_DIVERGE_RE = re.compile(r'(?:(.+?) = )?(.+\)) -> unwind [^;]*;$', re.S)


def split_call(ca):
    """`callee(args)` -> (callee, argstr). The argument list starts at the first '(' outside <...> and {closure@...}."""
    ang = 0
    i = 0
    n = len(ca)
    while i < n:
        c = ca[i]
        if c == '<':
            ang += 1
        elif c == '>' and ca[i - 1] != '-':
            ang -= 1
        elif c == '(' and ang == 0:
            break
        elif c == '{' and ca.startswith('{closure@', i):
            i = ca.index('}', i)
        i += 1
    return ca[:i].strip(), ca[i + 1:-1]


def parse_stmt(l):
    """one MIR statement/terminator line (without trailing newline) -> tuple"""
    if l.startswith('goto -> bb'):
        return ('goto', int(l[10:-1]))
    if l == 'return;':
        return ('return',)
    if l.startswith('unreachable'):
        return ('unreachable',)
    if l.startswith('resume') or l.startswith('terminate') or l.startswith('abort'):
        return ('resume',)
    if l.startswith('drop('):
        m = re.search(r'return: bb(\d+)', l)
        return ('goto', int(m.group(1)))
    if l.startswith(SKIP_PREFIXES):
        return None
    if l.startswith('switchInt('):
        m = re.fullmatch(r'switchInt\((.+)\) -> \[(.+)\];', l, re.S)
        targets = []
        other = None
        for t in split_top(m.group(2)):
            k, b = t.split(': bb')
            if k == 'otherwise':
                other = int(b)
            else:
                targets.append((int(k), int(b)))
        return ('switch', m.group(1).strip(), tuple(targets), other)
    if l.startswith('assert('):
        m = re.fullmatch(r'assert\((!?)(.+?), (".*?")(.*)\) -> \[success: bb(\d+), unwind[^\]]*\];', l, re.S)
        if not m:
            raise MirParseError('assert? ' + l)
        return ('assert', m.group(2).strip(), m.group(1) == '!', m.group(3), int(m.group(5)))
    if l.startswith('falseEdge') or l.startswith('falseUnwind'):
        m = re.search(r'real: bb(\d+)', l)
        return ('goto', int(m.group(1)))
    if l.startswith('discriminant(') and ') = ' in l:
        m = re.fullmatch(r'discriminant\((.+)\) = (\d+);', l)
        return ('setdiscr', m.group(1), int(m.group(2)))
    if ' -> ' in l and l.endswith(';'):
        m = _CALL_RE.fullmatch(l)
        if m:
            callee, argstr = split_call(m.group(2))
            nb = m.group(3) if m.group(3) is not None else m.group(4)
            return ('call', m.group(1), callee, tuple(split_top(argstr)), int(nb) if nb is not None else None)
    m = re.fullmatch(r'(.+?) = (.+);', l, re.S)
    if m:
        return ('assign', m.group(1), m.group(2))
    raise MirParseError('stmt? ' + l)


_HDR_ARG_RE = re.compile(r'_(\d+): ')


def parse_body(f):
    """fill f.blocks: {bb: [stmt tuples]} (cleanup blocks skipped), f.types, f.nargs, f.nlocals"""
    if f.parsed:
        return
    hdr = f.header
    # args: `fn name(_1: T, _2: U) -> R {`
    if f.kind == 'fn':
        p = hdr.index('(', len('fn ') + len(f.name)) if hdr.startswith('fn ' + f.name) else hdr.index('(')
        # find matching close
        d = 0
        j = p
        while True:
            c = hdr[j]
            if c == '(':
                d += 1
            elif c == ')':
                d -= 1
                if d == 0:
                    break
            j += 1
        argstr = hdr[p + 1:j]
        for a in split_top(argstr):
            m = re.match(r'_(\d+): (.*)$', a, re.S)
            if m:
                k = int(m.group(1))
                f.types[k] = m.group(2).strip()
                f.nargs = max(f.nargs, k)
        m = re.search(r'\) -> (.*) \{$', hdr, re.S)
        if m:
            f.types[0] = m.group(1)
    blocks = {}
    cur = None
    maxl = f.nargs
    skip = False
    for raw in f.lines:
        l = raw.strip()
        if not l or l == '}':
            continue
        m = re.match(r'bb(\d+)( \(cleanup\))?: \{$', l)
        if m:
            skip = m.group(2) is not None
            cur = []
            if not skip:
                blocks[int(m.group(1))] = cur
            continue
        if cur is None:
            mm = re.match(r'let (?:mut )?_(\d+): (.+);$', l, re.S)
            if mm:
                k = int(mm.group(1))
                f.types[k] = mm.group(2)
                if k > maxl:
                    maxl = k
            continue
        if skip:
            continue
        st = parse_stmt(l)
        if st is not None:
            cur.append(st)
    f.blocks = blocks
    f.nlocals = maxl + 1
    f.parsed = True
    f.lines = None


def load_mir(path, crate, funcs=None, consts=None):
    """-> (funcs: name -> Func (first definition wins), consts: name -> Func(kind const/static/promoted))"""
    funcs = {} if funcs is None else funcs
    consts = {} if consts is None else consts
    text = open(path).read()
    lines = text.split('\n')
    i = 0
    n = len(lines)
    last_fn = None
    local_consts = {}
    while i < n:
        line = lines[i]
        kind = None
        if line.startswith('fn '):
            kind = 'fn'
        elif line.startswith('const ') or line.startswith('static '):
            kind = 'const'
        if kind == 'const' and line.rstrip().endswith(';'):
            m = re.match(r'.* = (.+);$', line.rstrip())
            if m:
                nm = _const_name(line)
                f = Func(nm, line, ['    bb0: {', '        _0 = %s;' % m.group(1), '        return;', '    }'], crate, 'const')
                consts.setdefault(nm, f)
            i += 1
            continue
        if kind:
            # header may span several lines until one ends with '{'
            hdr = line
            j = i
            while not hdr.rstrip().endswith('{'):
                j += 1
                hdr += ' ' + lines[j].strip()
            body = []
            j += 1
            # statements may span lines (rare: string consts with newlines are escaped, so no)
            while lines[j] != '}':
                body.append(lines[j])
                j += 1
            if kind == 'fn':
                name = _fn_name(hdr)
                f = Func(name, hdr, _join_multiline(body), crate, 'fn')
                funcs.setdefault(name, f)
                if '{closure#' not in name:
                    last_fn = name
            else:
                name = _const_name(hdr)
                f = Func(name, hdr, _join_multiline(body), crate, 'const')
                consts.setdefault(name, f)
                if last_fn and re.fullmatch(r'[A-Z][A-Z0-9_]*', name):
                    # a const item declared inside a function is printed after it under its bare name, but referenced by its path
                    f2 = Func(last_fn + '::' + name, hdr, _join_multiline(body), crate, 'const')
                    consts.setdefault(f2.name, f2)
                    local_consts[name] = f2.name
                m2 = re.fullmatch(r'([A-Z][A-Z0-9_]*)(::promoted\[\d+\])', name)
                if m2 and m2.group(1) in local_consts:
                    consts.setdefault(local_consts[m2.group(1)] + m2.group(2), f)
            i = j
        i += 1
    return funcs, consts


def _const_name(hdr):
    s = re.sub(r'^(const|static(?: mut)?) ', '', hdr)
    ang = 0
    for k, c in enumerate(s):
        if c == '<':
            ang += 1
        elif c == '>' and s[k - 1] != '-':
            ang -= 1
        elif c == ':' and ang == 0 and s[k + 1:k + 2] == ' ':
            return s[:k]
    return s


def _fn_name(hdr):
    # `fn <name>(_1: ...` ; name may contain '(' only inside <impl at ...> / {closure#n} — no parens there.
    s = hdr[3:]
    ang = 0
    for k, c in enumerate(s):
        if c == '<':
            ang += 1
        elif c == '>' and s[k - 1] != '-':
            ang -= 1
        elif c == '(' and ang == 0:
            return s[:k]
    return s


def _join_multiline(body):
    """a statement ends with ';' or '{' or '}' ; join physical lines that do not."""
    out = []
    acc = None
    for l in body:
        t = l.strip()
        if acc is not None:
            acc += ' ' + t
            if t.endswith(';'):
                out.append(acc)
                acc = None
            continue
        if not t or t.endswith((';', '{', '}')) or t.startswith(('debug ', 'scope ', 'let ')) and t.endswith(';'):
            out.append(l)
        elif t.startswith(('//',)):
            continue
        else:
            acc = l
    if acc is not None:
        out.append(acc)
    return out
