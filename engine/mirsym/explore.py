"""Path exploration by re-execution, sharded over worker processes.

A *harness* is a Python callable `h(ctx, case)`, executed once per path. It builds its (symbolic) inputs, calls real
functions through ctx.call(...), checks its assertions with ctx.valid()/ctx.model() and returns a JSON-able record.
Uncaught engine exceptions become the path outcome (`panic`, `unsupported`, `bound`, `infeasible`)."""
import os
import sys
import time
import threading
import traceback
import multiprocessing as mp

from .interp import Ctx, Panic, Unsupported, BoundHit, Infeasible, HarnessStop

_G = {}


def _run_one(prog, harness, case, prefix, fuel):
    ctx = Ctx(prog, prefix, fuel=fuel)
    rec = {'case': case, 'prefix_len': len(prefix)}
    t0 = time.time()
    try:
        out = harness(ctx, case)
        rec['outcome'] = 'done'
        if out:
            rec.update(out)
    except Panic as p:
        rec['outcome'] = 'panic'
        rec['detail'] = p.msg[:300]
        rec['where'] = (p.where or '') + ' | ' + ctx.where()
    except Unsupported as u:
        rec['outcome'] = 'unsupported'
        rec['detail'] = str(u)[:500]
        rec['where'] = ctx.where()
    except BoundHit as b:
        rec['outcome'] = 'bound'
        rec['detail'] = str(b)
        rec['where'] = ctx.where()
    except Infeasible:
        rec['outcome'] = 'infeasible'
    except HarnessStop as h:
        rec['outcome'] = 'stop'
        rec['detail'] = h.what
    except RecursionError:
        rec['outcome'] = 'bound'
        rec['detail'] = 'python recursion limit'
    except Exception as e:      # engine bug: never counts as "held"
        rec['outcome'] = 'engine_error'
        rec['detail'] = '%s: %s' % (type(e).__name__, str(e)[:300])
        rec['trace'] = traceback.format_exc(limit=-6)[-1500:]
        rec['where'] = ctx.where()
    rec['steps'] = ctx.steps
    rec['queries'] = ctx.queries
    rec['solver_s'] = round(ctx.solver_time, 4)
    rec['wall_s'] = round(time.time() - t0, 4)
    rec['decisions'] = list(ctx.decisions)
    rec['_funcs'] = sorted(ctx.funcs_touched)
    rec['_builtins'] = dict(ctx.builtins_used)
    return rec, ctx.new_work


def _worker_task(arg):
    case, prefix, fuel, max_paths, max_secs = arg
    prog = _G['prog']
    harness = _G['harness']
    out = []
    res = {}

    def body():
        work = [prefix]
        t0 = time.time()
        n = 0
        while work and n < max_paths and time.time() - t0 < max_secs:
            # breadth-first while the frontier is small, so that a batch hands many open siblings back to the pool (a pure
            # depth-first walk keeps the frontier at the depth of the tree and starves the other workers); depth-first beyond
            p = work.pop(0) if len(work) < 512 else work.pop()
            rec, new = _run_one(prog, harness, case, p, fuel)
            out.append(rec)
            work.extend(new)
            n += 1
        res['left'] = work
        # keep the records slim: the per-path lists of touched functions / builtin counts are merged into the batch's first record
        # (aggregate() only ever sums them), and the decision lists are dropped for uneventful paths
        if len(out) > 1:
            funcs = set()
            bi = {}
            for r in out:
                funcs.update(r.pop('_funcs', ()))
                for k, v in r.pop('_builtins', {}).items():
                    bi[k] = bi.get(k, 0) + v
                if r.get('outcome') == 'done' and not r.get('violations'):
                    r.pop('decisions', None)
            out[0]['_funcs'] = sorted(funcs)
            out[0]['_builtins'] = bi

    th = threading.Thread(target=body)
    th.start()
    th.join()
    return case, out, res.get('left', [])


def _init_worker():
    sys.setrecursionlimit(400000)
    threading.stack_size(1024 * 1024 * 1024)


def explore(prog, harness, cases, nproc=None, fuel=5_000_000, max_paths=200000, deadline_s=None, batch_paths=40,
            batch_secs=5.0, progress=None):
    """cases: list of JSON-able case descriptors (each is explored from the empty prefix).
    -> (records, leftover_count)"""
    nproc = nproc or min(16, os.cpu_count() or 1)
    _G['prog'] = prog
    _G['harness'] = harness
    records = []
    t0 = time.time()
    pending = [(c, []) for c in cases]
    pending.reverse()
    leftover = 0
    if nproc == 1:
        _init_worker()
        while pending:
            if deadline_s and time.time() - t0 > deadline_s or len(records) >= max_paths:
                leftover = len(pending)
                break
            c, p = pending.pop()
            _, out, left = _worker_task((c, p, fuel, batch_paths, batch_secs))
            records.extend(out)
            pending.extend((c, q) for q in left)
        return records, leftover
    ctxm = mp.get_context('fork')
    from concurrent.futures import ProcessPoolExecutor
    from concurrent.futures.process import BrokenProcessPool

    def isolated(arg):
        """run one batch in a process of its own: a worker that dies (native stack overflow, OOM kill) is reported as an engine
        error for exactly that work item instead of taking the pool down"""
        parent, child = ctxm.Pipe(False)

        def run(conn, a):
            _init_worker()
            conn.send(_worker_task(a))
            conn.close()
        pr = ctxm.Process(target=run, args=(child, arg))
        pr.start()
        child.close()
        try:
            res = parent.recv()
        except EOFError:
            res = None
        pr.join()
        if res is None:
            c, pfx = arg[0], arg[1]
            return c, [{'case': c, 'prefix_len': len(pfx), 'outcome': 'engine_error', 'detail': 'worker process died (exit code %s)' % pr.exitcode,
                        'where': '', 'steps': 0, 'queries': 0, 'solver_s': 0.0, 'wall_s': 0.0, 'decisions': list(pfx)}], []
        return res

    pool = ProcessPoolExecutor(nproc, mp_context=ctxm, initializer=_init_worker)
    try:
        inflight = []      # (future, arg)
        while pending or inflight:
            stop = (deadline_s and time.time() - t0 > deadline_s) or len(records) >= max_paths
            while pending and len(inflight) < nproc * 2 and not stop:
                c, p = pending.pop()
                arg = (c, p, fuel, batch_paths, batch_secs)
                inflight.append((pool.submit(_worker_task, arg), arg))
            if stop and not inflight:
                leftover = len(pending)
                break
            done = [x for x in inflight if x[0].done()]
            if not done:
                time.sleep(0.01)
                continue
            broken = False
            for x in done:
                inflight.remove(x)
                try:
                    c, out, left = x[0].result()
                except BrokenProcessPool:
                    broken = True
                    inflight.append(x)
                    continue
                records.extend(out)
                pending.extend((c, q) for q in left)
            if broken:
                # a worker died: every in-flight item is lost. Re-run each of them in isolation, then go on with a new pool.
                lost = [x[1] for x in inflight]
                inflight = []
                pool.shutdown(wait=False, cancel_futures=True)
                for arg in lost:
                    c, out, left = isolated(arg)
                    records.extend(out)
                    pending.extend((c, q) for q in left)
                pool = ProcessPoolExecutor(nproc, mp_context=ctxm, initializer=_init_worker)
            if progress:
                progress(len(records), len(pending) + len(inflight))
    finally:
        pool.shutdown(wait=False, cancel_futures=True)
    return records, leftover


def aggregate(records):
    """counts for the evidence file"""
    agg = {'paths': len(records), 'steps': 0, 'queries': 0, 'solver_s': 0.0, 'outcomes': {}, 'funcs': set(), 'builtins': {}}
    for r in records:
        agg['steps'] += r.get('steps', 0)
        agg['queries'] += r.get('queries', 0)
        agg['solver_s'] += r.get('solver_s', 0.0)
        agg['outcomes'][r['outcome']] = agg['outcomes'].get(r['outcome'], 0) + 1
        agg['funcs'].update(r.get('_funcs', ()))
        for k, v in r.get('_builtins', {}).items():
            agg['builtins'][k] = agg['builtins'].get(k, 0) + v
    agg['funcs'] = sorted(agg['funcs'])
    agg['solver_s'] = round(agg['solver_s'], 3)
    return agg
