"""Builtins, part 1: abstract-datatype semantics for core/alloc items on checked paths
(Option, Result, Box, Rc, Clone, Vec, slices, iterators, integer helpers). Each is a few lines written against the
documented contract of the std function. `a` = raw argument values (may be Ref), `callee` = the MIR call-site text."""
import re
import z3

from .interp import (Panic, Unsupported, resolve, invoke, exec_func, binop, to_bv, to_bool, ty_bits, wrap, overflow_flag,
                     norm_type, parse_callee, type_tag)
from .vals import inner_ref as R
from .vals import (Agg, VecV, MapV, SymStr, CellV, Ref, FnPtr, Opaque, PathV, FmtV, UNIT, NONE, some, ok, err, tup, is_sym,
                   seq_items, rebuild_seq, deref_all as D)


def is_none(v):
    return v.variant == 0


def opt_val(v):
    return v.fields[0]


def sym_eq(ctx, x, y):
    """structural equality of two values -> python bool or z3 Bool"""
    x = D(x)
    y = D(y)
    tx = type(x)
    ty_ = type(y)
    if is_sym(x) or is_sym(y):
        if (is_sym(x) and z3.is_bool(x)) or (is_sym(y) and z3.is_bool(y)):
            return to_bool(x) == to_bool(y)
        if (is_sym(x) and z3.is_fp(x)) or (is_sym(y) and z3.is_fp(y)):
            return binop('Eq', x, y, None, True)
        w = x.size() if is_sym(x) else y.size()
        return to_bv(x, w) == to_bv(y, w)
    if tx in (str, SymStr, bytes) and ty_ in (str, SymStr, bytes):
        if tx is str and ty_ is str:
            return x == y
        bx = seq_items(x)
        by = seq_items(y)
        if len(bx) != len(by):
            return False
        cs = []
        for p, q in zip(bx, by):
            e = sym_eq(ctx, p, q)
            if e is False:
                return False
            if e is not True:
                cs.append(e)
        return z3.And(*cs) if cs else True
    if tx is VecV and ty_ is VecV:
        if len(x.items) != len(y.items):
            return False
        cs = []
        for p, q in zip(x.items, y.items):
            e = sym_eq(ctx, p, q)
            if e is False:
                return False
            if e is not True:
                cs.append(e)
        return z3.And(*cs) if cs else True
    if tx is Agg and ty_ is Agg:
        if is_sym(x.variant) or is_sym(y.variant):
            if x.fields or y.fields:
                raise Unsupported('eq on symbolic-variant aggregate with fields')
            vx = x.variant if is_sym(x.variant) else z3.BitVecVal(x.variant, y.variant.size())
            vy = y.variant if is_sym(y.variant) else z3.BitVecVal(y.variant, x.variant.size())
            return vx == vy
        if x.variant != y.variant or len(x.fields) != len(y.fields):
            return False
        cs = []
        for p, q in zip(x.fields, y.fields):
            e = sym_eq(ctx, p, q)
            if e is False:
                return False
            if e is not True:
                cs.append(e)
        return z3.And(*cs) if cs else True
    if tx is MapV and ty_ is MapV:
        if len(x.items) != len(y.items):
            return False
        cs = []
        for (k1, v1), (k2, v2) in zip(x.items, y.items):
            for e in (sym_eq(ctx, k1, k2), sym_eq(ctx, v1, v2)):
                if e is False:
                    return False
                if e is not True:
                    cs.append(e)
        return z3.And(*cs) if cs else True
    if tx is float or ty_ is float:
        return float(x) == float(y)
    return x == y


def znot(b):
    return z3.Not(b) if is_sym(b) else (not b)


def call_mir_eq(ctx, x, y):
    """PartialEq::eq for values that may have a hand-written impl in the MIR"""
    x0 = D(x)
    if type(x0) is Agg and '::' in x0.ty:
        tgt = resolve(ctx.prog, '<%s as PartialEq>::eq' % x0.ty)
        if tgt[0] == 'mir':
            return exec_func(ctx, tgt[1], [x, y])
    return sym_eq(ctx, x, y)


# ------------------------------------------------------------------ iterators (lazy, immutable state)
def it_seq(items, i=0, j=None):
    return Agg('It:seq', None, (tuple(items), i, len(items) if j is None else j))


def it_of(ctx, v):
    """IntoIterator::into_iter for our value representations"""
    r = v
    v = D(v)
    t = type(v)
    if t is Agg and v.ty.startswith('It:'):
        return v
    if t is VecV:
        if type(r) is Ref:
            # iteration through &mut: yield references into the container
            return it_seq([r.extend(('i', k)) for k in range(len(v.items))])
        return it_seq(v.items)
    if t is MapV:
        if v.kind.endswith('Set'):
            return it_seq([k for k, _ in v.items])
        return it_seq([tup(k, x) for k, x in v.items])
    if t is Agg and v.ty == 'Option':
        return it_seq([] if v.variant == 0 else [v.fields[0]])
    if t is Agg and v.ty == 'Result':
        return it_seq([v.fields[0]] if v.variant == 0 else [])      # Result as IntoIterator: the Ok value, or nothing
    if t is Agg and v.ty in ('Range', 'std::ops::Range', 'core::ops::Range'):
        a, b = v.fields
        if is_sym(a) or is_sym(b):
            return Agg('It:range', None, (a, b, None))       # lazily unrolled; every step is a (forking) comparison
        return it_seq(list(range(a, b)))
    if t is Agg and v.ty in ('RangeInclusive', 'std::ops::RangeInclusive', 'core::ops::RangeInclusive'):
        a, b = v.fields[0], v.fields[1]
        if is_sym(a) or is_sym(b):
            raise Unsupported('iteration over a symbolic inclusive range')
        return it_seq(list(range(a, b + 1)))
    if t in (bytes,):
        return it_seq(list(v))
    if t in (str, SymStr) or t is FmtV:
        raise Unsupported('into_iter on a string value')
    raise Unsupported('into_iter on %r' % (v,))


def it_next(ctx, it):
    """-> (Option value, new iterator state)"""
    k = it.ty
    f = it.fields
    if k == 'It:seq':
        items, i, j = f
        if i < j:
            return some(items[i]), Agg(k, None, (items, i + 1, j))
        return NONE, it
    if k == 'It:range':
        cur, end, signed = f
        w = cur.size() if is_sym(cur) else end.size()
        lt = binop('Lt', cur, end, w, signed is not False)
        if ctx.branch(lt):
            nxt = binop('Add', cur, 1, w, signed is not False)
            if is_sym(nxt):
                nxt = z3.simplify(nxt)
            return some(cur), Agg(k, None, (nxt, end, signed))
        return NONE, it
    if k == 'It:map':
        o, inner = it_next(ctx, f[0])
        if is_none(o):
            return NONE, Agg(k, None, (inner, f[1]))
        return some(ctx.call_value(f[1], [opt_val(o)])), Agg(k, None, (inner, f[1]))
    if k == 'It:filter':
        inner = f[0]
        while True:
            o, inner = it_next(ctx, inner)
            if is_none(o):
                return NONE, Agg(k, None, (inner, f[1]))
            if ctx.branch(ctx.call_value(f[1], [opt_val(o)])):
                return o, Agg(k, None, (inner, f[1]))
    if k == 'It:filter_map':
        inner = f[0]
        while True:
            o, inner = it_next(ctx, inner)
            if is_none(o):
                return NONE, Agg(k, None, (inner, f[1]))
            r = ctx.call_value(f[1], [opt_val(o)])
            if not is_none(r):
                return r, Agg(k, None, (inner, f[1]))
    if k == 'It:enumerate':
        o, inner = it_next(ctx, f[0])
        if is_none(o):
            return NONE, Agg(k, None, (inner, f[1]))
        return some(tup(f[1], opt_val(o))), Agg(k, None, (inner, f[1] + 1))
    if k == 'It:zip':
        o1, i1 = it_next(ctx, f[0])
        if is_none(o1):
            return NONE, Agg(k, None, (i1, f[1]))
        o2, i2 = it_next(ctx, f[1])
        if is_none(o2):
            return NONE, Agg(k, None, (i1, i2))
        return some(tup(opt_val(o1), opt_val(o2))), Agg(k, None, (i1, i2))
    if k == 'It:chain':
        o, i1 = it_next(ctx, f[0])
        if not is_none(o):
            return o, Agg(k, None, (i1, f[1]))
        o, i2 = it_next(ctx, f[1])
        return o, Agg(k, None, (i1, i2))
    if k == 'It:repeat':
        return some(f[0]), it
    if k == 'It:take':
        if is_sym(f[1]):
            # symbolic count (usize): the inner iterator is finite, so fork on "count exhausted" at each element
            if ctx.branch(f[1] == 0):
                return NONE, it
            o, inner = it_next(ctx, f[0])
            return o, Agg(k, None, (inner, f[1] - 1))
        if f[1] <= 0:
            return NONE, it
        o, inner = it_next(ctx, f[0])
        return o, Agg(k, None, (inner, f[1] - 1))
    if k == 'It:skip':
        inner = f[0]
        n = f[1]
        while n > 0:
            o, inner = it_next(ctx, inner)
            n -= 1
            if is_none(o):
                return NONE, Agg(k, None, (inner, 0))
        o, inner = it_next(ctx, inner)
        return o, Agg(k, None, (inner, 0))
    if k == 'It:peekable':
        if f[1] is not None:
            return f[1], Agg(k, None, (f[0], None))
        o, inner = it_next(ctx, f[0])
        return o, Agg(k, None, (inner, None))
    if k == 'It:rev':
        items, i, j = f[0].fields
        if i < j:
            return some(items[j - 1]), Agg(k, None, (Agg('It:seq', None, (items, i, j - 1)),))
        return NONE, it
    if k == 'It:flat':
        cur, inner, fn = f
        while True:
            if cur is not None:
                o, cur2 = it_next(ctx, cur)
                if not is_none(o):
                    return o, Agg(k, None, (cur2, inner, fn))
            o, inner = it_next(ctx, inner)
            if is_none(o):
                return NONE, Agg(k, None, (None, inner, fn))
            x = opt_val(o)
            if fn is not None:
                x = ctx.call_value(fn, [x])
            cur = it_of(ctx, x)
    raise Unsupported('iterator kind ' + k)


def it_drain(ctx, it):
    out = []
    while True:
        o, it = it_next(ctx, it)
        if is_none(o):
            return out
        out.append(opt_val(o))


def as_it(ctx, v):
    v0 = D(v)
    if type(v0) is Agg and v0.ty.startswith('It:'):
        return v0
    return it_of(ctx, v)


def store_it(a0, it):
    if type(a0) is Ref:
        r = a0
        while True:
            inner = r.load()
            if type(inner) is Ref:
                r = inner
            else:
                break
        r.store(it)


def collect_into(ctx, items, callee):
    m = re.search(r'::collect::<(.*)>$', callee, re.S)
    target = m.group(1) if m else ''
    tn = norm_type(target) if target else ''
    last = tn.split('::')[-1]
    if last in ('Result', 'Option') and target:
        # Result<Vec<T>, E> : stop at first Err
        inner_m = re.match(r'^[\w:]*(?:Result|Option)<(.*)>$', target.strip(), re.S)
        inner = inner_m.group(1) if inner_m else 'Vec<_>'
        from .mir import split_top
        inner_t = split_top(inner)[0]
        vals = []
        for x in items:
            x = D(x)
            if last == 'Result':
                if x.variant == 1:
                    return x
                vals.append(x.fields[0])
            else:
                if x.variant == 0:
                    return NONE
                vals.append(x.fields[0])
        c = collect_into(ctx, vals, '::collect::<%s>' % inner_t)
        return ok(c) if last == 'Result' else some(c)
    if last in ('BTreeMap', 'HashMap'):
        mv = MapV(last)
        for x in items:
            x = D(x)
            mv = mv.insert(map_key(x.fields[0]), x.fields[1])
        return mv
    if last in ('BTreeSet', 'HashSet'):
        mv = MapV(last)
        for x in items:
            mv = mv.insert(map_key(x), UNIT)
        return mv
    if last == 'String':
        from .bi_str import concat_strs
        return concat_strs(ctx, items)
    return VecV(items)


def map_key(k, ctx=None, m=None):
    """canonical key object for a map operation. Strings with symbolic bytes are admitted as keys when the caller passes the path
    context and the map: equality with every stored key is decided (forking where the path condition leaves it open); the stored key
    object is returned when equal, the new key itself when it differs from all of them. (The iteration order of an *ordered* map
    that holds such a key is not modelled: iterating it raises Unsupported.)"""
    k = D(k)
    if is_sym(k):
        raise Unsupported('symbolic map key')
    if ctx is not None and m is not None and (type(k) is SymStr or any(type(kk) is SymStr for kk, _ in m.items)):
        for kk, _ in m.items:
            if type(kk) is not SymStr and type(k) is not SymStr:
                if kk == k:
                    return kk
                continue
            e = sym_eq(ctx, kk, k)
            if e is True or (e is not False and ctx.branch(e)):
                return kk
        return k
    if type(k) is SymStr:
        raise Unsupported('symbolic string as map key')
    return k


def install(prog):
    B = prog.builtin

    # ---------------------------------------------------------------- identity-like
    @B('Box::new', 'Rc::new', 'Arc::new', 'must_use', 're:^<.* as (Deref|DerefMut|AsRef|AsMut|Borrow|BorrowMut)>::(deref|deref_mut|as_ref|as_mut|borrow|borrow_mut)$',
       'Box::leak', 'Rc::as_ref', 'black_box', 'std::hint::black_box',
       'Vec::as_slice', 'Vec::as_mut_slice', 'String::as_str', 'std::string::String::as_str', 'String::as_mut_str', 'PathBuf::as_path',
       'std::mem::drop', 'drop', 'Vec::into_boxed_slice', 'core::slice::into_vec', 'Rc::try_unwrap_or_clone', 'Rc::unwrap_or_clone',
       'Vec::shrink_to_fit', 'Vec::reserve', 'String::reserve', 'core::slice::as_ref', 'Option::as_deref', 'Option::as_deref_mut',
       'Option::as_ref', 'std::result::Result::as_ref', 'Result::as_ref', 'Vec::leak')
    def b_id(ctx, a, callee):
        if 'AsRef<' in callee and re.search(r'AsRef<(std::path::)?Path>', callee) and a:
            v = D(a[0])
            if type(v) in (str, SymStr):
                return prog.to_path(v)      # &str / String viewed as a Path
        return a[0] if a else UNIT

    @B('Option::as_mut', 'Option::as_deref_mut', 'Result::as_mut')
    def b_as_mut(ctx, a, callee):
        # Option<&mut T>: a reference *into* the payload, so that `if let Some(x) = o.as_mut() { *x += 1 }` writes through
        if type(a[0]) is not Ref:
            return a[0]
        r = R(a[0])
        v = D(r.load())
        if callee.startswith('Option'):
            return some(r.extend(('f', 0))) if v.variant == 1 else NONE
        return Agg('Result', v.variant, (r.extend(('f', 0)),))

    @B('re:^<.* as Clone>::clone$', 'Option::cloned', 'Option::copied', 'core::slice::to_vec', 'slice::to_vec', 'str::to_owned', '<str as ToOwned>::to_owned',
       '<[] as ToOwned>::to_owned', 'Rc::clone')
    def b_clone(ctx, a, callee):
        v = D(a[0])
        if type(v) is CellV:
            return CellV(v.slot[0])      # RefCell::clone copies the content
        if type(v) is Agg and v.ty == 'Option' and v.variant == 1 and type(v.fields[0]) is Ref:
            return some(D(v.fields[0]))
        return v

    @B('Box::new_uninit', 'Rc::new_uninit')
    def b_new_uninit(ctx, a, callee):
        return Ref(CellV(None).slot, 0, ())

    @B('std::boxed::box_assume_init_into_vec_unsafe', 'Box::assume_init', 'Box::write')
    def b_assume_init(ctx, a, callee):
        if callee.endswith('write'):
            R(a[0]).store(a[1])
        return D(a[0])

    @B('re:^<.* as Drop>::drop$')
    def b_unit(ctx, a, callee):
        return UNIT

    # ---------------------------------------------------------------- Option / Result
    @B('Option::unwrap', 'std::result::Result::unwrap', 'Result::unwrap', 'Option::expect', 'std::result::Result::expect', 'Result::expect')
    def b_unwrap(ctx, a, callee):
        v = D(a[0])
        if v.ty == 'Option':
            if v.variant == 0:
                raise Panic('called `Option::unwrap()` on a `None` value' if len(a) == 1 else str(a[1]))
            return v.fields[0]
        if v.variant == 1:
            raise Panic('called `Result::unwrap()` on an `Err` value: %r' % (v.fields[0],))
        return v.fields[0]

    @B('std::result::Result::unwrap_err', 'Result::unwrap_err')
    def b_unwrap_err(ctx, a, callee):
        v = D(a[0])
        if v.variant == 0:
            raise Panic('called `Result::unwrap_err()` on an `Ok` value')
        return v.fields[0]

    @B('Option::unwrap_or', 'std::result::Result::unwrap_or', 'Result::unwrap_or')
    def b_unwrap_or(ctx, a, callee):
        v = D(a[0])
        good = v.variant == (1 if v.ty == 'Option' else 0)
        return v.fields[0] if good else a[1]

    @B('Option::unwrap_or_else', 'std::result::Result::unwrap_or_else', 'Result::unwrap_or_else')
    def b_unwrap_or_else(ctx, a, callee):
        v = D(a[0])
        if v.ty == 'Option':
            return v.fields[0] if v.variant == 1 else ctx.call_value(a[1], [])
        return v.fields[0] if v.variant == 0 else ctx.call_value(a[1], [v.fields[0]])

    @B('Option::unwrap_or_default')
    def b_unwrap_or_default(ctx, a, callee):
        v = D(a[0])
        if v.variant == 1:
            return v.fields[0]
        m = re.match(r'Option::<(.*)>::unwrap_or_default$', callee, re.S)
        t = norm_type(m.group(1)) if m else ''
        if t in ('String', 'std::string::String', 'str'):
            return ''
        if t.split('::')[-1] == 'Vec':
            return VecV()
        if ty_bits(t):
            return 0
        if t == 'bool':
            return False
        raise Unsupported('unwrap_or_default for ' + t)

    @B('Option::is_some')
    def b_is_some(ctx, a, callee):
        return D(a[0]).variant == 1

    @B('Option::is_none')
    def b_is_none(ctx, a, callee):
        return D(a[0]).variant == 0

    @B('std::result::Result::is_ok', 'Result::is_ok')
    def b_is_ok(ctx, a, callee):
        return D(a[0]).variant == 0

    @B('std::result::Result::is_err', 'Result::is_err')
    def b_is_err(ctx, a, callee):
        return D(a[0]).variant == 1

    @B('Option::map')
    def b_opt_map(ctx, a, callee):
        v = D(a[0])
        if v.variant == 0:
            return NONE
        return some(ctx.call_value(a[1], [v.fields[0]]))

    @B('Option::and_then')
    def b_opt_and_then(ctx, a, callee):
        v = D(a[0])
        if v.variant == 0:
            return NONE
        return ctx.call_value(a[1], [v.fields[0]])

    @B('Option::or_else')
    def b_opt_or_else(ctx, a, callee):
        v = D(a[0])
        return v if v.variant == 1 else ctx.call_value(a[1], [])

    @B('Option::or')
    def b_opt_or(ctx, a, callee):
        v = D(a[0])
        return v if v.variant == 1 else a[1]

    @B('Option::filter')
    def b_opt_filter(ctx, a, callee):
        v = D(a[0])
        if v.variant == 0:
            return NONE
        return v if ctx.branch(ctx.call_value(a[1], [v.fields[0]])) else NONE

    @B('Option::is_none_or')
    def b_is_none_or(ctx, a, callee):
        v = D(a[0])
        if v.variant == 0:
            return True
        return ctx.call_value(a[1], [v.fields[0]])

    @B('Option::is_some_and')
    def b_is_some_and(ctx, a, callee):
        v = D(a[0])
        if v.variant == 0:
            return False
        return ctx.call_value(a[1], [v.fields[0]])

    @B('Option::map_or')
    def b_map_or(ctx, a, callee):
        v = D(a[0])
        if v.variant == 0:
            return a[1]
        return ctx.call_value(a[2], [v.fields[0]])

    @B('Option::ok_or')
    def b_ok_or(ctx, a, callee):
        v = D(a[0])
        return ok(v.fields[0]) if v.variant == 1 else err(a[1])

    @B('Option::ok_or_else')
    def b_ok_or_else(ctx, a, callee):
        v = D(a[0])
        return ok(v.fields[0]) if v.variant == 1 else err(ctx.call_value(a[1], []))

    @B('Option::take')
    def b_opt_take(ctx, a, callee):
        v = R(a[0]).load()
        R(a[0]).store(NONE)
        return v

    @B('Option::replace')
    def b_opt_replace(ctx, a, callee):
        v = R(a[0]).load()
        R(a[0]).store(some(a[1]))
        return v

    @B('Option::insert', 'Option::get_or_insert')
    def b_opt_insert(ctx, a, callee):
        v = R(a[0]).load()
        if callee.endswith('get_or_insert') and v.variant == 1:
            return R(a[0]).extend(('f', 0))
        R(a[0]).store(some(a[1]))
        return R(a[0]).extend(('f', 0))

    @B('std::result::Result::ok', 'Result::ok')
    def b_res_ok(ctx, a, callee):
        v = D(a[0])
        return some(v.fields[0]) if v.variant == 0 else NONE

    @B('std::result::Result::err', 'Result::err')
    def b_res_err(ctx, a, callee):
        v = D(a[0])
        return some(v.fields[0]) if v.variant == 1 else NONE

    @B('std::result::Result::map', 'Result::map')
    def b_res_map(ctx, a, callee):
        v = D(a[0])
        return ok(ctx.call_value(a[1], [v.fields[0]])) if v.variant == 0 else v

    @B('std::result::Result::map_err', 'Result::map_err')
    def b_res_map_err(ctx, a, callee):
        v = D(a[0])
        return err(ctx.call_value(a[1], [v.fields[0]])) if v.variant == 1 else v

    @B('std::result::Result::and_then', 'Result::and_then')
    def b_res_and_then(ctx, a, callee):
        v = D(a[0])
        return ctx.call_value(a[1], [v.fields[0]]) if v.variant == 0 else v

    @B('std::result::Result::or_else', 'Result::or_else')
    def b_res_or_else(ctx, a, callee):
        v = D(a[0])
        return ctx.call_value(a[1], [v.fields[0]]) if v.variant == 1 else v

    @B('re:^<(std::result::)?Result as Try>::branch$')
    def b_res_branch(ctx, a, callee):
        v = D(a[0])
        if v.variant == 0:
            return Agg('ControlFlow', 0, (v.fields[0],))
        return Agg('ControlFlow', 1, (v,))

    @B('re:^<(std::result::)?Result as FromResidual>::from_residual$')
    def b_res_from_residual(ctx, a, callee):
        v = D(a[0])
        e = v.fields[0]
        # `?` converts the error with From; honour a hand-written impl when the two error types differ
        m = re.match(r'^<(?:std::result::)?Result<(.*)> as FromResidual<(?:std::result::)?Result<(?:std::convert::)?Infallible, (.*)>>>::from_residual$', callee, re.S)
        if m:
            from .mir import split_top
            parts = split_top(m.group(1))
            if len(parts) == 2:
                F = parts[1].strip()
                E = m.group(2).strip()
                if norm_type(F) != norm_type(E):
                    tgt = resolve(ctx.prog, '<%s as From<%s>>::from' % (F, E))
                    if tgt[0] == 'mir':
                        e = exec_func(ctx, tgt[1], [e])
        return err(e)

    @B('<Option as Try>::branch')
    def b_opt_branch(ctx, a, callee):
        v = D(a[0])
        if v.variant == 1:
            return Agg('ControlFlow', 0, (v.fields[0],))
        return Agg('ControlFlow', 1, (NONE,))

    @B('<Option as FromResidual>::from_residual')
    def b_opt_from_residual(ctx, a, callee):
        return NONE

    # ---------------------------------------------------------------- equality / ordering on primitives & std containers
    @B('re:^<(str|String|std::string::String|u8|u16|u32|u64|usize|i8|i16|i32|i64|isize|bool|char|f64|\\(\\)|\\[\\]|Vec|Option|Rc|Box|PathBuf|Path|BTreeMap|std::result::Result|Result) as PartialEq>::eq$')
    def b_eq(ctx, a, callee):
        x = D(a[0])
        if type(x) is Agg and '::' in x.ty:
            return call_mir_eq(ctx, a[0], a[1])
        if type(x) in (VecV,) or (type(x) is Agg and x.ty in ('Option', 'tuple', 'Result')):
            return deep_eq(ctx, a[0], a[1])
        return sym_eq(ctx, a[0], a[1])

    def deep_eq(ctx, x, y):
        """equality that defers to hand-written PartialEq impls of element types"""
        x = D(x)
        y = D(y)
        if type(x) is VecV and type(y) is VecV:
            if len(x.items) != len(y.items):
                return False
            cs = []
            for p, q in zip(x.items, y.items):
                e = deep_eq(ctx, p, q)
                if e is False:
                    return False
                if e is not True:
                    cs.append(e)
            return z3.And(*cs) if cs else True
        if type(x) is Agg and type(y) is Agg and x.ty in ('Option', 'tuple', 'Result') and x.ty == y.ty:
            if x.variant != y.variant or len(x.fields) != len(y.fields):
                return False
            cs = []
            for p, q in zip(x.fields, y.fields):
                e = deep_eq(ctx, p, q)
                if e is False:
                    return False
                if e is not True:
                    cs.append(e)
            return z3.And(*cs) if cs else True
        if type(x) is Agg and '::' in x.ty:
            return call_mir_eq(ctx, x, y)
        return sym_eq(ctx, x, y)

    @B('re:^<(str|String|std::string::String|u8|u16|u32|u64|usize|i8|i16|i32|i64|isize|bool|char|f64|\\(\\)|\\[\\]|Vec|Option|Rc|Box|PathBuf|Path|BTreeMap|std::result::Result|Result) as PartialEq>::ne$')
    def b_ne(ctx, a, callee):
        return znot(b_eq(ctx, a, callee))

    def cmp_vals(ctx, x, y, signed=False):
        x = D(x)
        y = D(y)
        if is_sym(x) or is_sym(y):
            lt = binop('Lt', x, y, None, signed)
            eq = binop('Eq', x, y, None, signed)
            k = ctx.decide([to_bool(lt), to_bool(eq), z3.And(z3.Not(to_bool(lt)), z3.Not(to_bool(eq)))])
            return (-1, 0, 1)[k]
        if type(x) is str and type(y) is str:
            bx = x.encode()
            by = y.encode()
            return -1 if bx < by else (0 if bx == by else 1)
        if type(x) in (str, SymStr) and type(y) in (str, SymStr):
            bx = seq_items(x)
            by = seq_items(y)
            for p, q in zip(bx, by):
                c = cmp_vals(ctx, p, q)
                if c:
                    return c
            return -1 if len(bx) < len(by) else (0 if len(bx) == len(by) else 1)
        if type(x) is Agg and type(y) is Agg:
            if x.variant != y.variant and x.variant is not None:
                return -1 if x.variant < y.variant else 1
            for p, q in zip(x.fields, y.fields):
                c = cmp_vals(ctx, p, q, signed)
                if c:
                    return c
            return 0
        if type(x) is VecV:
            for p, q in zip(x.items, y.items):
                c = cmp_vals(ctx, p, q, signed)
                if c:
                    return c
            return -1 if len(x.items) < len(y.items) else (0 if len(x.items) == len(y.items) else 1)
        return -1 if x < y else (0 if x == y else 1)

    @B('re:^<(str|String|std::string::String|u8|u16|u32|u64|usize|i8|i16|i32|i64|isize|bool|char|Option|Vec|\\(\\)) as Ord>::cmp$')
    def b_cmp(ctx, a, callee):
        signed = bool(re.match(r'^<&*i', callee))
        return Agg('Ordering', cmp_vals(ctx, a[0], a[1], signed), ())

    @B('re:^<(str|String|std::string::String|u8|u16|u32|u64|usize|i8|i16|i32|i64|isize|bool|char|Option|Vec|\\(\\)) as PartialOrd>::partial_cmp$')
    def b_partial_cmp(ctx, a, callee):
        signed = bool(re.match(r'^<&*i', callee))
        return some(Agg('Ordering', cmp_vals(ctx, a[0], a[1], signed), ()))

    @B('re:^<(u8|u16|u32|u64|usize|i8|i16|i32|i64|isize|char|f64) as PartialOrd>::(lt|le|gt|ge)$')
    def b_ord_op(ctx, a, callee):
        op = {'lt': 'Lt', 'le': 'Le', 'gt': 'Gt', 'ge': 'Ge'}[callee.rsplit('::', 1)[1]]
        signed = bool(re.match(r'^<&*(i|f)', callee))
        return binop(op, D(a[0]), D(a[1]), None, signed)

    @B('re:^<f64 as PartialOrd>::partial_cmp$')
    def b_f64_partial_cmp(ctx, a, callee):
        x = D(a[0])
        y = D(a[1])
        lt = binop('Lt', x, y, None, True)
        eq = binop('Eq', x, y, None, True)
        gt = binop('Gt', x, y, None, True)
        if is_sym(lt) or is_sym(eq) or is_sym(gt):
            k = ctx.decide([to_bool(lt), to_bool(eq), to_bool(gt), z3.Not(z3.Or(to_bool(lt), to_bool(eq), to_bool(gt)))])
        else:
            k = 0 if lt else (1 if eq else (2 if gt else 3))
        if k == 3:
            return NONE
        return some(Agg('Ordering', (-1, 0, 1)[k], ()))

    @B('re:^(core|std)::f64::(<impl f64>::)?(is_finite|is_nan|is_infinite|is_sign_negative|is_sign_positive|abs|floor|ceil|trunc|round|fract)$', 're:^f64::(is_finite|is_nan|is_infinite|is_sign_negative|is_sign_positive|abs|floor|ceil|trunc|round|fract)$')
    def b_f64_methods(ctx, a, callee):
        import math
        k = callee.rsplit('::', 1)[1]
        x = D(a[0])
        if is_sym(x):
            if k == 'is_finite':
                return z3.Not(z3.Or(z3.fpIsNaN(x), z3.fpIsInf(x)))
            if k == 'is_nan':
                return z3.fpIsNaN(x)
            if k == 'is_infinite':
                return z3.fpIsInf(x)
            if k == 'is_sign_negative':
                return z3.fpIsNegative(x)
            if k == 'is_sign_positive':
                return z3.fpIsPositive(x)
            if k == 'abs':
                return z3.fpAbs(x)
            rm = {'floor': z3.RTN(), 'ceil': z3.RTP(), 'trunc': z3.RTZ(), 'round': z3.RNA()}.get(k)
            if rm is not None:
                return z3.fpRoundToIntegral(rm, x)
            raise Unsupported('f64::%s on a symbolic float' % k)
        x = float(x)
        if k == 'is_finite':
            return math.isfinite(x)
        if k == 'is_nan':
            return math.isnan(x)
        if k == 'is_infinite':
            return math.isinf(x)
        if k == 'is_sign_negative':
            return math.copysign(1.0, x) < 0
        if k == 'is_sign_positive':
            return math.copysign(1.0, x) > 0
        if k == 'abs':
            return abs(x)
        if not math.isfinite(x):
            return x
        if k == 'floor':
            return float(math.floor(x))
        if k == 'ceil':
            return float(math.ceil(x))
        if k == 'trunc':
            return float(math.trunc(x))
        if k == 'round':
            return float(math.floor(abs(x) + 0.5)) * (1.0 if x >= 0 else -1.0)
        return x - float(math.trunc(x))

    @B('re:^<(u8|u16|u32|u64|usize|i8|i16|i32|i64|isize|u128|i128) as Default>::default$')
    def b_default_int(ctx, a, callee):
        return 0

    @B('<bool as Default>::default')
    def b_default_bool(ctx, a, callee):
        return False

    @B('<f64 as Default>::default')
    def b_default_f64(ctx, a, callee):
        return 0.0

    @B('re:^<(String|std::string::String|&str|str) as Default>::default$')
    def b_default_string(ctx, a, callee):
        return ''

    @B('re:^<(Option|std::option::Option) as Default>::default$')
    def b_default_option(ctx, a, callee):
        return NONE

    @B('re:^<(Vec|std::vec::Vec) as Default>::default$')
    def b_default_vec(ctx, a, callee):
        return VecV(())

    @B('re:^<&?bool as Not>::not$')
    def b_not(ctx, a, callee):
        return znot(D(a[0]))

    @B('re:^<.* as Hash>::hash$')
    def b_hash(ctx, a, callee):
        return UNIT

    @B('std::cmp::Ordering::is_lt', 'std::cmp::Ordering::is_gt', 'std::cmp::Ordering::is_eq', 'std::cmp::Ordering::is_le', 'std::cmp::Ordering::is_ge', 'std::cmp::Ordering::is_ne')
    def b_ordering_is(ctx, a, callee):
        v = D(a[0]).variant
        k = callee.rsplit('_', 1)[1]
        return {'lt': v < 0, 'gt': v > 0, 'eq': v == 0, 'le': v <= 0, 'ge': v >= 0, 'ne': v != 0}[k]

    # ---------------------------------------------------------------- integer helpers
    def int_info(callee):
        m = re.match(r'^(?:core::num::<impl )?(\w+)', callee.replace('core::num::<impl ', ''))
        t = m.group(1) if m else 'i64'
        return ty_bits(t) or (64, True)

    @B('re:^core::num::(checked_add|checked_sub|checked_mul)$')
    def b_checked(ctx, a, callee):
        bits, signed = int_info(callee)
        op = {'add': 'Add', 'sub': 'Sub', 'mul': 'Mul'}[callee.rsplit('_', 1)[1].split('>')[0]]
        x = D(a[0])
        y = D(a[1])
        ov = overflow_flag(op, x, y, bits, signed)
        if ctx.branch(ov):
            return NONE
        return some(binop(op, x, y, bits, signed))

    @B('re:^core::num::(checked_div|checked_rem)$')
    def b_checked_div(ctx, a, callee):
        bits, signed = int_info(callee)
        op = 'Div' if callee.endswith('div') else 'Rem'
        x = D(a[0])
        y = D(a[1])
        if ctx.branch(binop('Eq', y, 0, bits, signed)):
            return NONE
        if signed and ctx.branch(to_bool_and(binop('Eq', x, -(1 << (bits - 1)), bits, True), binop('Eq', y, -1, bits, True))):
            return NONE
        return some(binop(op, x, y, bits, signed))

    def to_bool_and(p, q):
        if not is_sym(p) and not is_sym(q):
            return p and q
        return z3.And(to_bool(p), to_bool(q))

    @B('re:^core::num::(wrapping_add|wrapping_sub|wrapping_mul)$')
    def b_wrapping(ctx, a, callee):
        bits, signed = int_info(callee)
        op = {'add': 'Add', 'sub': 'Sub', 'mul': 'Mul'}[callee.rsplit('_', 1)[1]]
        return binop(op, D(a[0]), D(a[1]), bits, signed)

    @B('re:^core::num::(saturating_sub|saturating_add)$')
    def b_saturating(ctx, a, callee):
        bits, signed = int_info(callee)
        op = 'Sub' if callee.endswith('sub') else 'Add'
        x = D(a[0])
        y = D(a[1])
        ov = overflow_flag(op, x, y, bits, signed)
        if ctx.branch(ov):
            if not signed:
                return 0 if op == 'Sub' else (1 << bits) - 1
            neg = ctx.branch(binop('Lt', y, 0, bits, True))
            hi = (1 << (bits - 1)) - 1
            lo = -(1 << (bits - 1))
            return (hi if neg else lo) if op == 'Sub' else (lo if neg else hi)
        return binop(op, x, y, bits, signed)

    @B('re:^core::num::(abs|unsigned_abs)$')
    def b_abs(ctx, a, callee):
        x = D(a[0])
        bits, signed = int_info(callee)
        if callee.endswith('unsigned_abs'):
            if is_sym(x):
                return z3.If(x < 0, -x, x)
            return abs(x)
        # `abs` of the minimum value overflows: a panic in the dev profile modelled here
        if ctx.branch(to_bool(binop('Eq', x, -(1 << (bits - 1)), bits, True))):
            raise Panic('attempt to negate with overflow', ctx.where())
        if is_sym(x):
            return z3.If(x < 0, -x, x)
        return abs(x)

    @B('re:^<(u8|u16|u32|u64|usize|i8|i16|i32|i64|isize) as (Add|Sub|Mul|Div|Rem)>::(add|sub|mul|div|rem)$')
    def b_int_arith(ctx, a, callee):
        """`<&i64 as Add<&i64>>::add` — std's impl carries rustc_inherit_overflow_checks: with the dev profile modelled
        here (overflow-checks=on) it panics on overflow exactly as the native dev build does."""
        m = re.match(r'^<&*(\w+) as (\w+)', callee)
        bits, signed = ty_bits(m.group(1))
        op = m.group(2)
        x = D(a[0])
        y = D(a[1])
        if op in ('Add', 'Sub', 'Mul'):
            ov = overflow_flag(op, x, y, bits, signed)
            if ctx.branch(ov):
                raise Panic('attempt to %s with overflow' % {'Add': 'add', 'Sub': 'subtract', 'Mul': 'multiply'}[op], 'arith')
        else:
            if ctx.branch(binop('Eq', y, 0, bits, signed)):
                raise Panic('attempt to divide by zero' if op == 'Div' else 'attempt to calculate the remainder with a divisor of zero', 'arith')
            if signed and ctx.branch(to_bool_and(binop('Eq', x, -(1 << (bits - 1)), bits, True), binop('Eq', y, -1, bits, True))):
                raise Panic('attempt to %s with overflow' % ('divide' if op == 'Div' else 'calculate the remainder'), 'arith')
        return binop(op, x, y, bits, signed)

    @B('re:^<f64 as (Add|Sub|Mul|Div|Rem)>::(add|sub|mul|div|rem)$')
    def b_f64_arith(ctx, a, callee):
        m = re.match(r'^<&*f64 as (\w+)', callee)
        return binop(m.group(1), D(a[0]), D(a[1]), None, True)

    @B('re:^<(i8|i16|i32|i64|isize|f64) as Neg>::neg$')
    def b_neg(ctx, a, callee):
        x = D(a[0])
        if is_sym(x) and z3.is_fp(x):
            return z3.fpNeg(x)
        if callee.startswith('<f64') or callee.startswith('<&f64'):
            return -x
        m = re.match(r'^<&*(\w+) as', callee)
        bits, _ = ty_bits(m.group(1))
        if ctx.branch(binop('Eq', x, -(1 << (bits - 1)), bits, True)):
            raise Panic('attempt to negate with overflow', 'arith')
        return -x

    @B('std::cmp::max', 'std::cmp::min', 'core::cmp::max', 'core::cmp::min', 're:^<(u8|u16|u32|u64|usize|i8|i16|i32|i64|isize) as Ord>::(max|min)$')
    def b_maxmin(ctx, a, callee):
        x = D(a[0])
        y = D(a[1])
        signed = not re.search(r'<u|usize', callee)
        c = binop('Le' if 'max' in callee.rsplit('::', 1)[1] else 'Ge', x, y, None, signed)
        return a[1] if ctx.branch(c) else a[0]

    # ---------------------------------------------------------------- mem
    @B('std::mem::take', 'core::mem::take')
    def b_mem_take(ctx, a, callee):
        v = R(a[0]).load()
        t = type(v)
        if t is VecV:
            d = VecV()
        elif t in (str, SymStr, FmtV):
            d = ''
        elif t is MapV:
            d = MapV(v.kind)
        elif t is Agg and v.ty == 'Option':
            d = NONE
        elif t is int:
            d = 0
        elif t is bool:
            d = False
        else:
            d = None
            m = re.search(r'take::<(.*)>$', callee, re.S)
            if m:
                tgt = resolve(ctx.prog, '<%s as Default>::default' % m.group(1))
                if tgt[0] == 'mir':
                    d = exec_func(ctx, tgt[1], [])
            if d is None:
                raise Unsupported('mem::take of %r' % (v,))
        R(a[0]).store(d)
        return v

    @B('std::mem::replace', 'core::mem::replace')
    def b_mem_replace(ctx, a, callee):
        v = R(a[0]).load()
        R(a[0]).store(a[1])
        return v

    @B('std::mem::swap', 'core::mem::swap')
    def b_mem_swap(ctx, a, callee):
        x = R(a[0]).load()
        y = R(a[1]).load()
        R(a[0]).store(y)
        R(a[1]).store(x)
        return UNIT

    # ---------------------------------------------------------------- RefCell / Cell
    @B('RefCell::new', 'Cell::new', 'std::sync::Mutex::new', 'Mutex::new')
    def b_cell_new(ctx, a, callee):
        return CellV(a[0])

    @B('RefCell::borrow_mut', 'RefCell::borrow', 'RefCell::try_borrow_mut', 'RefCell::as_ptr', 'RefCell::get_mut')
    def b_cell_borrow(ctx, a, callee):
        c = D(a[0])
        if type(c) is not CellV:
            raise Unsupported('borrow on non-cell %r' % (c,))
        return Ref(c.slot, 0, ())

    @B('re:^<(Ref|RefMut|std::cell::Ref|std::cell::RefMut) as (Deref|DerefMut)>::(deref|deref_mut)$')
    def b_guard_deref(ctx, a, callee):
        v = a[0]
        while type(v) is Ref and type(v.load()) is Ref:
            v = v.load()
        return v

    @B('RefCell::into_inner', 'Cell::get', 'Cell::into_inner')
    def b_cell_get(ctx, a, callee):
        return D(a[0]).slot[0]

    @B('Cell::set', 'RefCell::replace')
    def b_cell_set(ctx, a, callee):
        c = D(a[0])
        old = c.slot[0]
        c.slot[0] = a[1]
        return old if callee.endswith('replace') else UNIT

    # ---------------------------------------------------------------- Vec / slices
    @B('Vec::new', 'Vec::with_capacity', 'VecDeque::new')
    def b_vec_new(ctx, a, callee):
        return VecV()

    @B('Vec::push', 'VecDeque::push_back')
    def b_vec_push(ctx, a, callee):
        v = R(a[0]).load()
        R(a[0]).store(VecV(v.items + (a[1],)))
        return UNIT

    @B('Vec::pop')
    def b_vec_pop(ctx, a, callee):
        v = R(a[0]).load()
        if not v.items:
            return NONE
        R(a[0]).store(VecV(v.items[:-1]))
        return some(v.items[-1])

    @B('Vec::insert')
    def b_vec_insert(ctx, a, callee):
        v = R(a[0]).load()
        i = a[1]
        if i > len(v.items):
            raise Panic('insertion index out of bounds')
        R(a[0]).store(VecV(v.items[:i] + (a[2],) + v.items[i:]))
        return UNIT

    @B('Vec::remove')
    def b_vec_remove(ctx, a, callee):
        v = R(a[0]).load()
        i = a[1]
        if i >= len(v.items):
            raise Panic('removal index out of bounds')
        R(a[0]).store(VecV(v.items[:i] + v.items[i + 1:]))
        return v.items[i]

    @B('Vec::truncate')
    def b_vec_truncate(ctx, a, callee):
        v = R(a[0]).load()
        R(a[0]).store(VecV(v.items[:a[1]]))
        return UNIT

    @B('Vec::clear')
    def b_vec_clear(ctx, a, callee):
        R(a[0]).store(VecV())
        return UNIT

    @B('Vec::len', 'core::slice::len', 'VecDeque::len')
    def b_len(ctx, a, callee):
        return len(seq_items(D(a[0])))

    @B('Vec::is_empty', 'core::slice::is_empty')
    def b_is_empty(ctx, a, callee):
        return len(seq_items(D(a[0]))) == 0

    @B('Vec::append')
    def b_vec_append(ctx, a, callee):
        v = R(a[0]).load()
        o = R(a[1]).load()
        R(a[0]).store(VecV(v.items + o.items))
        R(a[1]).store(VecV())
        return UNIT

    @B('<Vec as Extend>::extend', 'Vec::extend_from_slice')
    def b_vec_extend(ctx, a, callee):
        v = R(a[0]).load()
        src = D(a[1])
        items = list(seq_items(src)) if type(src) in (VecV, bytes) else it_drain(ctx, as_it(ctx, a[1]))
        R(a[0]).store(VecV(v.items + tuple(D(x) if type(x) is Ref else x for x in items)))
        return UNIT

    @B('Vec::drain')
    def b_vec_drain(ctx, a, callee):
        v = R(a[0]).load()
        r = D(a[1])
        n = len(v.items)
        lo, hi = range_bounds(r, n)
        R(a[0]).store(VecV(v.items[:lo] + v.items[hi:]))
        return it_seq(v.items[lo:hi])

    def range_bounds(r, n):
        t = r.ty.split('::')[-1] if type(r) is Agg else ''
        if t == 'RangeFull':
            return 0, n
        if t == 'Range':
            return r.fields[0], r.fields[1]
        if t == 'RangeFrom':
            return r.fields[0], n
        if t == 'RangeTo':
            return 0, r.fields[0]
        if t == 'RangeInclusive':
            return r.fields[0], r.fields[1] + 1
        if t == 'RangeToInclusive':
            return 0, r.fields[0] + 1
        raise Unsupported('range %r' % (r,))
    prog.range_bounds = range_bounds

    @B('core::slice::get', 'Vec::get', 'core::slice::get_mut')
    def b_slice_get(ctx, a, callee):
        v = D(a[0])
        i = D(a[1])
        items = seq_items(v)
        if type(i) is Agg:
            lo, hi = range_bounds(i, len(items))
            if lo > hi or hi > len(items):
                return NONE
            return some(rebuild_seq(v, items[lo:hi]))
        if is_sym(i):
            if ctx.branch(binop('Lt', i, len(items), 64, False)):
                i = ctx.concretize_int(i, list(range(len(items))))
            else:
                return NONE
        if i < len(items):
            if callee.endswith('get_mut') and type(a[0]) is Ref:
                r = a[0]
                while type(r.load()) is Ref:
                    r = r.load()
                return some(r.extend(('i', i)))
            return some(items[i])
        return NONE

    @B('core::slice::first')
    def b_first(ctx, a, callee):
        items = seq_items(D(a[0]))
        return some(items[0]) if items else NONE

    @B('core::slice::last', 'Vec::last')
    def b_last(ctx, a, callee):
        items = seq_items(D(a[0]))
        return some(items[-1]) if items else NONE

    @B('core::slice::last_mut', 'core::slice::first_mut')
    def b_last_mut(ctx, a, callee):
        r = a[0]
        while type(r.load()) is Ref:
            r = r.load()
        n = len(seq_items(r.load()))
        if not n:
            return NONE
        return some(r.extend(('i', n - 1 if 'last' in callee else 0)))

    @B('<Vec as Index>::index', '<[] as Index>::index', '<Vec as IndexMut>::index_mut', '<[] as IndexMut>::index_mut')
    def b_index(ctx, a, callee):
        v = D(a[0])
        i = D(a[1])
        items = seq_items(v)
        if type(i) is Agg:
            lo, hi = range_bounds(i, len(items))
            if lo > hi or hi > len(items):
                raise Panic('range end index out of range for slice')
            return rebuild_seq(v, items[lo:hi])
        if is_sym(i):
            if ctx.branch(binop('Lt', i, len(items), 64, False)):
                i = ctx.concretize_int(i, list(range(len(items))))
            else:
                raise Panic('index out of bounds: the len is %d but the index is symbolic' % len(items))
        if i >= len(items):
            raise Panic('index out of bounds: the len is %d but the index is %d' % (len(items), i))
        if 'IndexMut' in callee and type(a[0]) is Ref:
            r = a[0]
            while type(r.load()) is Ref:
                r = r.load()
            return r.extend(('i', i))
        return items[i]

    @B('core::slice::reverse')
    def b_reverse(ctx, a, callee):
        v = R(a[0]).load()
        R(a[0]).store(rebuild_seq(v, tuple(reversed(seq_items(v)))))
        return UNIT

    @B('core::slice::contains', 'Vec::contains')
    def b_contains(ctx, a, callee):
        items = seq_items(D(a[0]))
        for x in items:
            if ctx.branch(deep_eq(ctx, x, a[1])):
                return True
        return False

    @B('core::slice::iter', 'core::slice::iter_mut', 're:^<(Vec|\\[\\]|std::slice::Iter|std::slice::IterMut|std::vec::IntoIter|Option|BTreeMap|HashMap|BTreeSet|HashSet|std::ops::Range|std::vec::Drain|std::collections::\\w+::\\w+) as IntoIterator>::into_iter$',
       'Vec::iter', 'Vec::iter_mut', 'Vec::into_iter', 'BTreeMap::iter', 'HashMap::iter', 'BTreeSet::iter', 'HashSet::iter', 'Option::iter', 'BTreeMap::into_iter',
       'BTreeMap::iter_mut', 'HashMap::iter_mut', 'HashMap::drain', 'HashMap::into_iter')
    def b_iter(ctx, a, callee):
        v = D(a[0])
        if type(v) is Agg and v.ty.startswith('It:'):
            return a[0] if type(a[0]) is Ref else v
        if callee.endswith(('iter', '::into_iter')) and 'iter_mut' not in callee and 'IterMut' not in callee and type(a[0]) is Ref and not re.search(r'<&mut |<&\'\w+ mut ', callee):
            return it_of(ctx, v)
        if callee.endswith('drain'):
            R(a[0]).store(MapV(v.kind))
            return it_of(ctx, v)
        return it_of(ctx, a[0] if ('iter_mut' in callee or re.search(r'<&(\'\w+ )?mut ', callee)) else v)

    @B('BTreeMap::keys', 'HashMap::keys', 'BTreeMap::into_keys', 'HashMap::into_keys')
    def b_keys(ctx, a, callee):
        return it_seq([k for k, _ in D(a[0]).items])

    @B('BTreeMap::values', 'HashMap::values', 'BTreeMap::into_values', 'HashMap::into_values')
    def b_values(ctx, a, callee):
        return it_seq([v for _, v in D(a[0]).items])

    @B('re:^<.* as IntoIterator>::into_iter$')
    def b_into_iter_generic(ctx, a, callee):
        v0 = D(a[0])
        if type(a[0]) is Ref and type(v0) is Agg and v0.ty.startswith('It:'):
            return a[0]         # `&mut I` is itself an iterator: keep the identity
        return as_it(ctx, a[0])

    @B('re:^<.* as Iterator>::next$', 're:^<.* as DoubleEndedIterator>::next_back$')
    def b_next(ctx, a, callee):
        it = D(a[0])
        if not (type(it) is Agg and it.ty.startswith('It:')):
            raise Unsupported('next on %r (%s)' % (it, callee))
        if it.ty == 'It:range' and it.fields[2] is None:
            m = re.search(r'Range<([iu]\w+)>', callee)
            it = Agg(it.ty, None, (it.fields[0], it.fields[1], bool(m and m.group(1).startswith('i'))))
        if callee.endswith('next_back'):
            o, new = it_next(ctx, Agg('It:rev', None, (it,)))
            store_it(a[0], new.fields[0])
            return o
        o, new = it_next(ctx, it)
        store_it(a[0], new)
        return o

    def adapter(kind):
        def f(ctx, a, callee):
            return Agg('It:' + kind, None, (as_it(ctx, a[0]), a[1]))
        return f
    B('re:^<.* as Iterator>::map$')(adapter('map'))
    B('re:^<.* as Iterator>::filter$')(adapter('filter'))
    B('re:^<.* as Iterator>::filter_map$')(adapter('filter_map'))
    B('re:^<.* as Iterator>::take$')(adapter('take'))
    B('re:^<.* as Iterator>::skip$')(adapter('skip'))

    @B('re:^<.* as Iterator>::flat_map$')
    def b_flat_map(ctx, a, callee):
        return Agg('It:flat', None, (None, as_it(ctx, a[0]), a[1]))

    @B('re:^<.* as Iterator>::flatten$')
    def b_flatten(ctx, a, callee):
        return Agg('It:flat', None, (None, as_it(ctx, a[0]), None))

    @B('re:^<.* as Iterator>::enumerate$')
    def b_enumerate(ctx, a, callee):
        return Agg('It:enumerate', None, (as_it(ctx, a[0]), 0))

    @B('re:^<.* as Iterator>::zip$')
    def b_zip(ctx, a, callee):
        return Agg('It:zip', None, (as_it(ctx, a[0]), as_it(ctx, a[1])))

    @B('re:^<.* as Iterator>::chain$')
    def b_chain(ctx, a, callee):
        return Agg('It:chain', None, (as_it(ctx, a[0]), as_it(ctx, a[1])))

    @B('re:^<.* as Iterator>::rev$')
    def b_rev(ctx, a, callee):
        it = as_it(ctx, a[0])
        if it.ty != 'It:seq':
            it = it_seq(it_drain(ctx, it))
        return Agg('It:rev', None, (it,))

    @B('re:^<.* as Iterator>::peekable$')
    def b_peekable(ctx, a, callee):
        return Agg('It:peekable', None, (as_it(ctx, a[0]), None))

    @B('re:^<.* as Iterator>::(cloned|copied|by_ref|into_iter|fuse)$')
    def b_it_id(ctx, a, callee):
        if callee.endswith('by_ref'):
            return a[0]
        it = as_it(ctx, a[0])
        if callee.endswith(('cloned', 'copied')):
            return Agg('It:map', None, (it, lambda c, xs: D(xs[0])))
        return it

    @B('std::iter::Peekable::peek', 'Peekable::peek')
    def b_peek(ctx, a, callee):
        it = D(a[0])
        if it.fields[1] is not None:
            return it.fields[1]
        o, inner = it_next(ctx, it.fields[0])
        store_it(a[0], Agg('It:peekable', None, (inner, o)))
        return o

    @B('re:^<.* as Iterator>::collect$')
    def b_collect(ctx, a, callee):
        items = it_drain(ctx, as_it(ctx, a[0]))
        m = re.search(r'::collect::<(.*)>$', callee, re.S)
        if not (m and '&mut ' in m.group(1)):
            items = [D(x) if type(x) is Ref else x for x in items]      # a collection of values (or of shared refs = values)
        return collect_into(ctx, items, callee)

    @B('re:^<.* as FromIterator>::from_iter$')
    def b_from_iter(ctx, a, callee):
        items = it_drain(ctx, as_it(ctx, a[0]))
        m = re.match(r'^<(.*) as FromIterator', callee, re.S)
        return collect_into(ctx, items, '::collect::<%s>' % m.group(1))

    @B('re:^<.* as Iterator>::any$')
    def b_any(ctx, a, callee):
        it = as_it(ctx, a[0])
        while True:
            o, it = it_next(ctx, it)
            if is_none(o):
                store_it(a[0], it)
                return False
            if ctx.branch(ctx.call_value(a[1], [opt_val(o)])):
                store_it(a[0], it)
                return True

    @B('re:^<.* as Iterator>::all$')
    def b_all(ctx, a, callee):
        it = as_it(ctx, a[0])
        while True:
            o, it = it_next(ctx, it)
            if is_none(o):
                store_it(a[0], it)
                return True
            if not ctx.branch(ctx.call_value(a[1], [opt_val(o)])):
                store_it(a[0], it)
                return False

    @B('re:^<.* as Iterator>::(find|rfind)$', 're:^<.* as DoubleEndedIterator>::rfind$')
    def b_find(ctx, a, callee):
        it = as_it(ctx, a[0])
        if callee.endswith('rfind'):
            it = Agg('It:rev', None, (it if it.ty == 'It:seq' else it_seq(it_drain(ctx, it)),))
        while True:
            o, it = it_next(ctx, it)
            if is_none(o):
                return NONE
            if ctx.branch(ctx.call_value(a[1], [opt_val(o)])):
                if not callee.endswith('rfind'):
                    store_it(a[0], it)
                return o

    @B('re:^<.* as Iterator>::find_map$')
    def b_find_map(ctx, a, callee):
        it = as_it(ctx, a[0])
        while True:
            o, it = it_next(ctx, it)
            if is_none(o):
                return NONE
            r = ctx.call_value(a[1], [opt_val(o)])
            if not is_none(r):
                store_it(a[0], it)
                return r

    @B('re:^<.* as Iterator>::position$')
    def b_position(ctx, a, callee):
        it = as_it(ctx, a[0])
        n = 0
        while True:
            o, it = it_next(ctx, it)
            if is_none(o):
                return NONE
            if ctx.branch(ctx.call_value(a[1], [opt_val(o)])):
                store_it(a[0], it)
                return some(n)
            n += 1

    @B('re:^<.* as Iterator>::count$', 're:^<.* as ExactSizeIterator>::len$')
    def b_count(ctx, a, callee):
        return len(it_drain(ctx, as_it(ctx, a[0])))

    @B('re:^<.* as Iterator>::last$')
    def b_it_last(ctx, a, callee):
        xs = it_drain(ctx, as_it(ctx, a[0]))
        return some(xs[-1]) if xs else NONE

    @B('re:^<.* as Iterator>::nth$')
    def b_nth(ctx, a, callee):
        it = as_it(ctx, a[0])
        n = a[1]
        o = NONE
        for _ in range(n + 1):
            o, it = it_next(ctx, it)
            if is_none(o):
                break
        store_it(a[0], it)
        return o

    @B('re:^<.* as Iterator>::fold$')
    def b_fold(ctx, a, callee):
        acc = a[1]
        for x in it_drain(ctx, as_it(ctx, a[0])):
            acc = ctx.call_value(a[2], [acc, x])
        return acc

    @B('re:^<.* as Iterator>::for_each$')
    def b_for_each(ctx, a, callee):
        for x in it_drain(ctx, as_it(ctx, a[0])):
            ctx.call_value(a[1], [x])
        return UNIT

    @B('re:^<.* as Iterator>::(max|min)$')
    def b_it_maxmin(ctx, a, callee):
        xs = it_drain(ctx, as_it(ctx, a[0]))
        if not xs:
            return NONE
        best = xs[0]
        for x in xs[1:]:
            c = cmp_vals(ctx, x, best)
            if (callee.endswith('max') and c >= 0) or (callee.endswith('min') and c < 0):
                best = x
        return some(best)

    @B('re:^<.* as Iterator>::sum$')
    def b_sum(ctx, a, callee):
        m = re.search(r'sum::<&?([a-z]\w*)>', callee)
        t = m.group(1) if m else 'usize'
        xs = it_drain(ctx, as_it(ctx, a[0]))
        if t in ('f64', 'f32'):
            acc = 0.0
            for x in xs:
                acc = binop('Add', acc, D(x), None, True)
            return acc
        bits, signed = ty_bits(t)
        acc = 0
        for x in xs:
            x = D(x)
            if ctx.branch(overflow_flag('Add', acc, x, bits, signed)):
                raise Panic('attempt to add with overflow', ctx.where())       # dev profile
            acc = binop('Add', acc, x, bits, signed)
        return acc

    @B('re:^<.* as Iterator>::size_hint$')
    def b_size_hint(ctx, a, callee):
        return tup(0, NONE)

    @B('core::slice::sort', 'core::slice::sort_unstable', 'Vec::sort', 'Vec::dedup', 'slice::sort', 'slice::sort_unstable')
    def b_sort(ctx, a, callee):
        v = R(a[0]).load()
        items = list(v.items)
        if callee.endswith('dedup'):
            out = []
            for x in items:
                if not out or not ctx.branch(deep_eq(ctx, out[-1], x)):
                    out.append(x)
            R(a[0]).store(VecV(out))
            return UNIT
        import functools
        items.sort(key=functools.cmp_to_key(lambda p, q: cmp_vals(ctx, p, q)))
        R(a[0]).store(VecV(items))
        return UNIT

    @B('core::slice::sort_by', 'core::slice::sort_unstable_by', 'slice::sort_by', 'slice::sort_unstable_by')
    def b_sort_by(ctx, a, callee):
        import functools
        v = R(a[0]).load()
        items = list(v.items)
        items.sort(key=functools.cmp_to_key(lambda p, q: D(ctx.call_value(a[1], [p, q])).variant))
        R(a[0]).store(VecV(items))
        return UNIT

    @B('core::slice::sort_by_key', 'core::slice::sort_unstable_by_key', 'slice::sort_by_key', 'slice::sort_unstable_by_key')
    def b_sort_by_key(ctx, a, callee):
        import functools
        v = R(a[0]).load()
        items = list(v.items)
        items.sort(key=functools.cmp_to_key(lambda p, q: cmp_vals(ctx, ctx.call_value(a[1], [p]), ctx.call_value(a[1], [q]))))
        R(a[0]).store(VecV(items))
        return UNIT

    @B('core::slice::split_at', 'core::slice::split_first', 'core::slice::split_last')
    def b_split(ctx, a, callee):
        v = D(a[0])
        items = seq_items(v)
        if callee.endswith('split_at'):
            i = a[1]
            if i > len(items):
                raise Panic('mid > len')
            return tup(rebuild_seq(v, items[:i]), rebuild_seq(v, items[i:]))
        if not items:
            return NONE
        if callee.endswith('split_first'):
            return some(tup(items[0], rebuild_seq(v, items[1:])))
        return some(tup(items[-1], rebuild_seq(v, items[:-1])))

    @B('core::slice::concat', 'slice::concat')
    def b_concat(ctx, a, callee):
        out = []
        for x in seq_items(D(a[0])):
            out.extend(seq_items(D(x)))
        return VecV(out)

    @B('repeat_n', 'std::iter::repeat_n')
    def b_repeat_n(ctx, a, callee):
        return it_seq([a[0]] * a[1])

    @B('std::iter::once', 'once')
    def b_once(ctx, a, callee):
        return it_seq([a[0]])

    @B('std::iter::empty')
    def b_empty(ctx, a, callee):
        return it_seq([])
