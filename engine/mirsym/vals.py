"""Run-time values of the MIR symbolic interpreter.

Values are immutable trees (sharing is safe); mutation happens only by replacing the value in a root slot
(a frame local or a CellV) through a Ref. Shared references `&T` are represented by the value itself
(Rust forbids mutation while a shared borrow lives; interior mutability goes through CellV, which has identity).
Symbolic leaves are z3 terms: BitVec for integers/chars/bytes, Bool, FP(Float64)."""
import z3


class Agg:
    """struct / enum variant / tuple / closure environment"""
    __slots__ = ('ty', 'variant', 'fields')

    def __init__(self, ty, variant, fields):
        self.ty = ty
        self.variant = variant
        self.fields = tuple(fields)

    def __repr__(self):
        v = '' if self.variant is None else '#' + str(self.variant)
        return '%s%s%s' % (self.ty.split('::')[-1], v, list(self.fields))

    def __eq__(self, o):
        return isinstance(o, Agg) and self.ty == o.ty and _same(self.variant, o.variant) and len(self.fields) == len(o.fields) \
            and all(_same(a, b) for a, b in zip(self.fields, o.fields))

    def __hash__(self):
        return hash((self.ty, str(self.variant), len(self.fields)))


def _same(a, b):
    if isinstance(a, z3.ExprRef) or isinstance(b, z3.ExprRef):
        return isinstance(a, z3.ExprRef) and isinstance(b, z3.ExprRef) and a.eq(b)
    return a == b


class VecV:
    """Vec<T>, [T; N], [T] — concrete length, elements may be symbolic"""
    __slots__ = ('items',)

    def __init__(self, items=()):
        self.items = tuple(items)

    def __repr__(self):
        return 'vec' + repr(list(self.items))

    def __eq__(self, o):
        return isinstance(o, VecV) and len(self.items) == len(o.items) and all(_same(a, b) for a, b in zip(self.items, o.items))

    def __hash__(self):
        return hash(len(self.items))

    def __len__(self):
        return len(self.items)


class MapV:
    """BTreeMap / BTreeSet / HashMap / HashSet over concrete (hashable) keys. `items` is a tuple of (key, value)
    pairs; ordered maps keep it sorted by key, hash maps in insertion order (iteration order of a HashMap is
    unspecified in Rust; checks must not depend on it)."""
    __slots__ = ('kind', 'items')

    def __init__(self, kind, items=()):
        self.kind = kind
        self.items = tuple(items)

    def get(self, k, default=None):
        for kk, v in self.items:
            if kk == k:
                return v
        return default

    def has(self, k):
        return any(kk == k for kk, _ in self.items)

    def insert(self, k, v):
        items = [(kk, vv) for kk, vv in self.items if kk != k]
        items.append((k, v))
        if self.kind in ('BTreeMap', 'BTreeSet'):
            items.sort(key=lambda kv: _sort_key(kv[0]))
        elif self.has(k):
            # keep position for hash maps
            items = [(kk, (v if kk == k else vv)) for kk, vv in self.items]
        return MapV(self.kind, items)

    def remove(self, k):
        return MapV(self.kind, [(kk, vv) for kk, vv in self.items if kk != k])

    def __len__(self):
        return len(self.items)

    def __repr__(self):
        return '%s{%s}' % (self.kind, ', '.join('%r: %r' % kv for kv in self.items))

    def __eq__(self, o):
        return isinstance(o, MapV) and len(self.items) == len(o.items) and all(
            a[0] == b[0] and _same(a[1], b[1]) for a, b in zip(self.items, o.items))

    def __hash__(self):
        return hash(len(self.items))


def _sort_key(k):
    if isinstance(k, str):
        return (0, k.encode('utf-8'))
    if isinstance(k, (int, bool)):
        return (1, k)
    if isinstance(k, Agg):
        return (2, str(k))
    return (3, str(k))


class SymStr:
    """a string whose bytes may be symbolic: tuple of int | z3 BitVec(8); length concrete"""
    __slots__ = ('bytes',)

    def __init__(self, bs):
        self.bytes = tuple(bs)

    def __repr__(self):
        return 'symstr[%s]' % ','.join(chr(b) if isinstance(b, int) and 32 <= b < 127 else ('?' if not isinstance(b, int) else '\\x%02x' % b) for b in self.bytes)

    def __eq__(self, o):
        return isinstance(o, SymStr) and len(self.bytes) == len(o.bytes) and all(_same(a, b) for a, b in zip(self.bytes, o.bytes))

    def __hash__(self):
        return hash(len(self.bytes))

    def __len__(self):
        return len(self.bytes)


class CellV:
    """RefCell / Cell / Mutex / anything with identity and interior mutability"""
    __slots__ = ('slot',)

    def __init__(self, v):
        self.slot = [v]

    def __repr__(self):
        return 'cell(%r)' % (self.slot[0],)


class Ref:
    """&mut place (or a raw pointer): root container (a list: frame locals or CellV.slot), key, resolved path"""
    __slots__ = ('cont', 'key', 'path')

    def __init__(self, cont, key, path=()):
        self.cont = cont
        self.key = key
        self.path = path

    def load(self):
        v = self.cont[self.key]
        for p in self.path:
            k = p[0]
            while type(v) is Ref:
                v = v.load()
            if k == 'f':
                v = v.fields[p[1]]
            elif k == 'i':
                v = seq_items(v)[p[1]]
            else:
                raise RuntimeError('bad ref path ' + repr(p))
        return v

    def store(self, new):
        self.cont[self.key] = _set_rpath(self.cont[self.key], self.path, 0, new)

    def extend(self, elem):
        return Ref(self.cont, self.key, self.path + (elem,))

    def __repr__(self):
        return '&mut<%s%s>' % (self.key, ''.join('.%s' % (p[1],) for p in self.path))


def _set_rpath(v, path, i, new):
    if i == len(path):
        return new
    p = path[i]
    if type(v) is Ref:
        # a reference stored inside the structure: write through it
        Ref(v.cont, v.key, v.path + tuple(path[i:])).store(new)
        return v
    if p[0] == 'f':
        if v is None:
            v = Agg('?', None, [None] * (p[1] + 1))
        f = list(v.fields)
        while len(f) <= p[1]:
            f.append(None)
        f[p[1]] = _set_rpath(f[p[1]], path, i + 1, new)
        return Agg(v.ty, v.variant, f)
    if p[0] == 'i':
        items = list(seq_items(v))
        items[p[1]] = _set_rpath(items[p[1]], path, i + 1, new)
        return rebuild_seq(v, items)
    raise RuntimeError('bad ref path ' + repr(p))


class FnPtr:
    __slots__ = ('name',)

    def __init__(self, name):
        self.name = name

    def __repr__(self):
        return 'fn<%s>' % self.name


class Opaque:
    """a value the engine carries but cannot look into"""
    __slots__ = ('what', 'args')

    def __init__(self, what, args=()):
        self.what = what
        self.args = tuple(args)

    def __repr__(self):
        return '<%s>' % self.what


class PathV:
    """PathBuf / &Path as a component list. absolute: bool; comps: tuple of str ('.' and '..' kept literally)"""
    __slots__ = ('absolute', 'comps')

    def __init__(self, absolute, comps):
        self.absolute = absolute
        self.comps = tuple(comps)

    def __repr__(self):
        return 'path(%s%s)' % ('/' if self.absolute else '', '/'.join(self.comps))

    def canon(self):
        """std::path compares by components, and `components()` drops every `.` except a leading one of a relative path"""
        return tuple(c for i, c in enumerate(self.comps) if c != '' and (c != '.' or (i == 0 and not self.absolute)))

    def trimmed(self):
        """components without what std ignores at the end of a path: trailing slashes and trailing `.` segments"""
        c = list(self.comps)
        while c and (c[-1] == '' or (c[-1] == '.' and (len(c) > 1 or self.absolute))):
            c.pop()
        return tuple(c)

    def __eq__(self, o):
        return isinstance(o, PathV) and self.absolute == o.absolute and self.canon() == o.canon()

    def __hash__(self):
        return hash((self.absolute, self.canon()))

    def to_str(self):
        return ('/' if self.absolute else '') + '/'.join(self.comps)


UNIT = Agg('()', None, ())
NONE = Agg('Option', 0, ())


def some(v):
    return Agg('Option', 1, (v,))


def ok(v):
    return Agg('Result', 0, (v,))


def err(v):
    return Agg('Result', 1, (v,))


def tup(*xs):
    return Agg('tuple', None, xs)


def is_sym(v):
    return isinstance(v, z3.ExprRef)


def seq_items(v):
    """uniform element view of Vec / array / slice / bytes / str-as-bytes"""
    t = type(v)
    if t is VecV:
        return v.items
    if t is bytes:
        return tuple(v)
    if t is str:
        return tuple(v.encode('utf-8'))
    if t is SymStr:
        return v.bytes
    if t is tuple:
        return v
    raise TypeError('not a sequence: %r' % (v,))


def rebuild_seq(old, items):
    t = type(old)
    if t is VecV:
        return VecV(items)
    if t is SymStr or t is str or t is bytes:
        if all(isinstance(b, int) for b in items):
            bs = bytes(items)
            if t is bytes:
                return bs
            try:
                return bs.decode('utf-8')
            except UnicodeDecodeError:
                return SymStr(items)
        return SymStr(items)
    return VecV(items)


def deref_all(v):
    while type(v) is Ref:
        v = v.load()
    return v


class FmtV:
    """a formatted string some of whose pieces are not concrete text. pieces: str | SymStr | tuple(kind, value...)"""
    __slots__ = ('pieces',)

    def __init__(self, pieces):
        self.pieces = tuple(pieces)

    def __repr__(self):
        return 'fmt' + repr(list(self.pieces))

    def __eq__(self, o):
        return isinstance(o, FmtV) and len(self.pieces) == len(o.pieces) and all(_same(a, b) if not isinstance(a, tuple) else repr(a) == repr(b) for a, b in zip(self.pieces, o.pieces))

    def __hash__(self):
        return hash(len(self.pieces))


def assemble(pieces):
    """list of pieces -> str | SymStr | FmtV"""
    flat = []
    for p in pieces:
        if type(p) is FmtV:
            flat.extend(p.pieces)
        else:
            flat.append(p)
    if all(type(p) is str for p in flat):
        return ''.join(flat)
    if all(type(p) in (str, SymStr) for p in flat):
        bs = []
        for p in flat:
            bs.extend(seq_items(p))
        return SymStr(bs)
    # merge adjacent concrete pieces
    out = []
    for p in flat:
        if type(p) is str and out and type(out[-1]) is str:
            out[-1] = out[-1] + p
        elif type(p) is str and p == '':
            continue
        else:
            out.append(p)
    return FmtV(out)


def inner_ref(r):
    """innermost reference of a chain `&mut &mut T` (what a mutating std method finally writes through)"""
    while type(r) is Ref:
        v = r.load()
        if type(v) is Ref:
            r = v
        else:
            break
    return r
