"""Driving the real ucg pipeline inside mirsym: tokenizer+parser (memoised; concrete text), translator, VM."""
import hashlib
import os
import pickle

from mirsym import interp
from mirsym.vals import Agg, VecV, MapV, CellV, Ref, NONE, some, UNIT, PathV
from mirsym.bi_str import sink_new
import astb

_PARSE_MEMO = {}


_ENGINE_HASH = []


def _engine_hash():
    """hash of the interpreter's own sources: a cached parse result is only as good as the engine that produced it"""
    if not _ENGINE_HASH:
        h = hashlib.sha256()
        d = os.path.join(os.path.dirname(os.path.abspath(__file__)), 'mirsym')
        for fn in sorted(os.listdir(d)):
            if fn.endswith('.py'):
                h.update(open(os.path.join(d, fn), 'rb').read())
        _ENGINE_HASH.append(h.hexdigest())
    return _ENGINE_HASH[0]


def _dep_hash(prog, names):
    h = hashlib.sha256()
    h.update(_engine_hash().encode())
    for n in names:
        f = prog.funcs.get(n) or prog.consts.get(n)
        h.update(n.encode())
        h.update((f.src_hash if f is not None else 'missing').encode())
    return h.hexdigest()


def parse_program(ctx, text, comment_map=False):
    """real `parse::parse` on concrete text -> Result value. Deterministic and decision-free, hence memoised per
    process (values are immutable, so sharing between paths is sound). Also cached on disk: an entry records which MIR
    functions the parse executed and the hash of their MIR text, and is used only if the working tree's current MIR of
    exactly those functions is unchanged (so an edit to the tokenizer/parser invalidates it, an edit to the VM does not)."""
    key = (text, comment_map)
    r = _PARSE_MEMO.get(key)
    if r is not None:
        return r
    prog = ctx.prog
    import world
    pdir = os.path.join(world.CACHE, 'parse')
    pth = os.path.join(pdir, hashlib.sha256(text.encode()).hexdigest()[:32] + ('.cm' if comment_map else '') + '.pkl')
    if os.path.exists(pth):
        try:
            ent = pickle.load(open(pth, 'rb'))
            if ent['dep_hash'] == _dep_hash(prog, ent['deps']):
                _PARSE_MEMO[key] = ent['value']
                return ent['value']
        except Exception:
            pass
    sub = interp.Ctx(prog, fuel=getattr(ctx, 'parse_fuel', 10_000_000_000))
    it = sub.call('OffsetStrIter::new', [text])
    real = prog.funcs['parse']
    if comment_map:
        cm = CellV(MapV('BTreeMap'))
        r = interp.exec_func(sub, real, [it, some(Ref(cm.slot, 0, ()))])
        r = (r, cm.slot[0])
    else:
        r = interp.exec_func(sub, real, [it, NONE])
    if sub.decisions:
        raise interp.Unsupported('parse of concrete text made symbolic decisions')
    _PARSE_MEMO[key] = r
    if True:
        try:
            os.makedirs(pdir, exist_ok=True)
            deps = sorted(sub.funcs_touched)
            tmp = pth + '.%d.tmp' % os.getpid()
            pickle.dump({'deps': deps, 'dep_hash': _dep_hash(prog, deps), 'value': r}, open(tmp, 'wb'))
            os.replace(tmp, pth)
        except Exception:
            pass
    return r


def warm_parse_cache(prog, texts, nproc=16):
    """parse several concrete texts in parallel worker processes (fills the disk cache)"""
    import multiprocessing as mp
    todo = [t for t in texts if (t, False) not in _PARSE_MEMO]
    if not todo:
        return
    _WARM['prog'] = prog
    ctxm = mp.get_context('fork')
    with ctxm.Pool(min(nproc, len(todo))) as pool:
        pool.map(_warm_one, todo)


_WARM = {}


def _warm_one(text):
    import sys
    import threading
    sys.setrecursionlimit(400000)
    threading.stack_size(1024 * 1024 * 1024)
    out = []

    def body():
        try:
            parse_program(interp.Ctx(_WARM['prog']), text)
        except Exception as e:      # the caller will hit (and report) the same failure in-process
            out.append(e)
    th = threading.Thread(target=body)
    th.start()
    th.join()
    return None


def stdlib_texts(prog):
    import glob
    return [open(p).read() for p in sorted(glob.glob(os.path.join(prog.tree, 'std', '*.ucg')))]


def parse_ok(ctx, text):
    r = parse_program(ctx, text)
    if r.variant != 0:
        raise interp.Unsupported('harness program does not parse: %r -> %r' % (text, r))
    return r.fields[0]


def make_env(ctx, env_vars=None, strict=True):
    """Environment assembled field by field (its real constructor parses the whole standard library); every component
    that has a real constructor is built by executing it."""
    b = astb.B(ctx.prog)
    ev = MapV('BTreeMap')
    for k, v in sorted((env_vars or {}).items()):
        ev = ev.insert(k, v)
    env = b.struct('build::opcode::environment::Environment',
                   val_cache=MapV('BTreeMap'),
                   shape_cache=CellV(MapV('BTreeMap')),
                   op_cache=ctx.call('cache::Ops::new', []),
                   converter_registry=ctx.call('ConverterRegistry::make_registry', []),
                   importer_registry=ctx.call('ImporterRegistry::make_registry', []),
                   assert_results=ctx.call('AssertCollector::new', []),
                   stdout=sink_new(), stderr=sink_new(), env_vars=ev, out_lock=MapV('BTreeSet'))
    return CellV(env)


def translate(ctx, stmts, root='/wd'):
    return ctx.call('AST::translate', [stmts, ctx.prog.to_path(root)])


def new_vm(ctx, ops, strict=True, wd='/wd', validate=False):
    ptr = ctx.call('OpPointer::new', [ops])
    vm = ctx.call('VM::with_pointer', [strict, ptr, ctx.prog.to_path(wd)])
    cell = CellV(vm)
    r = Ref(cell.slot, 0, ())
    if validate:
        ctx.call('VM::enable_validate_mode', [r])
    return cell, r


def run_program(ctx, stmts, strict=True, env=None, validate=False, wd='/wd'):
    """-> (Result<(), Error> value, vm cell, env cell)"""
    env = env or make_env(ctx)
    ops = translate(ctx, stmts, wd)
    cell, r = new_vm(ctx, ops, strict, wd, validate)
    res = ctx.call('VM::run', [r, env])
    return res, cell, env


def install_parse_override(prog):
    """route the (decision-free) real parser through the per-process/disk memo when the input text is concrete and
    carries no comment map. The memo is filled by executing the real parser MIR; nothing is modelled."""
    real = prog.funcs.get('parse')

    def parse_override(ctx, a, callee):
        it, cm = a
        from mirsym.vals import deref_all
        it0 = deref_all(it)
        b = astb.B(prog)
        contained = b.field(it0, 'iter::OffsetStrIter', 'contained')
        src_file = b.field(it0, 'iter::OffsetStrIter', 'source_file')
        text = contained.fields[0]
        off = contained.fields[1]
        if type(text) is str and off == 0 and deref_all(cm).variant == 0 and b.field(it0, 'iter::OffsetStrIter', 'line_offset') == 0 \
                and b.field(it0, 'iter::OffsetStrIter', 'col_offset') == 0:
            r = parse_program(ctx, text)
            if src_file.variant == 1:
                r = set_file(prog, r, src_file)
            sub = getattr(ctx, 'parse_subst', None)
            if sub:
                import symprog
                r = symprog.subst(prog, r, **sub)       # harness-chosen literals of files read through the io stubs become symbolic
            return r
        return interp.exec_func(ctx, real, a)
    prog.overrides['parse'] = parse_override
    prog.resolve_cache.clear()


def set_file(prog, v, file_opt):
    """the memoised AST was parsed without a source file; positions of a file-backed parse differ only in `file`"""
    memo = {}

    def walk(x):
        t = type(x)
        if t is Agg:
            k = id(x)
            r = memo.get(k)
            if r is not None:
                return r
            if x.ty.endswith('ast::Position') or x.ty == 'ast::Position':
                r = Agg(x.ty, x.variant, (file_opt,) + x.fields[1:])
            else:
                nf = tuple(walk(f) for f in x.fields)
                r = x if all(a is b for a, b in zip(nf, x.fields)) else Agg(x.ty, x.variant, nf)
            memo[k] = r
            return r
        if t is VecV:
            ni = tuple(walk(f) for f in x.items)
            return x if all(a is b for a, b in zip(ni, x.items)) else VecV(ni)
        return x
    return walk(v)


_ENV_MEMO = {}


def make_full_env(ctx, env_vars=None):
    """the real `Environment::new_with_vars` (registries, assert collector, **standard library pre-translated into the
    opcode cache**) executed from MIR; memoised per process since it is decision-free."""
    key = tuple(sorted((env_vars or {}).items()))
    e = _ENV_MEMO.get(key)
    if e is None:
        sub = interp.Ctx(ctx.prog, fuel=10_000_000_000)
        ev = MapV('BTreeMap')
        for k, v in key:
            ev = ev.insert(k, v)
        e = sub.call('Environment::new_with_vars', [sink_new(), sink_new(), ev])
        if sub.decisions:
            raise interp.Unsupported('Environment::new made symbolic decisions')
        _ENV_MEMO[key] = e
    # fresh sinks / cells per use (the memoised value is immutable except for cells)
    b = astb.B(ctx.prog)
    fs = ctx.prog.sources.struct_fields('build::opcode::environment::Environment')
    fl = list(e.fields)
    fl[fs.index('stdout')] = sink_new()
    fl[fs.index('stderr')] = sink_new()
    fl[fs.index('shape_cache')] = CellV(MapV('BTreeMap'))
    return CellV(Agg(e.ty, None, fl))
