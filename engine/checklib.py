"""Common run protocol of all checks (DESIGN.md section 3): tiers, exploration, vacuity, native replay, known
findings, exit codes, evidence."""
import argparse
import collections
import hashlib
import json
import os
import subprocess
import sys
import time

HERE = os.path.dirname(os.path.abspath(__file__))
VERIF = os.path.dirname(HERE)
sys.path.insert(0, HERE)

import world  # noqa: E402
from mirsym import explore as ex  # noqa: E402


def log(*a):
    print('[check]', *a, file=sys.stderr, flush=True)


class Framework:
    def __init__(self, pid, tier, seed, no_cache=False):
        self.pid = pid
        self.tier = tier
        self.seed = seed
        self.t0 = time.time()
        self.families = collections.OrderedDict()
        self.violations = []        # dicts: key, what, case, replay_path, reproduced
        self.inconclusive = []
        self.samples = []
        self.assumptions = []
        self.bounds = {}
        self.oracles = []
        self.replayed = 0
        self.kani = []
        self.notes = []
        self.nproc = min(16, os.cpu_count() or 1)
        self.cache_dir = world.prepare(no_cache=no_cache, log=log)
        self.prog = world.load_program(self.cache_dir)
        self.tree = self.prog.tree
        self._native = None
        self.known = load_known(pid)
        self.known_seen = []

    # ------------------------------------------------------------ exploration
    def explore(self, family, harness, cases, fuel=5_000_000, max_paths=400000, deadline_s=None, tolerate=(), expect_reach=True,
                batch_paths=40):
        """run `harness` over `cases`; records with key 'violation' are collected; anything that is not 'done'
        (or a tolerated outcome) makes the check inconclusive."""
        t0 = time.time()
        recs, left = ex.explore(self.prog, harness, cases, nproc=self.nproc, fuel=fuel, max_paths=max_paths, deadline_s=deadline_s,
                                batch_paths=batch_paths)
        agg = ex.aggregate(recs)
        fam = self.families.setdefault(family, {'paths': 0, 'steps': 0, 'queries': 0, 'solver_s': 0.0, 'outcomes': {}, 'reached': 0,
                                                'funcs': set(), 'builtins': {}, 'cases': 0, 'wall_s': 0.0, 'asserts': 0})
        fam['paths'] += agg['paths']
        fam['steps'] += agg['steps']
        fam['queries'] += agg['queries']
        fam['solver_s'] += agg['solver_s']
        fam['cases'] += len(cases)
        fam['wall_s'] += time.time() - t0
        for k, v in agg['outcomes'].items():
            fam['outcomes'][k] = fam['outcomes'].get(k, 0) + v
        fam['funcs'].update(agg['funcs'])
        for k, v in agg['builtins'].items():
            fam['builtins'][k] = fam['builtins'].get(k, 0) + v
        if left:
            self.inconclusive.append('%s: %d work items left unexplored (path/time budget)' % (family, left))
        for r in recs:
            if r.get('reached'):
                fam['reached'] += 1
            fam['asserts'] += r.get('asserts', 0)
            if r['outcome'] not in ('done',) and r['outcome'] not in tolerate:
                self.inconclusive.append('%s: path outcome %s: %s @ %s' % (family, r['outcome'], r.get('detail', ''), r.get('where', '')))
            for v in r.get('violations', ()):
                v = dict(v)
                v['family'] = family
                self.violations.append(v)
            if r.get('sample') is not None and len([s for s in self.samples if s.get('family') == family]) < 3:
                self.samples.append({'family': family, 'case': r.get('case'), 'sample': r['sample']})
        if expect_reach and fam['reached'] == 0:
            self.inconclusive.append('%s: vacuous — no path reached the assertion' % family)
        log('%s: %d paths, %d reached assertion, outcomes %s, %.1fs' % (family, agg['paths'], fam['reached'], agg['outcomes'], time.time() - t0))
        return recs

    # ------------------------------------------------------------ native side
    def native(self):
        if self._native is None:
            import native
            self._native = native.Native(self.cache_dir, log)
        return self._native

    def replay(self, case):
        """run one concrete case through the real (natively compiled) code; -> dict outcome"""
        self.replayed += 1
        return self.native().run(case)

    # ------------------------------------------------------------ finish
    def finish(self, level='model_checking', technique='', extra=None):
        # replay violations, classify
        new_viol = []
        by_key = collections.OrderedDict()
        for v in self.violations:
            by_key.setdefault(v['key'], []).append(v)
        os.makedirs(os.path.join(VERIF, 'replays', self.pid), exist_ok=True)
        lines = []
        not_reproduced = []
        for key, vs in by_key.items():
            v = vs[0]
            rp = os.path.join(VERIF, 'replays', self.pid, hashlib.sha256(key.encode()).hexdigest()[:12] + '.json')
            with open(rp, 'w') as fh:
                json.dump(dump_violation(self.pid, key, v, len(vs)), fh, indent=1, default=str)
            rep = v.get('reproduced')
            if rep is None and v.get('case') is not None and v.get('judge') is not None:
                # several candidate models may exist for one violation key: report if any reproduces natively
                cands = []
                seen = set()
                for cand in sorted(vs, key=lambda c: c.get('prio', 5)):
                    if cand.get('case') is None or cand.get('judge') is None:
                        continue
                    kk = json.dumps(cand['case'], sort_keys=True, default=str)
                    if kk in seen:
                        continue
                    seen.add(kk)
                    cands.append(cand)
                    if len(cands) >= 200:
                        break
                try:
                    outs = self.native().run_many([c['case'] for c in cands])
                    self.replayed += len(cands)
                    rep = False
                    for cand, out in zip(cands, outs):
                        cand['native'] = out
                        if cand['judge'](out):
                            rep = True
                            v = cand
                            with open(rp, 'w') as fh:
                                json.dump(dump_violation(self.pid, key, v, len(vs)), fh, indent=1, default=str)
                            break
                except Exception as e:   # replay infrastructure failure is inconclusive, not a violation
                    rep = None
                    self.inconclusive.append('replay failed for %s: %s' % (key, e))
            if rep is False:
                not_reproduced.append(key)
                self.inconclusive.append('counterexample does not reproduce natively (encoding or builtin wrong?): %s %s' % (key, v['what']))
                continue
            if rep is None and v.get('judge') is not None:
                continue
            kf = match_known(self.known, key)
            if kf is not None and kf.get('status') == 'known':
                self.known_seen.append(key)
                lines.append('KNOWN-FINDING: property=%s %s' % (self.pid, kf.get('what_fails', v['what'])))
            else:
                new_viol.append((key, v, rp))
                lines.append('VIOLATION property=%s replay=%s' % (self.pid, rp))
                lines.append('  ' + v['what'])
        for k in self.known:
            if k.get('status') == 'known' and k['key'] not in self.known_seen:
                self.notes.append('known finding not met on this run (informational): ' + k['key'])
        wall = time.time() - self.t0
        self.write_evidence(level, technique, wall, len(new_viol), extra)
        for l in lines:
            print(l)
        if new_viol:
            print('RESULT property=%s violations=%d' % (self.pid, len(new_viol)))
            return 1
        if self.inconclusive:
            for m in self.inconclusive[:20]:
                print('INCONCLUSIVE property=%s %s' % (self.pid, m))
            return 2
        print('OK property=%s tier=%s paths=%d wall=%.1fs' % (self.pid, self.tier, sum(f['paths'] for f in self.families.values()), wall))
        return 0

    def write_evidence(self, level, technique, wall, nviol, extra):
        fams = {}
        funcs = set()
        builtins = {}
        for k, f in self.families.items():
            fams[k] = {kk: (round(vv, 3) if isinstance(vv, float) else vv) for kk, vv in f.items() if kk not in ('funcs', 'builtins')}
            funcs.update(f['funcs'])
            for b, n in f['builtins'].items():
                builtins[b] = builtins.get(b, 0) + n
        paths = sum(f['paths'] for f in self.families.values())
        steps = sum(f['steps'] for f in self.families.values())
        cov = {
            'states': max(paths + sum(k.get('checks', 0) for k in self.kani), 0),
            'transitions': max(steps + sum(k.get('steps', 0) for k in self.kani), 0),
            'traces_validated_against_impl': self.replayed,
            'samples': self.samples[:12] or [{'note': 'no sample recorded'}],
            'exhaustive': False,
            'explanation': 'states = symbolic paths explored (each decided by z3 under its path condition) + Kani checks; transitions = MIR statements executed',
            'families': fams,
            'functions_encoded': sorted(funcs),
            'builtins_used': builtins,
            'bounds': self.bounds,
            'oracles': self.oracles,
            'queries': {'z3': sum(f['queries'] for f in self.families.values())},
            'solver_time_s': {'z3': round(sum(f['solver_s'] for f in self.families.values()), 2)},
            'paths_inconclusive': len(self.inconclusive),
            'inconclusive': self.inconclusive[:20],
            'vacuity': {k: f['reached'] for k, f in self.families.items()},
            'known_findings_seen': self.known_seen,
            'kani': self.kani,
            'mir_sha256': self.prog.mir_sha,
            'notes': self.notes,
            'technique': technique,
            'tools': {'z3': __import__('z3').get_version_string(), 'python': sys.version.split()[0]},
        }
        if extra:
            cov.update(extra)
        ev = {'property_id': self.pid, 'tier': self.tier, 'seed': self.seed, 'level': level, 'coverage': cov,
              'assumptions': self.assumptions, 'wall_s': round(wall, 2), 'violations': nviol}
        os.makedirs(os.path.join(VERIF, 'evidence'), exist_ok=True)
        p = os.path.join(VERIF, 'evidence', self.pid + '.json')
        with open(p + '.tmp', 'w') as fh:
            json.dump(ev, fh, indent=1, default=str)
        os.replace(p + '.tmp', p)


def dump_violation(pid, key, v, count):
    d = {'property': pid, 'key': key, 'count': count}
    for k, x in v.items():
        if k in ('judge', 'native', 'prio'):
            continue
        try:
            json.dumps(x)
            d[k] = x
        except TypeError:
            d[k] = str(x)
    return d


def load_known(pid):
    """known_findings.txt (committed, never written at run time). Lines:
         known: property=<id> key=<key> <what fails>
         fixed: property=<id> <commit> <what failed>
       A `fixed` line suppresses nothing."""
    p = os.path.join(VERIF, 'known_findings.txt')
    out = []
    if not os.path.exists(p):
        return out
    for line in open(p):
        line = line.strip()
        if not line or line.startswith('#'):
            continue
        status, _, rest = line.partition(': ')
        if status not in ('known', 'fixed'):
            continue
        parts = rest.split(' ')
        prop = parts[0].split('=', 1)[1] if parts and parts[0].startswith('property=') else None
        if prop != pid:
            continue
        if status == 'known':
            key = parts[1].split('=', 1)[1] if len(parts) > 1 and parts[1].startswith('key=') else None
            out.append({'property': prop, 'status': 'known', 'key': key, 'what_fails': ' '.join(parts[2:])})
        else:
            out.append({'property': prop, 'status': 'fixed', 'key': None, 'commit': parts[1] if len(parts) > 1 else '', 'what_fails': ' '.join(parts[2:])})
    return out


def match_known(known, key):
    for k in known:
        if k.get('status') == 'known' and k['key'] == key:
            return k
    return None


def main(checks_dir):
    ap = argparse.ArgumentParser()
    ap.add_argument('pid')
    ap.add_argument('--tier', default=os.environ.get('VERIF_TIER', 'quick'))
    ap.add_argument('--replay')
    ap.add_argument('--no-cache', action='store_true')
    args = ap.parse_args()
    seed = int(os.environ.get('VERIF_SEED', '0') or 0)
    sys.path.insert(0, checks_dir)
    sys.setrecursionlimit(400000)
    mod = __import__(args.pid)
    if args.replay:
        fw = Framework(args.pid, args.tier, seed)
        case = json.load(open(args.replay))
        out = mod.replay(fw, case)
        print(json.dumps(out, indent=1, default=str))
        return 1 if out.get('violates') else 0
    fw = Framework(args.pid, args.tier, seed, no_cache=args.no_cache or args.tier == 'thorough' and os.environ.get('VERIF_KEEP_CACHE') != '1')
    try:
        rc = mod.run(fw)
    except Exception:
        import traceback
        traceback.print_exc()
        print('INCONCLUSIVE property=%s check crashed' % args.pid)
        return 2
    return rc
