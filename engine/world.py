"""Derive everything a check needs from /repo's *current working tree*: a scratch copy, MIR dumps (lib, bin,
abortable_parser), and the Program object of the MIR interpreter. Derived artefacts are cached by content hash of the
working tree under /verif/.cache/<sha>/ (see DESIGN.md 3.2); the cargo target directory holding the third-party
dependencies is shared (/verif/.cache/target-nightly), the ucg crate itself is always rebuilt from the scratch copy."""
import fcntl
import re
import glob
import hashlib
import os
import shutil
import subprocess
import sys
import time

REPO = os.environ.get('UCG_REPO', '/repo')
VERIF = os.path.dirname(os.path.dirname(os.path.abspath(__file__)))
CACHE = os.path.join(VERIF, '.cache')
# scratch build location: fixed per checkout of /verif (so cargo's fingerprints of the dependencies stay valid) but not shared
# between checkouts, whose runs are serialised by different locks
SCRATCH = '/var/tmp/ucg-verif-build-' + hashlib.sha256(CACHE.encode()).hexdigest()[:8]
TRACKED = ('src', 'std', 'bin', 'Cargo.toml', 'Cargo.lock', 'integration_tests', 'examples', 'example_errors', 'docsite/site/content/reference')
ENV = dict(os.environ, CARGO_NET_OFFLINE='true')


def tree_files(repo=REPO):
    out = []
    for t in TRACKED:
        p = os.path.join(repo, t)
        if os.path.isfile(p):
            out.append(p)
        elif os.path.isdir(p):
            for d, dirs, files in os.walk(p):
                dirs.sort()
                for f in sorted(files):
                    out.append(os.path.join(d, f))
    return out


def tree_hash(repo=REPO):
    h = hashlib.sha256()
    for p in tree_files(repo):
        h.update(os.path.relpath(p, repo).encode())
        h.update(b'\0')
        with open(p, 'rb') as fh:
            h.update(fh.read())
        h.update(b'\0')
    h.update(b'mirdump-v3')
    return h.hexdigest()[:24]


def _run(cmd, cwd, out_path, env=None, timeout=1800):
    with open(out_path, 'wb') as out, open(out_path + '.err', 'wb') as errf:
        r = subprocess.run(cmd, cwd=cwd, stdout=out, stderr=errf, env=env or ENV, timeout=timeout)
    if r.returncode != 0:
        sys.stderr.write(open(out_path + '.err', errors='replace').read()[-3000:])
        raise RuntimeError('command failed: ' + ' '.join(cmd))


def copy_tree(dst, repo=REPO):
    os.makedirs(dst, exist_ok=True)
    for p in tree_files(repo):
        rel = os.path.relpath(p, repo)
        q = os.path.join(dst, rel)
        os.makedirs(os.path.dirname(q), exist_ok=True)
        shutil.copy2(p, q)


def prepare(need_bin=True, no_cache=False, log=None):
    """-> cache dir containing tree/ (copy of the working tree), ucg.mir, bin.mir, ap.mir"""
    os.makedirs(CACHE, exist_ok=True)
    key = tree_hash()
    d = os.path.join(CACHE, 'mir-' + key)
    lock = open(os.path.join(CACHE, '.lock'), 'w')
    fcntl.flock(lock, fcntl.LOCK_EX)
    try:
        if no_cache and os.path.isdir(d):
            shutil.rmtree(d)
        if os.path.exists(os.path.join(d, 'ok')):
            return d
        if os.path.isdir(d):
            shutil.rmtree(d)
        # keep a few older entries (a long-running check may still be using its own while others come and go)
        olds = sorted(glob.glob(os.path.join(CACHE, 'mir-*')), key=os.path.getmtime)
        for o in olds[:-5]:
            shutil.rmtree(o, ignore_errors=True)
        t0 = time.time()
        tmp = d + '.tmp'
        shutil.rmtree(tmp, ignore_errors=True)
        tree = os.path.join(tmp, 'tree')
        copy_tree(tree)
        # build in a fixed scratch location so cargo fingerprints of the dependencies stay valid
        scratch = SCRATCH
        shutil.rmtree(scratch, ignore_errors=True)
        shutil.copytree(tree, scratch)
        env = dict(ENV, CARGO_TARGET_DIR=os.path.join(CACHE, 'target-nightly'))
        flags = ['--', '-Zunpretty=mir', '-C', 'debug-assertions=off', '-C', 'overflow-checks=on']
        try:
            _run(['cargo', '+nightly', 'rustc', '--offline', '--lib'] + flags, scratch, os.path.join(tmp, 'ucg.mir'), env)
            _run(['cargo', '+nightly', 'rustc', '--offline', '--bin', 'ucg'] + flags, scratch, os.path.join(tmp, 'bin.mir'), env)
            _run(['cargo', '+nightly', 'rustc', '--offline', '-p', 'abortable_parser'] + flags, scratch, os.path.join(tmp, 'ap.mir'), env)
        finally:
            shutil.rmtree(scratch, ignore_errors=True)
        for f in ('ucg.mir', 'bin.mir', 'ap.mir'):
            if os.path.getsize(os.path.join(tmp, f)) < 1000:
                raise RuntimeError('empty MIR dump ' + f)
        with open(os.path.join(tmp, 'ok'), 'w') as fh:
            fh.write('%.1f' % (time.time() - t0))
        os.rename(tmp, d)
        if log:
            log('MIR regenerated from working tree in %.1fs (%s)' % (time.time() - t0, key))
        return d
    finally:
        fcntl.flock(lock, fcntl.LOCK_UN)
        lock.close()


def ap_root():
    c = glob.glob(os.path.expanduser('~/.cargo/registry/src/*/abortable_parser-0.2.3'))
    if not c:
        raise RuntimeError('abortable_parser sources not found in the cargo registry')
    return c[0]


def load_program(d):
    sys.path.insert(0, os.path.join(VERIF, 'engine'))
    from mirsym import srcscan, interp, bi_core, bi_str, bi_more, bi_serde, bi_std2
    src = srcscan.Sources()
    src.add_crate('', os.path.join(d, 'tree'))
    src.add_crate('abortable_parser', ap_root(), local=False)
    prog = interp.Program(src)
    prog.load(os.path.join(d, 'ucg.mir'), 'ucg')
    prog.load(os.path.join(d, 'ap.mir'), 'abortable_parser')
    prog.load(os.path.join(d, 'bin.mir'), 'ucgbin')
    prog.index()
    bi_core.install(prog)
    bi_str.install(prog)
    bi_more.install(prog)
    bi_serde.install(prog)
    bi_std2.install(prog)
    prog.tree = os.path.join(d, 'tree')
    prog.mir_sha = {f: hashlib.sha256(open(os.path.join(d, f), 'rb').read()).hexdigest()[:16] for f in ('ucg.mir', 'bin.mir', 'ap.mir')}
    return prog


def lsp_root():
    c = glob.glob(os.path.expanduser('~/.cargo/registry/src/*/lsp-types-0.95.1'))
    if not c:
        raise RuntimeError('lsp-types sources not found in the cargo registry')
    return c[0]


_SERDE = re.compile(r'_::|serde::|Serialize|Deserialize|__Field|__Visitor|visit_|fmt_pascal_case|PascalCaseBuf')


def lsp_mir(d, log=None):
    """MIR of the (fixed, third-party) lsp-types crate without its serde derive code; dumped once per cache"""
    out = os.path.join(CACHE, 'lsp-types-0.95.1.mir')
    if os.path.exists(out) and os.path.getsize(out) > 100000:
        return out
    lock = open(os.path.join(CACHE, '.lock'), 'w')
    fcntl.flock(lock, fcntl.LOCK_EX)
    try:
        if os.path.exists(out) and os.path.getsize(out) > 100000:
            return out
        scratch = SCRATCH
        shutil.rmtree(scratch, ignore_errors=True)
        shutil.copytree(os.path.join(d, 'tree'), scratch)
        env = dict(ENV, CARGO_TARGET_DIR=os.path.join(CACHE, 'target-nightly'))
        raw = out + '.raw'
        try:
            subprocess.run(['touch', os.path.join(lsp_root(), 'src', 'lib.rs')], check=False)
            _run(['cargo', '+nightly', 'rustc', '--offline', '-p', 'lsp-types', '--', '-Zunpretty=mir', '-C', 'debug-assertions=off', '-C', 'overflow-checks=on'], scratch, raw, env)
        finally:
            shutil.rmtree(scratch, ignore_errors=True)
        keep = []
        skip = False
        for line in open(raw):
            if line.startswith(('fn ', 'const ', 'static ')):
                skip = bool(_SERDE.search(line.split('{')[0] if '<impl at' not in line else line))
            if not skip:
                keep.append(line)
        with open(out + '.tmp', 'w') as fh:
            fh.writelines(keep)
        os.remove(raw)
        os.rename(out + '.tmp', out)
        if log:
            log('lsp-types MIR dumped (%d KiB after dropping serde code)' % (os.path.getsize(out) // 1024))
        return out
    finally:
        fcntl.flock(lock, fcntl.LOCK_UN)
        lock.close()


def load_lsp(prog, d, log=None):
    """add the lsp-types crate (structs, Default impls, enum-like consts) to a loaded program"""
    path = lsp_mir(d, log)
    prog.sources.add_crate('lsp_types', lsp_root(), local=False)
    before = set(prog.consts)
    prog.load(path, 'lsp_types')
    # the lsp_enum! macro puts every `pub const NAME: Type` into an impl located at the macro definition, so the impl
    # position does not identify the type; the const's own type annotation does
    for name in list(prog.consts):
        if name in before:
            continue
        c = prog.consts[name]
        m = re.match(r'const .*>::(\w+): ([\w:]+) = ', c.header)
        if m:
            prog.consts.setdefault('lsp_types::%s::%s' % (m.group(2).split('::')[-1], m.group(1)), c)
    prog.impl_index.clear()
    prog.by_last.clear()
    prog.closure_index.clear()
    prog.resolve_cache.clear()
    prog.index()
    return prog
