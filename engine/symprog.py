"""Programs with symbolic leaves: concrete ucg text is parsed by the real parser (memoised), then chosen literals of
the AST are replaced by z3 terms. Placeholders: integer literals >= 900000001 and string literals of the form ZQS<i>ZQ."""
from mirsym.vals import Agg, VecV, SymStr, is_sym
import astb
import ucgrun

INT_BASE = 900000000
import re
_SPH = re.compile(r'ZQS\d+ZQ')


def sph(i):
    """placeholder string literal content for symbolic string number i"""
    return 'ZQS%dZQ' % i


def ph(i):
    """placeholder integer literal for symbolic leaf number i (1-based)"""
    return str(INT_BASE + i)


def subst(prog, v, ints=None, floats=None, strs=None):
    """replace `Value::Int(PositionedItem{val: INT_BASE+i})` by ints[i], Float literals INT_BASE+i+0.5 by floats[i],
    Str literals '§<i>' by strs[i]."""
    b = astb.B(prog)
    vnames = b.variants('ast::Value')
    IDX = {n: k for k, n in enumerate(vnames)}
    ints = ints or {}
    floats = floats or {}
    strs = strs or {}
    vty = None

    def walk(x):
        t = type(x)
        if t is Agg:
            if x.ty.endswith('ast::Value') and x.variant is not None:
                if x.variant == IDX['Int']:
                    pi = x.fields[0]
                    val = pi.fields[1]
                    if type(val) is int and val - INT_BASE in ints:
                        return Agg(x.ty, x.variant, (Agg(pi.ty, None, (pi.fields[0], ints[val - INT_BASE])),))
                    return x
                if x.variant == IDX['Float']:
                    pi = x.fields[0]
                    val = pi.fields[1]
                    if type(val) is float and val == int(val) + 0.5 and int(val) - INT_BASE in floats:
                        return Agg(x.ty, x.variant, (Agg(pi.ty, None, (pi.fields[0], floats[int(val) - INT_BASE])),))
                    return x
                if x.variant == IDX['Str']:
                    pi = x.fields[0]
                    val = pi.fields[1]
                    if type(val) is str and _SPH.fullmatch(val) and int(val[3:-2]) in strs:
                        return Agg(x.ty, x.variant, (Agg(pi.ty, None, (pi.fields[0], strs[int(val[3:-2])])),))
                    return x
            nf = tuple(walk(f) for f in x.fields)
            if all(a is c for a, c in zip(nf, x.fields)):
                return x
            return Agg(x.ty, x.variant, nf)
        if t is VecV:
            ni = tuple(walk(f) for f in x.items)
            if all(a is c for a, c in zip(ni, x.items)):
                return x
            return VecV(ni)
        if t is str and _SPH.fullmatch(x) and int(x[3:-2]) in strs:
            return strs[int(x[3:-2])]         # e.g. FormatDef.template
        return x
    return walk(v)


def int_lit(v):
    """ucg source text for an i64 value (the language has no negative literals)"""
    if v >= 0:
        return str(v)
    if v == -(1 << 63):
        return '(0 - 9223372036854775807 - 1)'
    return '(0 - %d)' % (-v)


def float_lit(f):
    """ucg source text for a finite non-negative f64: the exact decimal expansion (digits '.' digits, no exponent), which parses
    back to the same f64"""
    from decimal import Decimal
    t = format(Decimal(f), 'f')
    return t if '.' in t else t + '.0'


def render_text(text, m, ctx, ints=None, strs=None, floats=None):
    """concrete program text for a model: placeholders replaced by literal values"""
    out = text
    for i, term in sorted((floats or {}).items(), reverse=True):
        import z3
        val = m.eval(term, model_completion=True)
        bits = m.eval(z3.fpToIEEEBV(val), model_completion=True).as_long()
        import struct
        out = out.replace(ph(i) + '.5', float_lit(struct.unpack('<d', struct.pack('<Q', bits))[0]))
    for i, term in sorted((ints or {}).items(), reverse=True):
        val = m.eval(term, model_completion=True)
        out = out.replace(ph(i), int_lit(val.as_signed_long()))
    for i, s in sorted((strs or {}).items(), reverse=True):
        bs = bytes(m.eval(x, model_completion=True).as_long() if is_sym(x) else x for x in (s.bytes if type(s) is SymStr else s.encode()))
        lit = bs.decode('latin-1').replace('\\', '\\\\').replace('"', '\\"')
        out = out.replace(sph(i), lit)
    return out


def binding(ctx, vm_cell, name):
    """value bound to `name` in the VM's symbol table (or None)"""
    b = astb.B(ctx.prog)
    vm = vm_cell.slot[0]
    syms = b.field(vm, 'build::opcode::vm::VM', 'symbols')
    r = ctx.call('Stack::get', [syms, name])
    if r.variant == 0:
        return None
    return r.fields[0].fields[0]


def struct_eq(x, y, skip_types=('ast::Position',)):
    """structural equality of two engine values -> False | list of z3 conditions (empty list = equal outright).
    Aggregates of the types in `skip_types` are ignored."""
    import z3
    from mirsym.vals import deref_all, Ref, CellV, MapV
    conds = []

    def eq(a, c):
        a, c = deref_all(a), deref_all(c)
        ta, tc = type(a), type(c)
        if ta is Agg and tc is Agg:
            if any(a.ty.endswith(s) for s in skip_types) and a.ty == c.ty:
                return True
            if a.ty != c.ty or len(a.fields) != len(c.fields):
                return False
            if is_sym(a.variant) or is_sym(c.variant):
                conds.append(a.variant == c.variant)
            elif a.variant != c.variant:
                return False
            return all(eq(p, q) for p, q in zip(a.fields, c.fields))
        if ta is VecV and tc is VecV:
            return len(a.items) == len(c.items) and all(eq(p, q) for p, q in zip(a.items, c.items))
        if ta is MapV and tc is MapV:
            return len(a.items) == len(c.items) and all(eq(p[0], q[0]) and eq(p[1], q[1]) for p, q in zip(a.items, c.items))
        if ta in (str, SymStr) and tc in (str, SymStr):
            ab = a.bytes if ta is SymStr else tuple(a.encode())
            cb = c.bytes if tc is SymStr else tuple(c.encode())
            if len(ab) != len(cb):
                return False
            for p, q in zip(ab, cb):
                if is_sym(p) or is_sym(q):
                    conds.append((p if is_sym(p) else z3.BitVecVal(p, 8)) == (q if is_sym(q) else z3.BitVecVal(q, 8)))
                elif p != q:
                    return False
            return True
        if is_sym(a) or is_sym(c):
            if is_sym(a) and is_sym(c) and a.eq(c):
                return True
            try:
                if is_sym(a) and not is_sym(c):
                    c = z3.BitVecVal(c, a.size()) if z3.is_bv(a) else (z3.BoolVal(c) if z3.is_bool(a) else z3.FPVal(c, a.sort()))
                if is_sym(c) and not is_sym(a):
                    a = z3.BitVecVal(a, c.size()) if z3.is_bv(c) else (z3.BoolVal(a) if z3.is_bool(c) else z3.FPVal(a, c.sort()))
                conds.append(z3.fpEQ(a, c) if z3.is_fp(a) else a == c)
            except Exception:
                return False
            return True
        if ta in (Agg, VecV, MapV) or tc in (Agg, VecV, MapV):
            return False
        if ta is float and tc is float:
            return a == c or (a != a and c != c)
        return ta is tc and a == c or (ta in (int, bool) and tc in (int, bool) and a == c)
    return conds if eq(x, y) else False
