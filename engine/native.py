"""Native side: build /repo's working tree (scratch copy) with the stable toolchain and run concrete cases through it.
Used to replay solver counterexamples before they are reported, to validate witnesses, and as the concrete
differential for the MIR interpreter. Binaries are cached by working-tree hash."""
import fcntl
import json
import os
import shutil
import subprocess
import sys
import time

import world

import hashlib as _h
SCRATCH = '/var/tmp/ucg-verif-native-' + _h.sha256(world.CACHE.encode()).hexdigest()[:8]


class Native:
    def __init__(self, cache_dir, log=None, profile='dev'):
        self.cache_dir = cache_dir
        self.profile = profile
        import hashlib
        h = hashlib.sha256(open(os.path.join(world.VERIF, 'replay', 'src', 'main.rs'), 'rb').read()).hexdigest()[:10]
        self.dir = os.path.join(cache_dir, 'native-%s-%s' % (profile, h))
        lock = open(os.path.join(world.CACHE, '.lock-native'), 'w')
        fcntl.flock(lock, fcntl.LOCK_EX)
        try:
            if not os.path.exists(os.path.join(self.dir, 'ok')):
                t0 = time.time()
                shutil.rmtree(self.dir, ignore_errors=True)
                os.makedirs(self.dir)
                shutil.rmtree(SCRATCH, ignore_errors=True)
                os.makedirs(SCRATCH)
                tree = os.path.join(SCRATCH, 'tree')
                shutil.copytree(os.path.join(cache_dir, 'tree'), tree)
                rep = os.path.join(SCRATCH, 'replay')
                shutil.copytree(os.path.join(world.VERIF, 'replay'), rep)
                toml = open(os.path.join(rep, 'Cargo.toml.in')).read().replace('@TREE@', tree)
                open(os.path.join(rep, 'Cargo.toml'), 'w').write(toml)
                shutil.copy(os.path.join(tree, 'Cargo.lock'), os.path.join(rep, 'Cargo.lock'))
                env = dict(world.ENV, CARGO_TARGET_DIR=os.path.join(world.CACHE, 'target-native'))
                flags = ['--release'] if profile == 'release' else []
                try:
                    for cwd, args in ((rep, ['cargo', 'build', '--offline'] + flags), (tree, ['cargo', 'build', '--offline', '--bin', 'ucg'] + flags)):
                        r = subprocess.run(args, cwd=cwd, env=env, stdout=subprocess.PIPE, stderr=subprocess.STDOUT, timeout=3600)
                        if r.returncode != 0:
                            sys.stderr.write(r.stdout.decode(errors='replace')[-4000:])
                            raise RuntimeError('native build failed')
                    sub = 'release' if profile == 'release' else 'debug'
                    shutil.copy(os.path.join(world.CACHE, 'target-native', sub, 'ucg-replay'), os.path.join(self.dir, 'ucg-replay'))
                    shutil.copy(os.path.join(world.CACHE, 'target-native', sub, 'ucg'), os.path.join(self.dir, 'ucg'))
                finally:
                    shutil.rmtree(SCRATCH, ignore_errors=True)
                open(os.path.join(self.dir, 'ok'), 'w').write('%.1f' % (time.time() - t0))
                if log:
                    log('native %s build of the working tree in %.1fs' % (profile, time.time() - t0))
        finally:
            fcntl.flock(lock, fcntl.LOCK_UN)
            lock.close()
        self.replay_bin = os.path.join(self.dir, 'ucg-replay')
        self.ucg_bin = os.path.join(self.dir, 'ucg')

    def run_many(self, cases, timeout=900):
        r = subprocess.run([self.replay_bin], input=json.dumps(cases).encode(), stdout=subprocess.PIPE, stderr=subprocess.PIPE, timeout=timeout)
        if r.returncode != 0:
            # abort / stack overflow: bisect so that one crashing case does not hide the others
            if len(cases) == 1:
                return [{'crash': True, 'returncode': r.returncode, 'stderr': r.stderr.decode(errors='replace')[-500:]}]
            mid = len(cases) // 2
            return self.run_many(cases[:mid], timeout) + self.run_many(cases[mid:], timeout)
        return json.loads(r.stdout.decode())

    def run(self, case):
        return self.run_many([case])[0]

    def cli(self, args, cwd, env=None, timeout=60, stdin=None, clear_env=False):
        e = {} if clear_env else {'PATH': os.environ.get('PATH', ''), 'HOME': cwd}
        if env:
            e.update(env)
        r = subprocess.run([self.ucg_bin] + list(args), cwd=cwd, env=e, stdout=subprocess.PIPE, stderr=subprocess.PIPE, timeout=timeout, input=stdin)
        return {'rc': r.returncode, 'stdout': r.stdout.decode(errors='replace'), 'stderr': r.stderr.decode(errors='replace')}
