"""Helpers to build values of ucg's real types (by *name*; field/variant order comes from the working tree's sources)."""
from mirsym.vals import Agg, VecV, NONE, some, UNIT
from mirsym.interp import _canon_ty


class B:
    def __init__(self, prog):
        self.prog = prog
        self.src = prog.sources

    def enum(self, ty, variant, *fields):
        vs = self.src.enum_variants(ty)
        if vs is None:
            raise KeyError('enum ' + ty)
        names = [v[0] for v in vs]
        return Agg(_canon_ty(self.prog, ty), names.index(variant), fields)

    def enum_sym(self, ty, disc):
        """field-less enum with a symbolic discriminant (z3 BitVec, isize width 64)"""
        return Agg(_canon_ty(self.prog, ty), disc, ())

    def variants(self, ty):
        return [v[0] for v in self.src.enum_variants(ty)]

    def struct(self, ty, **kw):
        fs = self.src.struct_fields(ty)
        if fs is None:
            raise KeyError('struct ' + ty)
        missing = [f for f in fs if f not in kw]
        extra = [k for k in kw if k not in fs]
        if missing or extra:
            raise KeyError('struct %s: missing %s extra %s' % (ty, missing, extra))
        return Agg(_canon_ty(self.prog, ty), None, [kw[f] for f in fs])

    def field(self, v, ty, name):
        fs = self.src.struct_fields(ty)
        return v.fields[fs.index(name)]

    def variant_name(self, v, ty=None):
        vs = self.src.enum_variants(ty or v.ty)
        return vs[v.variant][0]

    # ---- ucg AST
    def pos(self, line, col, off=None, file=None):
        return self.struct('ast::Position', file=NONE if file is None else some(file), line=line, column=col,
                           offset=(line * 1000 + col) if off is None else off)

    def positioned(self, pos, val):
        return self.struct('ast::PositionedItem', pos=pos, val=val)

    def v_int(self, n, pos):
        return self.enum('ast::Value', 'Int', self.positioned(pos, n))

    def v_sym(self, s, pos):
        return self.enum('ast::Value', 'Symbol', self.positioned(pos, s))

    def v_str(self, s, pos):
        return self.enum('ast::Value', 'Str', self.positioned(pos, s))

    def v_bool(self, b, pos):
        return self.enum('ast::Value', 'Boolean', self.positioned(pos, b))

    def v_float(self, f, pos):
        return self.enum('ast::Value', 'Float', self.positioned(pos, f))

    def v_empty(self, pos):
        return self.enum('ast::Value', 'Empty', pos)

    def e_simple(self, v):
        return self.enum('ast::Expression', 'Simple', v)

    def e_binary(self, kind, left, right, pos):
        return self.enum('ast::Expression', 'Binary', self.struct('ast::BinaryOpDef', kind=kind, left=left, right=right, pos=pos))

    def e_grouped(self, e, pos):
        return self.enum('ast::Expression', 'Grouped', e, pos)

    def binkind(self, name):
        return self.enum('ast::BinaryExprType', name)
