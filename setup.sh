#!/bin/sh
# MANIFEST.setup_cmd: build everything the checks need from files on disk only (offline).
set -e
DIR="$(cd "$(dirname "$0")" && pwd)"
export CARGO_NET_OFFLINE=true
cd "$DIR"
python3-vt - <<PY
import sys, time
sys.path.insert(0, '$DIR/engine')
import world, native
t = time.time()
d = world.prepare(log=print)
print('mir ready in %.1fs: %s' % (time.time() - t, d))
t = time.time()
native.Native(d, print)
print('native ready in %.1fs' % (time.time() - t))
PY
python3-vt "$DIR/engine/selftest.py"
python3-vt "$DIR/tools/std_selftest.py"
echo setup ok
